"""Specifications (from the property statements C03/C05/C07/C08) and loop invariants for
mpilot/libraries/eems/basic.py."""
import z3

from pyvc import smt
from pyvc.cmdspec import CommandSpec
from pyvc.spec import loop, LoopContract
from pyvc.smt import INT, FLT
from pyvc.values import Ref

B = "mpilot/libraries/eems/basic.py"
SPECS = {}


def spec(name):
    def deco(cls):
        SPECS[name] = cls()
        return cls

    return deco


def shapes_differ(x, name):
    """exists k in [1, n): shape(k) != shape(0)  - as a goal it is instantiated over the known positions"""
    n = x.n(name)
    ks = x.st_k() if hasattr(x, "st_k") else []
    return ("exists_k", lambda k: z3.And(k >= 1, k < n, x.shape(name, k) != x.shape(name, z3.IntVal(0))))


class NaryMixin(object):
    LIST = "InFieldNames"

    def nary_raises(self, x):
        n = x.n(self.LIST)
        return [("EmptyInputs", n == 0),
                ("MixedArrayShapes", ("exists_k", lambda k: z3.And(k >= 1, k < n, x.shape(self.LIST, k) != x.shape(self.LIST, z3.IntVal(0)))))]


# ------------------------------------------------------------------ binary
@spec("AMinusB")
class AMinusBSpec(CommandSpec):
    def raises(self, x):
        return [("MixedArrayShapes", x.shape("A") != x.shape("B"))]

    def result(self, x):
        return dict(shape=x.shape("A"), dtype=z3.If(z3.Or(x.dtype("A") == FLT, x.dtype("B") == FLT), FLT, INT),
                    miss=lambda c: z3.Or(x.miss("A", c), x.miss("B", c)),
                    value=lambda c: x.view("A", c) - x.view("B", c))


@spec("ADividedByB")
class ADividedByBSpec(CommandSpec):
    def raises(self, x):
        return [("MixedArrayShapes", x.shape("A") != x.shape("B"))]

    def result(self, x):
        return dict(shape=x.shape("A"), dtype=FLT,
                    miss=lambda c: z3.Or(x.miss("A", c), x.miss("B", c), x.view("B", c) == 0),
                    value=lambda c: x.view("A", c) / x.view("B", c))


@spec("Copy")
class CopySpec(CommandSpec):
    def result(self, x):
        return dict(shape=x.shape("InFieldName"), dtype=x.dtype("InFieldName"),
                    miss=lambda c: x.miss("InFieldName", c), value=lambda c: x.view("InFieldName", c))


# ------------------------------------------------------------------ n-ary sums
@spec("Sum")
class SumSpec(NaryMixin, CommandSpec):
    def raises(self, x):
        return self.nary_raises(x)

    def result(self, x):
        L, n = self.LIST, x.n(self.LIST)
        return dict(shape=x.shape(L, z3.IntVal(0)), dtype=x.pdtype(L, n - 1),
                    miss=lambda c: x.pmiss(L, n - 1, c), value=lambda c: x.psum(L, n - 1, c))


class _AccLoop(LoopContract):
    """after j iterations over arrays[1:], `result` = fold of inputs 0..j (fresh MA array)"""
    VAR = "result"
    L = "InFieldNames"

    def val(self, x, j, c):
        raise NotImplementedError

    def dtype(self, x, j):
        return x.pdtype(self.L, j)

    def inv(self, I):
        x = I.eng.x
        L = self.L
        I.temps("arr")
        I.arr(self.VAR, "MA", self.dtype(x, I.j), x.shape(L, z3.IntVal(0)),
              lambda c: x.pmiss(L, I.j, c), lambda c: self.val(x, I.j, c))


@loop(B + "::Sum.execute", "for", 0)
class SumLoop(_AccLoop):
    def val(self, x, j, c):
        return x.psum(self.L, j, c)
