"""Specifications (from the property statements C03/C05/C07/C08) and loop invariants for
mpilot/libraries/eems/basic.py."""
import z3

from pyvc import smt
from pyvc.cmdspec import CommandSpec
from pyvc.spec import loop, LoopContract
from pyvc.smt import INT, FLT
from pyvc.values import Ref

B = "mpilot/libraries/eems/basic.py"
SPECS = {}


def spec(name):
    def deco(cls):
        SPECS[name] = cls()
        return cls

    return deco


def shapes_differ(x, name):
    """exists k in [1, n): shape(k) != shape(0)  - as a goal it is instantiated over the known positions"""
    n = x.n(name)
    ks = x.st_k() if hasattr(x, "st_k") else []
    return ("exists_k", lambda k: z3.And(k >= 1, k < n, x.shape(name, k) != x.shape(name, z3.IntVal(0))))


class NaryMixin(object):
    LIST = "InFieldNames"

    def nary_raises(self, x):
        n = x.n(self.LIST)
        return [("EmptyInputs", n == 0),
                ("MixedArrayShapes", ("exists_k", lambda k: z3.And(k >= 1, k < n, x.shape(self.LIST, k) != x.shape(self.LIST, z3.IntVal(0)))))]


# ------------------------------------------------------------------ binary
@spec("AMinusB")
class AMinusBSpec(CommandSpec):
    def raises(self, x):
        return [("MixedArrayShapes", x.shape("A") != x.shape("B"))]

    def result(self, x):
        return dict(shape=x.shape("A"), dtype=z3.If(z3.Or(x.dtype("A") == FLT, x.dtype("B") == FLT), FLT, INT),
                    miss=lambda c: z3.Or(x.miss("A", c), x.miss("B", c)),
                    value=lambda c: x.view("A", c) - x.view("B", c))


@spec("ADividedByB")
class ADividedByBSpec(CommandSpec):
    def raises(self, x):
        return [("MixedArrayShapes", x.shape("A") != x.shape("B"))]

    def result(self, x):
        return dict(shape=x.shape("A"), dtype=FLT,
                    miss=lambda c: z3.Or(x.miss("A", c), x.miss("B", c), x.view("B", c) == 0),
                    value=lambda c: x.view("A", c) / x.view("B", c))


@spec("Copy")
class CopySpec(CommandSpec):
    def result(self, x):
        return dict(shape=x.shape("InFieldName"), dtype=x.dtype("InFieldName"),
                    miss=lambda c: x.miss("InFieldName", c), value=lambda c: x.view("InFieldName", c))


# ------------------------------------------------------------------ n-ary sums
@spec("Sum")
class SumSpec(NaryMixin, CommandSpec):
    def raises(self, x):
        return self.nary_raises(x)

    def result(self, x):
        L, n = self.LIST, x.n(self.LIST)
        return dict(shape=x.shape(L, z3.IntVal(0)), dtype=x.pdtype(L, n - 1),
                    miss=lambda c: x.pmiss(L, n - 1, c), value=lambda c: x.psum(L, n - 1, c))


class _AccLoop(LoopContract):
    """after j iterations over arrays[1:], `result` = fold of inputs 0..j (fresh MA array)"""
    VAR = "result"
    L = "InFieldNames"

    def val(self, x, j, c):
        raise NotImplementedError

    def dtype(self, x, j):
        return x.pdtype(self.L, j)

    def inv(self, I):
        x = I.eng.x
        L = self.L
        I.temps("arr")
        I.arr(self.VAR, "MA", self.dtype(x, I.j), x.shape(L, z3.IntVal(0)),
              lambda c: x.pmiss(L, I.j, c), lambda c: self.val(x, I.j, c))


@loop(B + "::Sum.execute", "for", 0)
class SumLoop(_AccLoop):
    def val(self, x, j, c):
        return x.psum(self.L, j, c)


@spec("WeightedSum")
class WeightedSumSpec(NaryMixin, CommandSpec):
    def raises(self, x):
        n, nw = x.n("InFieldNames"), x.n("Weights")
        return [("MismatchedWeights", nw != n),
                ("EmptyInputs", z3.And(nw == n, n == 0)),
                ("MixedArrayShapes", ("exists_k", lambda k: z3.And(nw == n, k >= 1, k < n, x.shape("InFieldNames", k) != x.shape("InFieldNames", z3.IntVal(0)))))]

    def result(self, x):
        L, n = "InFieldNames", x.n("InFieldNames")
        return dict(shape=x.shape(L, z3.IntVal(0)), dtype=x.pwdtype(L, "Weights", n - 1),
                    miss=lambda c: x.pmiss(L, n - 1, c), value=lambda c: x.pwsum(L, "Weights", n - 1, c))


@loop(B + "::WeightedSum.execute", "for", 0)
class WeightedSumLoop(_AccLoop):
    def inv(self, I):
        I.temps("weight")
        _AccLoop.inv(self, I)

    def val(self, x, j, c):
        return x.pwsum(self.L, "Weights", j, c)

    def dtype(self, x, j):
        return x.pwdtype(self.L, "Weights", j)


@spec("Multiply")
class MultiplySpec(NaryMixin, CommandSpec):
    def raises(self, x):
        return self.nary_raises(x)

    def result(self, x):
        L, n = self.LIST, x.n(self.LIST)
        return dict(shape=x.shape(L, z3.IntVal(0)), dtype=x.pdtype(L, n - 1),
                    miss=lambda c: x.pmiss(L, n - 1, c), value=lambda c: x.pprod(L, n - 1, c))


@loop(B + "::Multiply.execute", "for", 0)
class MultiplyLoop(_AccLoop):
    def val(self, x, j, c):
        return x.pprod(self.L, j, c)


@spec("Minimum")
class MinimumSpec(NaryMixin, CommandSpec):
    def raises(self, x):
        return self.nary_raises(x)

    def result(self, x):
        L, n = self.LIST, x.n(self.LIST)
        return dict(shape=x.shape(L, z3.IntVal(0)), dtype=x.pdtype(L, n - 1),
                    miss=lambda c: x.pmiss(L, n - 1, c), value=lambda c: x.pmin(L, n - 1, c))


@spec("Maximum")
class MaximumSpec(NaryMixin, CommandSpec):
    def raises(self, x):
        return self.nary_raises(x)

    def result(self, x):
        L, n = self.LIST, x.n(self.LIST)
        return dict(shape=x.shape(L, z3.IntVal(0)), dtype=x.pdtype(L, n - 1),
                    miss=lambda c: x.pmiss(L, n - 1, c), value=lambda c: x.pmax(L, n - 1, c))


class _FoldLoop(_AccLoop):
    VAR = "$acc"

    def inv(self, I):
        x = I.eng.x
        L = self.L
        I.arr(self.VAR, "MA", self.dtype(x, I.j), x.shape(L, z3.IntVal(0)),
              lambda c: x.pmiss(L, I.j, c), lambda c: self.val(x, I.j, c))


@loop(B + "::Minimum.execute", "reduce", 0)
class MinimumFold(_FoldLoop):
    def val(self, x, j, c):
        return x.pmin(self.L, j, c)


@loop(B + "::Maximum.execute", "reduce", 0)
class MaximumFold(_FoldLoop):
    def val(self, x, j, c):
        return x.pmax(self.L, j, c)


class _SumFold(LoopContract):
    """builtin sum(arrays): after j >= 1 iterations the accumulator is 0 + a_0 + ... + a_{j-1}"""
    L = "InFieldNames"

    def dtype(self, x, j):
        return x.pdtype(self.L, j)

    def inv(self, I):
        x = I.eng.x
        L = self.L
        I.arr("$acc", "MA", self.dtype(x, I.j - 1), x.shape(L, z3.IntVal(0)),
              lambda c: x.pmiss(L, I.j - 1, c), lambda c: x.psum(L, I.j - 1, c))


@spec("Mean")
class MeanSpec(NaryMixin, CommandSpec):
    def raises(self, x):
        return self.nary_raises(x)

    def result(self, x):
        L, n = self.LIST, x.n(self.LIST)
        return dict(shape=x.shape(L, z3.IntVal(0)), dtype=FLT,
                    miss=lambda c: x.pmiss(L, n - 1, c), value=lambda c: x.psum(L, n - 1, c) / z3.ToReal(n))


@loop(B + "::Mean.execute", "sum", 0)
class MeanSum(_SumFold):
    pass


@spec("WeightedMean")
class WeightedMeanSpec(NaryMixin, CommandSpec):
    def raises(self, x):
        return WeightedSumSpec.raises(self, x)

    def result(self, x):
        L, n = "InFieldNames", x.n("InFieldNames")
        sw = x.wsum("Weights").t
        return dict(shape=x.shape(L, z3.IntVal(0)), dtype=FLT,
                    miss=lambda c: z3.Or(x.pmiss(L, n - 1, c), sw == 0),
                    value=lambda c: x.pwsum(L, "Weights", n - 1, c) / sw)


@loop(B + "::WeightedMean.execute", "for", 0)
class WeightedMeanLoop(WeightedSumLoop):
    pass


# ------------------------------------------------------------------ normalisations
def opt(x, name, default):
    return z3.If(x.has(name), x.num(name), z3.RealVal(default))


@spec("Normalize")
class NormalizeSpec(CommandSpec):
    uses_stats = True

    def result(self, x):
        N = "InFieldName"
        vmin, vmax = x.stat(N, "vmin"), x.stat(N, "vmax")
        start, end = opt(x, "StartVal", 0), opt(x, "EndVal", 1)
        return dict(shape=x.shape(N), dtype=FLT,
                    miss=lambda c: z3.Or(x.miss(N, c), vmin == vmax),
                    value=lambda c: (x.view(N, c) - vmin) * (end - start) / (vmax - vmin) + start)


@spec("NormalizeZScore")
class NormalizeZScoreSpec(CommandSpec):
    uses_stats = True

    def parts(self, x):
        N = "InFieldName"
        mean, std = x.stat(N, "vmean"), x.stat(N, "vstd")
        tt, ft = opt(x, "TrueThresholdZScore", 0), opt(x, "FalseThresholdZScore", 1)
        start, end = opt(x, "StartVal", 0), opt(x, "EndVal", 1)
        x1, x2 = mean + std * tt, mean + std * ft
        return x1, x2, start, end

    def result(self, x):
        from contracts.eems_common import clamp
        N = "InFieldName"
        x1, x2, start, end = self.parts(x)
        return dict(shape=x.shape(N), dtype=FLT,
                    miss=lambda c: z3.Or(x.miss(N, c), x2 - x1 == 0),
                    value=lambda c: clamp((x.view(N, c) - x1) * (start - end) / (x2 - x1) + end, start, end))


@spec("NormalizeCat")
class NormalizeCatSpec(CommandSpec):
    RAW, NORMAL, DEFAULT = "RawValues", "NormalValues", "DefaultNormalValue"

    def raises(self, x):
        nr, nn = x.n(self.RAW), x.n(self.NORMAL)
        return [("MixedArrayLengths", nr != nn), ("DuplicateRawValues", z3.And(nr == nn, z3.Not(x.distinct(self.RAW))))]

    def cat(self, x, j, c):
        N = "InFieldName"
        d = x.num(self.DEFAULT)
        rf = x.recfun("cat", lambda c: z3.If(x.view(N, c) == x.w(self.RAW, z3.IntVal(0)), x.w(self.NORMAL, z3.IntVal(0)), d),
                      lambda prev, k, c: z3.If(x.view(N, c) == x.w(self.RAW, k), x.w(self.NORMAL, k), prev))
        return rf.at(j, c)

    def result(self, x):
        N = "InFieldName"
        n = x.n(self.RAW)
        return dict(shape=x.shape(N), dtype=FLT, miss=lambda c: x.miss(N, c),
                    value=lambda c: z3.If(n == 0, x.num(self.DEFAULT), self.cat(x, n - 1, c)))


@loop(B + "::NormalizeCat.execute", "for", 0)
class NormalizeCatLoop(LoopContract):
    def inv(self, I):
        x = I.eng.x
        N = "InFieldName"
        I.temps("raw", "normal")
        sp = SPECS["NormalizeCat"]
        I.bound(I.a("result"))
        # the result's own mask/kind are whatever the code made them: keep the observed ones and let the exit check judge
        cur = I.st.get(I.var("result"))
        I.arr("result", cur.kind, FLT, x.shape(N), cur.miss if I.mode == "check" else (lambda c: z3.BoolVal(False)),
              lambda c: sp.cat(x, I.j - 1, c), where=lambda c: z3.Not(x.miss(N, c)))


@spec("NormalizeCurve")
class NormalizeCurveSpec(CommandSpec):
    RAW, NORMAL = "RawValues", "NormalValues"

    def requires(self, x):
        # at least one control point (an empty curve is inadmissible)
        N = "InFieldName"
        P, Q, m, dist = x.sorted(self.RAW, self.NORMAL)
        cv, facts = x.curve("nc", P, Q, m, lambda c: x.view(N, c))
        for f in facts:
            x.st0.assume_all_cells(f)
        return [z3.Or(x.n(self.RAW) >= 1, x.n(self.RAW) != x.n(self.NORMAL))]

    def raises(self, x):
        nr, nn = x.n(self.RAW), x.n(self.NORMAL)
        return [("MixedArrayLengths", nr != nn), ("DuplicateRawValues", z3.And(nr == nn, z3.Not(x.distinct(self.RAW))))]

    def result(self, x):
        N = "InFieldName"
        P, Q, m, dist = x.sorted(self.RAW, self.NORMAL)
        cv, facts = x.curve("nc", P, Q, m, lambda c: x.view(N, c))
        return dict(shape=x.shape(N), dtype=FLT, miss=lambda c: x.miss(N, c), value=cv)


class _CurveLoop(LoopContract):
    SPEC = "NormalizeCurve"
    KEY = "nc"

    def inv(self, I):
        x = I.eng.x
        N = "InFieldName"
        sp = SPECS[self.SPEC]
        P, Q, m, dist = sp.sorted(x)
        cv, facts = x.curve(self.KEY, P, Q, m, lambda c: x.view(N, c))
        I.temps("i", "raw", "normal", "prev_raw", "prev_normal", "m", "b", "where_idx")
        j = I.j
        I.arr("result", "MA", FLT, x.shape(N), lambda c: z3.BoolVal(False), cv,
              where=lambda c: z3.And(z3.Not(x.miss(N, c)), x.view(N, c) <= P(j)))


def _nc_sorted(self, x):
    return x.sorted(self.RAW, self.NORMAL)


NormalizeCurveSpec.sorted = _nc_sorted


@loop(B + "::NormalizeCurve.execute", "for", 0)
class NormalizeCurveLoop(_CurveLoop):
    pass


@spec("NormalizeCurveZScore")
class NormalizeCurveZScoreSpec(CommandSpec):
    uses_stats = True
    Z, NORMAL = "ZScoreValues", "NormalValues"

    def rawseq(self, x):
        from pyvc.values import SeqV, Sym
        N = "InFieldName"
        mean, std = x.stat(N, "vmean"), x.stat(N, "vstd")
        zs = x.numseq(self.Z)
        return SeqV(zs.n, lambda k: Sym("num", mean + x.w(self.Z, k) * std, False))

    def sorted(self, x):
        return x.sorted(self.rawseq(x), self.NORMAL)

    def requires(self, x):
        N = "InFieldName"
        P, Q, m, dist = self.sorted(x)
        cv, facts = x.curve("ncz", P, Q, m, lambda c: x.view(N, c))
        for f in facts:
            x.st0.assume_all_cells(f)
        # admissible z-score vectors: non-empty, and distinct control points after scaling (sigma > 0, distinct z)
        return [z3.Or(x.n(self.Z) >= 1, x.n(self.Z) != x.n(self.NORMAL)), dist, x.stat(N, "vstd") > 0]

    def raises(self, x):
        return [("MixedArrayLengths", x.n(self.Z) != x.n(self.NORMAL))]

    def result(self, x):
        N = "InFieldName"
        P, Q, m, dist = self.sorted(x)
        cv, facts = x.curve("ncz", P, Q, m, lambda c: x.view(N, c))
        return dict(shape=x.shape(N), dtype=FLT, miss=lambda c: x.miss(N, c), value=cv)


@loop(B + "::NormalizeCurveZScore.execute", "for", 0)
class NormalizeCurveZScoreLoop(_CurveLoop):
    SPEC = "NormalizeCurveZScore"
    KEY = "ncz"


@spec("NormalizeMeanToMid")
class NormalizeMeanToMidSpec(CommandSpec):
    def admissible(self, case):
        # the mean-to-mid control points need values strictly below and above the (zero-filtered) mean
        inp = case["inputs"]["InFieldName"]
        vals = [v for v, m in zip(inp["data"], inp["mask"]) if not m]
        if case["params"].get("IgnoreZeros"):
            vals = [v for v in vals if v != 0]
        return len(set(vals)) >= 2

    """Mask, shape, kind, dtype and frame clauses are proved; the value clause (which five control points are
    chosen) is not specified here - the result is whatever NormalizeCurve's contract yields for the control
    points the code computes (bounded check covers the values)."""
    uses_stats = True
    NORMAL = "NormalValues"

    def requires(self, x):
        # documented use: five normal values, one per control point (min, low mean, mean, high mean, max)
        return [x.n(self.NORMAL) == 5]

    def raises(self, x):
        return [("MixedArrayLengths", None), ("DuplicateRawValues", None)]

    def result(self, x):
        N = "InFieldName"
        return dict(shape=x.shape(N), dtype=FLT, miss=lambda c: x.miss(N, c), value=None)


@spec("PrintVars")
class PrintVarsSpec(CommandSpec):
    def result(self, x):
        return None


@loop(B + "::PrintVars.execute", "for", 0)
class PrintVarsLoop(LoopContract):
    def inv(self, I):
        I.temps("command")
