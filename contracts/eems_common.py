"""Contracts of the helpers shared by the EEMS commands: validate_array_shapes, insure_fuzzy, make_masked."""
import z3

from pyvc import smt
from pyvc.spec import contract, loop, LoopContract
from pyvc.values import Unsupported, Sym, Ref, Raised, PyList, SeqV, ArrState, ClassV, num_term, is_num
from pyvc.smt import INT, FLT


def _list_seq(eng, st, v):
    o = st.get(v) if isinstance(v, Ref) else None
    if not isinstance(o, PyList):
        raise Unsupported("validate_array_shapes: argument is not a list")
    return o


@contract("mpilot/libraries/eems/mixins.py::SameArrayShapeMixin.validate_array_shapes")
class ValidateArrayShapes(object):
    """raises EmptyInputs iff n = 0; raises MixedArrayShapes iff some shape differs from the first;
    otherwise returns None. Pure."""

    def apply(self, eng, st, f, args, kwargs):
        arrays = args[0]
        lineno = kwargs.get("lineno", args[1] if len(args) > 1 else None)
        o = _list_seq(eng, st, arrays)
        exc_empty = eng.lookup_class("EmptyInputs")
        exc_mixed = eng.lookup_class("MixedArrayShapes")
        if o.items is not None:
            items = o.items
            if not items:
                for s2, r in eng.instantiate(exc_empty, st, [lineno], {}):
                    yield s2, (r if isinstance(r, Raised) else Raised(r))
                return
            shapes = [eng.arr_state(st, a).shape for a in items]
            same = z3.And(*[sh == shapes[0] for sh in shapes[1:]]) if len(shapes) > 1 else z3.BoolVal(True)
            for s2, ok in eng.branch(st, same):
                if ok:
                    yield s2, None
                else:
                    bad = Sym("shape", smt.fresh("bad_shape", smt.Shape))
                    s2.assume(z3.Or(*[z3.And(bad.t == sh, sh != shapes[0]) for sh in shapes[1:]]))
                    for s3, r in eng.instantiate(exc_mixed, s2, [Sym("shape", shapes[0]), bad, lineno], {}):
                        yield s3, (r if isinstance(r, Raised) else Raised(r))
            return
        seq = o.seq
        n = seq.n
        sh = lambda s, k: eng.arr_state(s, seq.get(k)).shape
        for s1, empty in eng.branch(st, n == 0):
            if empty:
                for s2, r in eng.instantiate(exc_empty, s1, [lineno], {}):
                    yield s2, (r if isinstance(r, Raised) else Raised(r))
                continue
            # normal: all shapes equal the first
            s_ok = s1.fork()
            s_ok.assume_all_k(lambda k, s_ok=s_ok: z3.Implies(z3.And(k >= 0, k < n), sh(s_ok, k) == sh(s_ok, z3.IntVal(0))))
            s_ok.ghost["shapes_validated"] = True
            yield s_ok, None
            # exceptional: a witness position
            s_bad = s1.fork()
            k1 = s_bad.add_k("k_mixed")
            s_bad.assume(z3.And(k1 >= 1, k1 < n, sh(s_bad, k1) != sh(s_bad, z3.IntVal(0))))
            if eng.feasible(s_bad):
                for s3, r in eng.instantiate(exc_mixed, s_bad, [Sym("shape", sh(s_bad, z3.IntVal(0))), Sym("shape", sh(s_bad, k1)), lineno], {}):
                    yield s3, (r if isinstance(r, Raised) else Raised(r))


def clamp(v, lo, hi):
    # order of the two assignments in insure_fuzzy: first > max, then < min
    t = z3.If(v > hi, hi, v)
    return z3.If(t < lo, lo, t)


@contract("mpilot/utils.py::insure_fuzzy")
class InsureFuzzy(object):
    """modifies arr (in place); returns arr itself; kind, dtype, shape, miss unchanged;
    at every valid cell val' = clamp(val, fuzzy_min, fuzzy_max); payload under missing cells unspecified."""

    def apply(self, eng, st, f, args, kwargs):
        arr, lo, hi = args
        if not (is_num(lo) and is_num(hi)):
            raise Unsupported("insure_fuzzy bounds")
        s = eng.arr_state(st, arr)
        if s.sel is not None:
            raise Unsupported("insure_fuzzy on a selection")
        lo_t, hi_t = num_term(lo), num_term(hi)
        junk = eng.fresh_valfun("clamped_payload")
        miss = s.miss
        new = s.clone(val=lambda c: z3.If(miss(c), junk(c), clamp(s.val(c), lo_t, hi_t)))
        eng.mutate(st, arr, new)
        yield st, arr


@contract("mpilot/utils.py::make_masked")
class MakeMasked(object):
    """returns arr itself when it is a masked array, else a masked view without missing cells. Pure."""

    def apply(self, eng, st, f, args, kwargs):
        (arr,) = args
        s = eng.arr_state(st, arr)
        if s.kind == "MA":
            yield st, arr
        else:
            yield st, st.alloc(ArrState("MA", s.dtype, s.shape, s.val, lambda c: z3.BoolVal(False)))
