"""Sidecar contracts for consbio/mpilot (imported by the prover, never by /repo)."""
