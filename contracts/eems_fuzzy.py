"""Specifications (from the property statements C04/C06/C08) and loop invariants for
mpilot/libraries/eems/fuzzy.py."""
import z3

from pyvc import smt
from pyvc.cmdspec import CommandSpec
from pyvc.spec import loop, LoopContract
from pyvc.smt import INT, FLT
from contracts.eems_basic import SPECS, spec, NaryMixin, _FoldLoop, _SumFold, _AccLoop, WeightedSumLoop, opt
from contracts.eems_common import clamp

F = "mpilot/libraries/eems/fuzzy.py"
LO, HI = z3.RealVal(-1), z3.RealVal(1)


def fz(v):
    return clamp(v, LO, HI)


def sv(s):
    return z3.StringVal(s)


@spec("CvtToFuzzy")
class CvtToFuzzySpec(CommandSpec):
    uses_stats = True

    def _dir(self, x):
        d = x.string("Direction")
        has = x.has("Direction")
        nonempty = z3.And(has, z3.Length(d) > 0)
        invalid = z3.And(nonempty, d != sv("LowToHigh"), d != sv("HighToLow"))
        hl = z3.And(has, d == sv("HighToLow"))
        return invalid, hl

    def _thresholds(self, x):
        N = "InFieldName"
        invalid, hl = self._dir(x)
        vmin, vmax = x.stat(N, "vmin"), x.stat(N, "vmax")
        T = z3.If(x.has("TrueThreshold"), x.num("TrueThreshold"), z3.If(hl, vmin, vmax))
        Fv = z3.If(x.has("FalseThreshold"), x.num("FalseThreshold"), z3.If(hl, vmax, vmin))
        return T, Fv

    def raises(self, x):
        invalid, hl = self._dir(x)
        T, Fv = self._thresholds(x)
        return [("InvalidDirection", invalid), ("InvalidThresholds", z3.And(z3.Not(invalid), T == Fv))]

    def result(self, x):
        N = "InFieldName"
        T, Fv = self._thresholds(x)
        return dict(shape=x.shape(N), dtype=FLT, miss=lambda c: x.miss(N, c), fuzzy=True,
                    value=lambda c: fz((x.view(N, c) - T) * (LO - HI) / (Fv - T) + HI))


@spec("CvtFromFuzzy")
class CvtFromFuzzySpec(CommandSpec):
    def raises(self, x):
        return [("InvalidThresholds", x.num("TrueThreshold") == x.num("FalseThreshold"))]

    def result(self, x):
        N = "InFieldName"
        T, Fv = x.num("TrueThreshold"), x.num("FalseThreshold")
        return dict(shape=x.shape(N), dtype=FLT, miss=lambda c: x.miss(N, c),
                    value=lambda c: (x.view(N, c) - HI) * (Fv - T) / (LO - HI) + T)


@spec("CvtToBinary")
class CvtToBinarySpec(CommandSpec):
    def raises(self, x):
        d = x.string("Direction")
        return [("InvalidDirection", z3.And(d != sv("LowToHigh"), d != sv("HighToLow")))]

    def result(self, x):
        N = "InFieldName"
        d = x.string("Direction")
        low = z3.If(d == sv("LowToHigh"), z3.RealVal(0), z3.RealVal(1))
        high = z3.If(d == sv("LowToHigh"), z3.RealVal(1), z3.RealVal(0))
        thr = x.num("Threshold")
        return dict(shape=x.shape(N), dtype=FLT, miss=lambda c: x.miss(N, c), fuzzy=True,
                    value=lambda c: z3.If(x.view(N, c) < thr, low, high))


@spec("FuzzyNot")
class FuzzyNotSpec(CommandSpec):
    def result(self, x):
        N = "InFieldName"
        return dict(shape=x.shape(N), dtype=FLT, miss=lambda c: x.miss(N, c), fuzzy=True,
                    value=lambda c: fz(-x.view(N, c)))


class FuzzyNary(NaryMixin):
    def raises(self, x):
        return self.nary_raises(x)


@spec("FuzzyOr")
class FuzzyOrSpec(FuzzyNary, CommandSpec):
    def result(self, x):
        L, n = self.LIST, x.n(self.LIST)
        return dict(shape=x.shape(L, z3.IntVal(0)), dtype=FLT, miss=lambda c: x.pmiss(L, n - 1, c), fuzzy=True,
                    value=lambda c: fz(x.pmax(L, n - 1, c)))


@spec("FuzzyAnd")
class FuzzyAndSpec(FuzzyNary, CommandSpec):
    def result(self, x):
        L, n = self.LIST, x.n(self.LIST)
        return dict(shape=x.shape(L, z3.IntVal(0)), dtype=FLT, miss=lambda c: x.pmiss(L, n - 1, c), fuzzy=True,
                    value=lambda c: fz(x.pmin(L, n - 1, c)))


@loop(F + "::FuzzyOr.execute", "reduce", 0)
class FuzzyOrFold(_FoldLoop):
    def dtype(self, x, j):
        return FLT  # every fuzzy input is FLT (fuzzy_wf), so is every partial fold

    def val(self, x, j, c):
        return x.pmax(self.L, j, c)


@loop(F + "::FuzzyAnd.execute", "reduce", 0)
class FuzzyAndFold(_FoldLoop):
    def dtype(self, x, j):
        return FLT

    def val(self, x, j, c):
        return x.pmin(self.L, j, c)


@spec("FuzzyUnion")
class FuzzyUnionSpec(FuzzyNary, CommandSpec):
    def result(self, x):
        L, n = self.LIST, x.n(self.LIST)
        return dict(shape=x.shape(L, z3.IntVal(0)), dtype=FLT, miss=lambda c: x.pmiss(L, n - 1, c), fuzzy=True,
                    value=lambda c: fz(x.psum(L, n - 1, c) / z3.ToReal(n)))


@loop(F + "::FuzzyUnion.execute", "sum", 0)
class FuzzyUnionSum(_SumFold):
    def dtype(self, x, j):
        return FLT


@spec("FuzzyWeightedUnion")
class FuzzyWeightedUnionSpec(CommandSpec):
    def raises(self, x):
        n, nw = x.n("InFieldNames"), x.n("Weights")
        return [("MismatchedWeights", nw != n),
                ("EmptyInputs", z3.And(nw == n, n == 0)),
                ("MixedArrayShapes", ("exists_k", lambda k: z3.And(nw == n, k >= 1, k < n, x.shape("InFieldNames", k) != x.shape("InFieldNames", z3.IntVal(0)))))]

    def result(self, x):
        L, n = "InFieldNames", x.n("InFieldNames")
        sw = x.wsum("Weights").t
        return dict(shape=x.shape(L, z3.IntVal(0)), dtype=FLT, fuzzy=True,
                    miss=lambda c: z3.Or(x.pmiss(L, n - 1, c), sw == 0),
                    value=lambda c: fz(x.pwsum(L, "Weights", n - 1, c) / sw))


@loop(F + "::FuzzyWeightedUnion.execute", "for", 0)
class FuzzyWeightedUnionLoop(WeightedSumLoop):
    def dtype(self, x, j):
        return FLT


# ------------------------------------------------------------------ sort based operators
class _MaskFold(LoopContract):
    """reduce(logical_or, masks[1:], masks[0]): after j steps the accumulator is the union of masks 0..j"""
    L = "InFieldNames"

    def inv(self, I):
        x = I.eng.x
        L = self.L
        from pyvc.smt import BOOLDT
        I.arr("$acc", "ND", BOOLDT, x.shape(L, z3.IntVal(0)), lambda c: z3.BoolVal(False),
              lambda c: z3.If(x.pmiss(L, I.j, c), z3.RealVal(1), z3.RealVal(0)))


@loop(F + "::FuzzySelectedUnion.execute", "reduce", 0)
class SelUnionMaskFold(_MaskFold):
    pass


@loop(F + "::FuzzyXOr.execute", "reduce", 0)
class XOrMaskFold(_MaskFold):
    pass


@spec("FuzzyXOr")
class FuzzyXOrSpec(FuzzyNary, CommandSpec):
    def requires(self, x):
        # with a single input the EEMS formula has no second operand: no claim (DESIGN C06)
        return [x.n(self.LIST) != 1]

    def result(self, x):
        L, n = self.LIST, x.n(self.LIST)

        def value(c):
            t1, t2 = x.srt(L, n - 1, c), x.srt(L, n - 2, c)
            return fz(z3.If(t1 <= LO, LO, t1 - (t1 - t2) * (t2 - LO) / (t1 - LO)))

        return dict(shape=x.shape(L, z3.IntVal(0)), dtype=FLT, miss=lambda c: x.pmiss(L, n - 1, c), fuzzy=True, value=value)


@spec("FuzzySelectedUnion")
class FuzzySelectedUnionSpec(CommandSpec):
    LIST = "InFieldNames"

    def requires(self, x):
        # admissible k: an integer >= 1 (k > n is reported by InvalidNumberToConsider)
        k = x.num("NumberToConsider")
        return [x.num_isint("NumberToConsider"), k >= 1]

    def raises(self, x):
        n = x.n(self.LIST)
        k = x.num("NumberToConsider")
        tf = x.string("TruestOrFalsest")
        mixed = ("exists_k", lambda i: z3.And(i >= 1, i < n, x.shape(self.LIST, i) != x.shape(self.LIST, z3.IntVal(0))))
        nomix = ("exists_k", lambda i: z3.And(i >= 1, i < n, x.shape(self.LIST, i) != x.shape(self.LIST, z3.IntVal(0))))
        return [("EmptyInputs", n == 0),
                ("MixedArrayShapes", mixed),
                ("InvalidNumberToConsider", ("and_not_exists_k", z3.And(n >= 1, z3.ToReal(n) < k), nomix[1])),
                ("InvalidTruestOrFalsest", ("and_not_exists_k", z3.And(n >= 1, z3.ToReal(n) >= k, tf != sv("Truest"), tf != sv("Falsest")), nomix[1]))]

    def result(self, x):
        L, n = self.LIST, x.n(self.LIST)
        k = z3.ToInt(x.num("NumberToConsider"))
        tf = x.string("TruestOrFalsest")

        def value(c):
            top = x.srt_rangesum(L, n - k, k, c) / z3.ToReal(k)
            bot = x.srt_rangesum(L, z3.IntVal(0), k, c) / z3.ToReal(k)
            return fz(z3.If(tf == sv("Truest"), top, bot))

        return dict(shape=x.shape(L, z3.IntVal(0)), dtype=FLT, miss=lambda c: x.pmiss(L, n - 1, c), fuzzy=True, value=value)


# ------------------------------------------------------------------ fuzzy variants of the Normalize family
@spec("CvtToFuzzyZScore")
class CvtToFuzzyZScoreSpec(CommandSpec):
    uses_stats = True

    def result(self, x):
        N = "InFieldName"
        mean, std = x.stat(N, "vmean"), x.stat(N, "vstd")
        tt, ft = opt(x, "TrueThresholdZScore", 1), opt(x, "FalseThresholdZScore", -1)
        x1, x2 = mean + std * tt, mean + std * ft
        return dict(shape=x.shape(N), dtype=FLT, fuzzy=True,
                    miss=lambda c: z3.Or(x.miss(N, c), x2 - x1 == 0),
                    value=lambda c: fz((x.view(N, c) - x1) * (LO - HI) / (x2 - x1) + HI))


@spec("CvtToFuzzyCat")
class CvtToFuzzyCatSpec(CommandSpec):
    RAW, NORMAL, DEFAULT = "RawValues", "FuzzyValues", "DefaultFuzzyValue"

    def raises(self, x):
        return SPECS["NormalizeCat"].raises.__func__(self, x)

    def cat(self, x, j, c):
        return SPECS["NormalizeCat"].cat.__func__(self, x, j, c)

    def result(self, x):
        N = "InFieldName"
        n = x.n(self.RAW)
        return dict(shape=x.shape(N), dtype=FLT, miss=lambda c: x.miss(N, c), fuzzy=True,
                    value=lambda c: fz(z3.If(n == 0, x.num(self.DEFAULT), self.cat(x, n - 1, c))))


@spec("CvtToFuzzyCurve")
class CvtToFuzzyCurveSpec(CommandSpec):
    RAW, NORMAL = "RawValues", "FuzzyValues"

    def sorted(self, x):
        return x.sorted(self.RAW, self.NORMAL)

    def requires(self, x):
        return SPECS["NormalizeCurve"].requires.__func__(self, x)

    def raises(self, x):
        return SPECS["NormalizeCurve"].raises.__func__(self, x)

    def result(self, x):
        N = "InFieldName"
        P, Q, m, dist = self.sorted(x)
        cv, facts = x.curve("nc", P, Q, m, lambda c: x.view(N, c))
        return dict(shape=x.shape(N), dtype=FLT, miss=lambda c: x.miss(N, c), fuzzy=True, value=lambda c: fz(cv(c)))


@spec("CvtToFuzzyCurveZScore")
class CvtToFuzzyCurveZScoreSpec(CommandSpec):
    uses_stats = True
    Z, NORMAL = "ZScoreValues", "FuzzyValues"

    def rawseq(self, x):
        return SPECS["NormalizeCurveZScore"].rawseq.__func__(self, x)

    def sorted(self, x):
        return x.sorted(self.rawseq(x), self.NORMAL)

    def requires(self, x):
        return SPECS["NormalizeCurveZScore"].requires.__func__(self, x)

    def raises(self, x):
        return SPECS["NormalizeCurveZScore"].raises.__func__(self, x)

    def result(self, x):
        N = "InFieldName"
        P, Q, m, dist = self.sorted(x)
        cv, facts = x.curve("ncz", P, Q, m, lambda c: x.view(N, c))
        return dict(shape=x.shape(N), dtype=FLT, miss=lambda c: x.miss(N, c), fuzzy=True, value=lambda c: fz(cv(c)))


@spec("CvtToFuzzyMeanToMid")
class CvtToFuzzyMeanToMidSpec(CommandSpec):
    def admissible(self, case):
        # the mean-to-mid control points need values strictly below and above the (zero-filtered) mean
        inp = case["inputs"]["InFieldName"]
        vals = [v for v, m in zip(inp["data"], inp["mask"]) if not m]
        if case["params"].get("IgnoreZeros"):
            vals = [v for v in vals if v != 0]
        return len(set(vals)) >= 2

    uses_stats = True

    def requires(self, x):
        return [x.n("FuzzyValues") == 5]

    def raises(self, x):
        return [("MixedArrayLengths", None), ("DuplicateRawValues", None)]

    def result(self, x):
        N = "InFieldName"
        return dict(shape=x.shape(N), dtype=FLT, miss=lambda c: x.miss(N, c), fuzzy=True, value=None)
