"""Reference mapping of the EEMS 2.0 command vocabulary onto MPilot commands (specification side of C16).

Taken from the meaning of the EEMS 2.0 operators, not from mpilot/utils.py: e.g. ORNEG ("or for negative numbers") is the
minimum of its inputs, i.e. fuzzy And; DIF is A minus B; WTDUNION is the weighted mean of fuzzy inputs.  None means that
MPilot has no command with that meaning (recorded known finding)."""
REFERENCE = {
    "READ": "EEMSRead",
    "CVTTOFUZZY": "CvtToFuzzy",
    "CVTTOFUZZYCURVE": "CvtToFuzzyCurve",
    "CVTTOFUZZYCAT": "CvtToFuzzyCat",
    "MEANTOMID": "CvtToFuzzyMeanToMid",
    "COPYFIELD": "Copy",
    "NOT": "FuzzyNot",
    "OR": "FuzzyOr",
    "AND": "FuzzyAnd",
    "ORNEG": "FuzzyAnd",
    "XOR": "FuzzyXOr",
    "SUM": "Sum",
    "MULT": "Multiply",
    "DIVIDE": "ADividedByB",
    "MIN": "Minimum",
    "MAX": "Maximum",
    "MEAN": "Mean",
    "UNION": "FuzzyUnion",
    "DIF": "AMinusB",
    "SELECTEDUNION": "FuzzySelectedUnion",
    "WTDUNION": "FuzzyWeightedUnion",
    "WTDMEAN": "WeightedMean",
    "WTDSUM": "WeightedSum",
    "SCORERANGEBENEFIT": None,
    "SCORERANGECOST": None,
}
