"""Concrete side of the prover: concretise counter-models, evaluate specs on concrete inputs (by solving the
ground instance), run the real code (subprocess under /venv/bin/python) and compare."""
import json
import math
import os
import subprocess
import tempfile
from fractions import Fraction

import z3

from . import smt
from .cmdspec import build_inputs, cond_holds
from .decl import ParamDecl
from .engine import Engine
from .ma import RANK
from .smt import INT, FLT
from .values import Unsupported

VENV_PY = os.environ.get("MPILOT_PY", "/venv/bin/python")
HERE = os.path.dirname(os.path.dirname(os.path.abspath(__file__)))
RUNNER = os.path.join(HERE, "runner", "run_command.py")
WORK = os.path.join(HERE, ".work")


def workdir():
    os.makedirs(WORK, exist_ok=True)
    return WORK


# --------------------------------------------------------------------------- numbers
def z3num(v):
    """z3 numeral -> python int/float"""
    v = z3.simplify(v)
    if z3.is_int_value(v):
        return v.as_long()
    if z3.is_rational_value(v):
        f = Fraction(v.numerator_as_long(), v.denominator_as_long())
        return int(f) if f.denominator == 1 else float(f)
    if z3.is_algebraic_value(v):
        return float(v.approx(20).as_fraction())
    raise ValueError("not a numeral: %s" % v)


def as_frac(v):
    v = z3.simplify(v)
    if z3.is_int_value(v):
        return Fraction(v.as_long())
    if z3.is_rational_value(v):
        return Fraction(v.numerator_as_long(), v.denominator_as_long())
    if z3.is_algebraic_value(v):
        return v.approx(30).as_fraction()
    raise ValueError("not a numeral: %s" % v)


def rv(x):
    if isinstance(x, bool):
        return z3.RealVal(1 if x else 0)
    if isinstance(x, int):
        return z3.RealVal(x)
    return z3.RealVal(str(Fraction(x)))


# --------------------------------------------------------------------------- real-code runs
def run_real(cases, repo_root="/repo", timeout=600):
    d = workdir()
    fin = tempfile.NamedTemporaryFile("w", suffix=".in.json", dir=d, delete=False)
    json.dump(cases, fin)
    fin.close()
    fout = fin.name.replace(".in.json", ".out.json")
    try:
        p = subprocess.run([VENV_PY, RUNNER, fin.name, fout, repo_root], capture_output=True, text=True, timeout=timeout)
        if p.returncode != 0 or not os.path.exists(fout):
            raise RuntimeError("runner failed: %s %s" % (p.stdout[-500:], p.stderr[-1500:]))
        return json.load(open(fout))
    finally:
        for f in (fin.name, fout):
            try:
                os.unlink(f)
            except OSError:
                pass


# --------------------------------------------------------------------------- concrete evaluation of a spec
class Expected(object):
    def __init__(self):
        self.exc = None
        self.result = None  # dict(miss=[...], value=[...]|None, dtype, fuzzy, has_value)
        self.admissible = True
        self.note = None


def _shape_terms(case):
    shapes = {}

    def term(shape):
        key = tuple(shape)
        if key not in shapes:
            shapes[key] = z3.Const("SHAPE_%s" % "x".join(map(str, key)), smt.Shape)
        return shapes[key]

    return term, shapes


def expected(repo, ci, spec, case, contracts=None, loops=None):
    """Evaluate the CommandSpec on the concrete case. Returns Expected."""
    if not spec.admissible(case):
        e = Expected()
        e.admissible = False
        e.note = "outside the property's admissible inputs (spec.admissible)"
        return e
    eng = Engine(repo, contracts or {}, loops or {})
    eng.current = repo.find_method(ci, "execute")
    st, x = build_inputs(eng, ci)
    eng.x = x
    N = 1
    for d in case["shape"]:
        N *= d
    cells = [x.c] + [st.add_cell("cc") for _ in range(N - 1)]
    facts = []
    if N > 1:
        facts.append(z3.Distinct(*cells))
    shape_term, shapes = _shape_terms(case)
    base_shape = shape_term(case["shape"])
    maxn = 0
    # ---- bind primitives
    for name, p in x.decl.inputs.items():
        inp = case["inputs"].get(name)
        if name in x.single:
            d = x.single[name]
            facts.append(d["dt"] == (INT if inp["dtype"] == "int" else FLT))
            facts.append(d["sh"] == shape_term(inp.get("shape", case["shape"])))
            if tuple(inp.get("shape", case["shape"])) != tuple(case["shape"]):
                continue
            for i, c in enumerate(cells):
                facts.append(d["M"](c) == bool(inp["mask"][i]))
                facts.append(d["X"](c) == rv(inp["data"][i]))
                facts.append(d["P"](c) == rv(inp["data"][i]))
        elif name in x.fam and "X" in x.fam[name]:
            d = x.fam[name]
            items = inp["items"]
            maxn = max(maxn, len(items))
            facts.append(d["n"] == len(items))
            for k, it in enumerate(items):
                kk = z3.IntVal(k)
                facts.append(d["dt"](kk) == (INT if it["dtype"] == "int" else FLT))
                facts.append(d["sh"](kk) == shape_term(it.get("shape", case["shape"])))
                if tuple(it.get("shape", case["shape"])) != tuple(case["shape"]):
                    continue
                for i, c in enumerate(cells):
                    facts.append(d["M"](kk, c) == bool(it["mask"][i]))
                    facts.append(d["X"](kk, c) == rv(it["data"][i]))
                    facts.append(d["P"](kk, c) == rv(it["data"][i]))
        elif name in x.fam:
            facts.append(x.fam[name]["n"] == len(inp["items"]) if inp else x.fam[name]["n"] == 0)
        elif name in x.numlists:
            vals = case["params"].get(name, [])
            maxn = max(maxn, len(vals))
            d = x.numlists[name]
            facts.append(d["n"] == len(vals))
            for k, v in enumerate(vals):
                facts.append(d["W"](z3.IntVal(k)) == rv(v))
                facts.append(d["WI"](z3.IntVal(k)) == (isinstance(v, int) and not isinstance(v, bool)))
        elif name in x.nums:
            if name in case["params"]:
                v = case["params"][name]
                facts.append(x.nums[name][0] == rv(v))
                facts.append(x.nums[name][1] == (isinstance(v, int) and not isinstance(v, bool)))
        elif name in x.strs and name in case["params"]:
            v = case["params"][name]
            if isinstance(v, str):
                facts.append(x.strs[name] == z3.StringVal(v))
        elif name in x.bools and name in case["params"]:
            facts.append(x.bools[name] == bool(case["params"][name]))
        if name in x.present:
            present = (name in case["params"]) or (name in case["inputs"])
            facts.append(x.present[name] == present)
    for key, sh in shapes.items():
        facts.append(RANK(sh) == len(key))
    if len(shapes) > 1:
        facts.append(z3.Distinct(*shapes.values()))
    # ---- statistics of single inputs (defined by their formulas on the valid view)
    if spec.uses_stats:
        for name, d in x.single.items():
            inp = case["inputs"][name]
            valid = [float(v) for v, m in zip(inp["data"], inp["mask"]) if not m]
            stt = eng.ensure_stats(st, d["state"])
            if not valid:
                e = Expected()
                e.admissible = False
                e.note = "no valid cell: statistics undefined (outside the modelled fragment)"
                return e
            mean = sum(Fraction(v) for v in valid) / len(valid)
            var = sum((Fraction(v) - mean) ** 2 for v in valid) / len(valid)
            facts.append(stt["vmin"] == rv(min(valid)))
            facts.append(stt["vmax"] == rv(max(valid)))
            facts.append(stt["vmean"] == z3.RealVal(str(mean)))
            facts.append(stt["vstd"] == rv(math.sqrt(float(var))))
    for a in st.pc:
        facts.append(a)
    # ---- build the spec terms (this registers the recursive spec functions that are needed)
    try:
        reqs = spec.requires(x)
        clauses = spec.raises(x)
        want = spec.result(x)
    except Unsupported as e:
        ex = Expected()
        ex.admissible = False
        ex.note = "spec not evaluable: %s" % e
        return ex
    for k in range(maxn + 2):
        st.note_k(z3.IntVal(k))
    terms = {}
    if want is not None:
        for i, c in enumerate(cells):
            terms[("miss", i)] = want["miss"](c)
            if want.get("value") is not None:
                terms[("value", i)] = want["value"](c)
        if want.get("dtype") is not None:
            terms[("dtype",)] = want["dtype"]
        terms[("shape",)] = want["shape"] == base_shape
    cond_terms = []
    for (nm, cond) in clauses:
        if cond is None:
            cond_terms.append((nm, None))
        elif isinstance(cond, tuple):
            if cond[0] == "exists_k":
                cond_terms.append((nm, z3.Or(*[cond[1](z3.IntVal(k)) for k in range(maxn + 1)])))
            else:
                cond_terms.append((nm, z3.And(cond[1], z3.Not(z3.Or(*[cond[2](z3.IntVal(k)) for k in range(maxn + 1)])))))
        else:
            cond_terms.append((nm, cond))
    # ---- complete the definitional facts on the finite instance
    for rf in list(x.recfuns.values()):
        for j in range(maxn + 1):
            if rf.with_cell:
                for c in cells:
                    rf.at(z3.IntVal(j), c)
            else:
                rf.at(z3.IntVal(j))
    for (sc, rs) in getattr(eng, "_srt", {}).values():
        for c in cells:
            for k in range(maxn + 1):
                sc.at(z3.IntVal(k), c)
            for lo in range(maxn + 1):
                for m in range(maxn + 1 - lo):
                    rs.at(z3.IntVal(lo), z3.IntVal(m), c)
            # permutation witness is injective on the finite instance
            for a in range(maxn):
                for b in range(a + 1, maxn):
                    facts.append(z3.Implies(z3.And(b < sc.n), sc.perm(z3.IntVal(a), c) != sc.perm(z3.IntVal(b), c)))
    for new in getattr(eng, "_sorted", {}).values():
        SIG, n = new.meta["SIG"], new.n
        for a in range(maxn + 1):
            for b in range(a + 1, maxn + 1):
                facts.append(z3.Implies(b < n, SIG(z3.IntVal(a)) != SIG(z3.IntVal(b))))
    for key, b in getattr(eng, "_distinct_seqs", {}).items():
        seq, pred = b
        els = [seq.get(z3.IntVal(k)) for k in range(maxn + 1)]
        from .values import num_term
        pair = []
        for a in range(maxn + 1):
            for bb in range(a + 1, maxn + 1):
                pair.append(z3.And(bb < seq.n, num_term(els[a]) == num_term(els[bb])))
        facts.append(pred == z3.Not(z3.Or(*pair)) if pair else pred)
    for key, b in getattr(eng, "_numsum_seqs", {}).items():
        seq, sym = b
        from .values import num_term
        tot = z3.RealVal(0)
        for k in range(maxn + 1):
            tot = tot + z3.If(k < seq.n, num_term(seq.get(z3.IntVal(k))), z3.RealVal(0))
        facts.append(sym.t == tot)
    s = z3.Solver()
    s.set("timeout", 60000)
    for f in facts:
        s.add(f)
    for f in st.hyps():
        s.add(f)
    for f in eng.sorted_facts(st, with_perm=True):
        s.add(f)
    e = Expected()
    # admissibility: the spec's own preconditions
    r = s.check()
    if r != z3.sat:
        e.admissible = False
        e.note = "ground instance %s (axioms inconsistent on this input?)" % r
        e.inconsistent = (r == z3.unsat)
        return e
    m = s.model()
    for a in reqs:
        if not z3.is_true(m.eval(a, model_completion=True)):
            e.admissible = False
            e.note = "outside the spec's precondition: %s" % z3.simplify(a)
            return e
    for nm, ct in cond_terms:
        if ct is None:
            e.may_raise = getattr(e, "may_raise", []) + [nm]
            continue
        if z3.is_true(m.eval(ct, model_completion=True)):
            e.exc = nm
            return e
    if want is None:
        e.result = None
        return e
    res = {"miss": [], "value": [] if want.get("value") is not None else None, "fuzzy": bool(want.get("fuzzy")),
           "dtype": None, "shape_ok_term": True}
    for i in range(len(cells)):
        res["miss"].append(z3.is_true(m.eval(terms[("miss", i)], model_completion=True)))
        if res["value"] is not None:
            if res["miss"][-1]:
                res["value"].append(None)
            else:
                res["value"].append(float(as_frac(m.eval(terms[("value", i)], model_completion=True))))
    if ("dtype",) in terms:
        res["dtype"] = "int" if m.eval(terms[("dtype",)], model_completion=True).eq(INT) else "float"
    e.result = res
    return e


# --------------------------------------------------------------------------- comparison
def close(a, b):
    if isinstance(a, str) or isinstance(b, str):
        return False
    return abs(a - b) <= 1e-9 * max(1.0, abs(a), abs(b))


def compare(exp, out, case):
    """returns list of (clause, detail) the real outcome violates."""
    bad = []
    if out.get("outcome") == "harness-error":
        return [("harness-error", out.get("error", "")[-300:])]
    if exp.exc is not None:
        if out["outcome"] != "raise" or out["exc_class"] != exp.exc:
            bad.append(("raises", "expected %s, real outcome: %s" % (exp.exc, out.get("exc_class", "returned normally"))))
        return bad
    if out["outcome"] == "raise":
        if out["exc_class"] in getattr(exp, "may_raise", []):
            return bad
        bad.append(("raises_only", "unexpected %s: %s" % (out["exc_class"], out.get("exc_msg", "")[:120])))
        return bad
    # frame
    for name, before in out["inputs_before"].items():
        for k, (b, a) in enumerate(zip(before, out["inputs_after"][name])):
            if b.get("kind") != a.get("kind") or b.get("dtype") != a.get("dtype") or b.get("shape") != a.get("shape") or b.get("mask") != a.get("mask"):
                bad.append(("frame", "%s[%d] changed kind/dtype/shape/mask" % (name, k)))
                continue
            for i, (x0, x1, mk) in enumerate(zip(b["data"], a["data"], b["mask"])):
                if not mk and not (x0 == x1 or close(x0, x1)):
                    bad.append(("frame", "%s[%d] cell %d changed %r -> %r" % (name, k, i, x0, x1)))
                    break
    for name, reads in out.get("reads", {}).items():
        p = None
        if any(r == 0 for r in reads) and case.get("must_read", {}).get(name, True):
            bad.append(("touches", "%s: a referenced command's result was never read" % name))
    if exp.result is None:
        return bad
    r = out["result"]
    if r.get("kind") != "MA":
        bad.append(("kind", "result is %s, not a masked array" % r.get("kind")))
    if r.get("kind") in ("MA", "ND"):
        if list(r["shape"]) != list(case["shape"]):
            bad.append(("shape", "result shape %s, input shape %s" % (r["shape"], case["shape"])))
            return bad
        if exp.result["dtype"] is not None and r["dtype"] != exp.result["dtype"]:
            bad.append(("dtype", "result dtype %s, expected %s" % (r["dtype"], exp.result["dtype"])))
        for i, (mr, me) in enumerate(zip(r["mask"], exp.result["miss"])):
            if bool(mr) != bool(me):
                bad.append(("mask", "cell %d: result %s, expected %s" % (i, "missing" if mr else "present", "missing" if me else "present")))
                break
        if exp.result["value"] is not None:
            for i, (v, ev, me, mr) in enumerate(zip(r["data"], exp.result["value"], exp.result["miss"], r["mask"])):
                if not me and not mr and not close(v, ev):
                    bad.append(("value", "cell %d: result %r, expected %r" % (i, v, ev)))
                    break
        if exp.result["fuzzy"]:
            for i, (v, mr) in enumerate(zip(r["data"], r["mask"])):
                if not mr and (isinstance(v, str) or v < -1 - 1e-12 or v > 1 + 1e-12):
                    bad.append(("fuzzy_range", "cell %d: %r outside [-1, 1]" % (i, v)))
                    break
    return bad


# --------------------------------------------------------------------------- counter-model -> concrete case
def concretize(x, st, model, ci, maxn=4):
    """Turn a z3 counter-model of a command VC into a concrete case (best effort; rounding for INT arrays)."""
    cells = list(st.cells)
    # distinct cells only
    seen, ucells = [], []
    for c in cells:
        v = model.eval(c, model_completion=True)
        if all(not v.eq(w) for w in seen):
            seen.append(v)
            ucells.append(c)
    N = len(ucells)

    def num(t, as_int=False):
        v = z3num(model.eval(t, model_completion=True))
        if as_int:
            return int(round(v))
        return float(v) if not isinstance(v, int) else float(v)

    def shape_of(term, base):
        r = model.eval(RANK(term), model_completion=True)
        r = r.as_long() if z3.is_int_value(r) else 1
        r = min(max(r, 1), 3)
        return [1] * (r - 1) + [N]

    case = {"module": ci.module.dotted, "class": ci.name, "inputs": {}, "params": {}, "shape": None}
    base_shape_val = None
    for name, p in x.decl.inputs.items():
        present = True
        if name in x.present:
            present = z3.is_true(model.eval(x.present[name], model_completion=True))
        if name in x.single:
            d = x.single[name]
            isint = model.eval(d["dt"], model_completion=True).eq(INT)
            mask = [z3.is_true(model.eval(d["M"](c), model_completion=True)) for c in ucells]
            data = [num(z3.If(d["M"](c), d["P"](c), d["X"](c)), isint) for c in ucells]
            case["inputs"][name] = {"kind": "single", "dtype": "int" if isint else "float", "data": data, "mask": mask,
                                    "fuzzy": p.is_fuzzy is True}
            if case["shape"] is None:
                case["shape"] = shape_of(d["sh"], None)
                base_shape_val = model.eval(d["sh"], model_completion=True)
        elif name in x.fam and "X" in x.fam[name]:
            d = x.fam[name]
            n = model.eval(d["n"], model_completion=True)
            n = min(max(n.as_long() if z3.is_int_value(n) else 0, 0), maxn)
            items = []
            for k in range(n):
                kk = z3.IntVal(k)
                isint = model.eval(d["dt"](kk), model_completion=True).eq(INT)
                shv = model.eval(d["sh"](kk), model_completion=True)
                if case["shape"] is None:
                    case["shape"] = shape_of(d["sh"](kk), None)
                    base_shape_val = shv
                it = {"dtype": "int" if isint else "float",
                      "mask": [z3.is_true(model.eval(d["M"](kk, c), model_completion=True)) for c in ucells],
                      "data": [num(z3.If(d["M"](kk, c), d["P"](kk, c), d["X"](kk, c)), isint) for c in ucells],
                      "fuzzy": p.value_type.is_fuzzy is True}
                if base_shape_val is not None and not shv.eq(base_shape_val):
                    it["shape"] = [N + 1]
                    it["mask"] = it["mask"] + [False]
                    it["data"] = it["data"] + [0]
                items.append(it)
            case["inputs"][name] = {"kind": "list", "items": items}
        elif name in x.fam:
            case["inputs"][name] = {"kind": "list", "items": []}
        elif name in x.numlists:
            d = x.numlists[name]
            n = model.eval(d["n"], model_completion=True)
            n = min(max(n.as_long() if z3.is_int_value(n) else 0, 0), maxn + 2)
            vals = []
            for k in range(n):
                ii = z3.is_true(model.eval(d["WI"](z3.IntVal(k)), model_completion=True))
                v = num(d["W"](z3.IntVal(k)))
                vals.append(int(round(v)) if ii else float(v))
            case["params"][name] = vals
        elif not present:
            continue
        elif name in x.nums:
            ii = z3.is_true(model.eval(x.nums[name][1], model_completion=True))
            v = num(x.nums[name][0])
            case["params"][name] = int(round(v)) if ii else float(v)
        elif name in x.strs:
            t = x.strs[name]
            if t.sort() == z3.StringSort():
                sv = model.eval(t, model_completion=True)
                case["params"][name] = sv.as_string() if z3.is_string_value(sv) else ""
        elif name in x.bools:
            case["params"][name] = z3.is_true(model.eval(x.bools[name], model_completion=True))
    if case["shape"] is None:
        case["shape"] = [N]
    return case
