"""Loads the sidecar contracts and wires command specs to the extracted classes."""
import importlib

from . import spec as S
from .cmdspec import SpecContract

EEMS_FILES = ("mpilot/libraries/eems/basic.py", "mpilot/libraries/eems/fuzzy.py")
MODULAR = ("NormalizeZScore", "NormalizeCat", "NormalizeCurve", "NormalizeMeanToMid", "NormalizeCurveZScore")


def load(repo):
    for m in ("contracts.eems_common", "contracts.eems_basic", "contracts.eems_fuzzy"):
        importlib.import_module(m)
    from contracts.eems_basic import SPECS

    classes = {}
    for f in EEMS_FILES:
        if f in repo.modules:
            classes.update(repo.modules[f].classes)
    for name in MODULAR:
        if name in SPECS and name in classes:
            ci = classes[name]
            S.CONTRACTS["%s::%s.execute" % (ci.module.relpath, name)] = SpecContract(ci, SPECS[name])
    return SPECS, classes
