"""C01 / C14 (and the execution half of C12, C13): heap-level contracts of Command.run / result / execute /
validate_params and Program.run, with ghost execution counters and finishing timestamps (DESIGN section 6).

Heap fields of Command objects live in z3 arrays (state.heap); invariants are genuinely quantified over all commands."""
import ast

import z3

from . import smt, spec as S
from .dyn import Val, dyn, IS_COMMAND, IS_ARGUMENT, IS_PARAM, FLD, DKEYS, DGET, hashable
from .state import State
from .values import Unsupported, Sym, Ref, PyList, SeqV, PyDict, Bag, Obj, ClassV, Raised, ExcSym, FuncV, BuiltinV

CMD = "mpilot/commands.py"
PRG = "mpilot/program.py"
HEAP_FIELDS = ("is_finished", "_result", "is_running")
I_ = z3.IntSort()
REFS = z3.Function("refs", I_, I_, z3.BoolSort())  # refs(c, d): d occurs in the cleaned arguments of c
CMDCOUNT = z3.Function("commands_count", Val, I_)
CMDAT = z3.Function("commands_at", Val, I_, I_)
from .dyn import DHAS_ as DHAS
CLEANED = z3.Function("cleaned_params", I_, Val)


def truthy(eng, v):
    return eng.dyn_truthy(v)


class Heap(object):
    """snapshot of the symbolic heap: field arrays + ghost cnt / ts / clock"""

    def __init__(self, d):
        self.d = dict(d)

    @staticmethod
    def fresh(tag):
        d = {f: smt.fresh("H_%s_%s" % (tag, f), z3.ArraySort(I_, Val)) for f in HEAP_FIELDS}
        d["$cnt"] = smt.fresh("H_%s_cnt" % tag, z3.ArraySort(I_, I_))
        d["$ts"] = smt.fresh("H_%s_ts" % tag, z3.ArraySort(I_, I_))
        d["$clock"] = smt.fresh("H_%s_clock" % tag, I_)
        return Heap(d)

    @staticmethod
    def of(st):
        return Heap(st.heap)

    def install(self, st):
        st.heap = dict(self.d)

    def fin(self, eng, c):
        return truthy(eng, self.d["is_finished"][c])

    def running(self, eng, c):
        return truthy(eng, self.d["is_running"][c])

    def res(self, c):
        return self.d["_result"][c]

    def cnt(self, c):
        return self.d["$cnt"][c]

    def ts(self, c):
        return self.d["$ts"][c]

    @property
    def clock(self):
        return self.d["$clock"]

    def same_as(self, other):
        return z3.And(*[self.d[k] == other.d[k] for k in self.d])


def Inv(eng, h):
    c, d = z3.Ints("inv_c inv_d")
    return z3.And(
        z3.ForAll([c], z3.Implies(IS_COMMAND(c), z3.And(
            z3.Or(Val.is_B(h.d["is_finished"][c])), z3.Or(Val.is_B(h.d["is_running"][c])),
            z3.Implies(z3.Not(h.running(eng, c)), z3.And(h.fin(eng, c) == (h.cnt(c) == 1), z3.Not(h.fin(eng, c)) == (h.cnt(c) == 0))),
            z3.Implies(h.running(eng, c), z3.And(z3.Not(h.fin(eng, c)), h.cnt(c) >= 0, h.cnt(c) <= 1)),
            z3.Implies(h.fin(eng, c), h.ts(c) < h.clock)))),
        z3.ForAll([c, d], z3.Implies(z3.And(IS_COMMAND(c), h.fin(eng, c), REFS(c, d)),
                                     z3.And(IS_COMMAND(d), h.fin(eng, d), h.ts(d) < h.ts(c)))))


def Mono(eng, h, h2):
    c = z3.Int("mono_c")
    return z3.And(
        h2.clock >= h.clock,
        z3.ForAll([c], z3.Implies(IS_COMMAND(c), z3.And(
            z3.Implies(h.fin(eng, c), z3.And(h2.fin(eng, c), h2.res(c) == h.res(c), h2.cnt(c) == h.cnt(c), h2.ts(c) == h.ts(c))),
            h2.cnt(c) >= h.cnt(c),
            # a command that is running cannot be executed by nested calls (re-entry raises): its count stands still
            z3.Implies(h.running(eng, c), h2.cnt(c) == h.cnt(c)),
            h2.running(eng, c) == h.running(eng, c)))))


CLASS_INV_NOTE = ("class invariants of Command objects (established by CommandMeta.__new__, Command.__init__ and Program.add_command): "
                  "`arguments` is a list of Argument objects, `inputs` is a dict whose values are Parameter objects, `argument_lines` is "
                  "a dict, `result_name` is a string; the `name` of an Argument is a string")


def class_invariants():
    c, i = z3.Ints("ci_c ci_i")
    k = z3.Const("ci_k", Val)
    args = Val.items(FLD("arguments")(c))
    inputs = Val.did(FLD("inputs")(c))
    return [
        z3.ForAll([c], z3.Implies(IS_COMMAND(c), z3.And(Val.is_L(FLD("arguments")(c)), Val.is_D(FLD("inputs")(c)),
                                                       Val.is_D(FLD("argument_lines")(c)), Val.is_S(FLD("result_name")(c))))),
        z3.ForAll([c, k], z3.Implies(z3.And(IS_COMMAND(c), DHAS(inputs, k)),
                                     z3.And(Val.is_O(DGET(inputs, k)), IS_PARAM(Val.ref(DGET(inputs, k)))))),
        z3.ForAll([c, i], z3.Implies(z3.And(IS_COMMAND(c), i >= 0, i < z3.Length(args)),
                                     z3.And(Val.is_O(args[i]), IS_ARGUMENT(Val.ref(args[i]))))),
        z3.ForAll([c], z3.Implies(IS_ARGUMENT(c), Val.is_S(FLD("name")(c)))),
    ]


# --------------------------------------------------------------------------- engine hooks (installed on DynMixin)
def install_hooks():
    from .dyn import DynMixin

    def heap_read(self, st, ref, name):
        if name not in st.heap:
            raise Unsupported("heap field %s not initialised" % name)
        return dyn(st.heap[name][ref])

    def obj_field(self, st, t, name, _orig=DynMixin.obj_field):
        if getattr(self, "heap_mode", False):
            ref = Val.ref(t)
            if name in HEAP_FIELDS:
                yield st, heap_read(self, st, ref, name)
                return
            cmd_methods = ("run", "execute", "validate_params", "result", "get_argument_value", "metadata")
            if name in cmd_methods and self.entails(st, IS_COMMAND(ref)):
                ci = self.repo.modules[CMD].classes["Command"]
                fi = self.repo.find_method(ci, name)
                if fi is not None:
                    f = FuncV(fi, self_val=dyn(t), cls=ci)
                    if "property" in fi.decorators():
                        for r in self.call_func(st, f, [], {}):
                            yield r
                    else:
                        yield st, f
                    return
        for r in _orig(self, st, t, name):
            yield r

    def dyn_setattr(self, st, o, name, v, _orig=DynMixin.dyn_setattr):
        if getattr(self, "heap_mode", False) and name in HEAP_FIELDS and self.entails(st, z3.And(Val.is_O(o.t), IS_COMMAND(Val.ref(o.t)))):
            ref = Val.ref(o.t)
            tv = self.to_dyn(st, v)
            st.heap[name] = z3.Store(st.heap[name], ref, tv)
            if name == "is_finished" and v is True:
                # ghost: the finishing timestamp
                st.heap["$ts"] = z3.Store(st.heap["$ts"], ref, st.heap["$clock"])
                st.heap["$clock"] = st.heap["$clock"] + 1
            st.log.append(("heap-write", name))
            yield st, None
            return
        for r in _orig(self, st, o, name, v):
            yield r

    def symvalues_seq(self, st, o):
        owner = o.fields["owner"]
        n = CMDCOUNT(owner)
        st.assume(n >= 0)
        st.assume_all_k(lambda k: z3.Implies(z3.And(k >= 0, k < n), IS_COMMAND(CMDAT(owner, k))))
        return SeqV(n, lambda k: dyn(Val.O(CMDAT(owner, k))), tag="commands")

    def bi_contains(self, st, args, kw):
        container, item = args
        if isinstance(container, Sym) and container.kind == "dyn":
            t = container.t
            k = self.to_dyn(st, item)
            if self.entails(st, Val.is_D(t)):
                for s, h in self.branch(st, hashable(k)):
                    if h:
                        yield s, DHAS(Val.did(t), k)
                    else:
                        yield self.raise_(s, "TypeError", "unhashable type")
                return
        if isinstance(container, Ref) and isinstance(st.get(container), Bag):
            yield st, smt.fresh("bag_contains", z3.BoolSort())
            return
        if isinstance(container, Ref) and isinstance(st.get(container), PyList) and st.get(container).seq is not None \
                and "keys_of" in st.get(container).seq.meta:
            # membership in the list of a dict's keys
            yield st, DHAS(st.get(container).seq.meta["keys_of"], self.to_dyn(st, item))
            return
        raise Unsupported("containment in %r" % (container,))

    def dyn_getitem(self, st, o, idx):
        t = o.t
        if self.entails(st, Val.is_D(t)):
            k = self.to_dyn(st, idx)
            for s, h in self.branch(st, hashable(k)):
                if not h:
                    yield self.raise_(s, "TypeError", "unhashable type")
                    continue
                for s2, has in self.branch(s, DHAS(Val.did(t), k)):
                    if has:
                        v = DGET(Val.did(t), k)
                        if getattr(self, "heap_mode", False):
                            s2.assume(z3.And(Val.is_O(v), IS_PARAM(Val.ref(v))))  # class invariant: inputs maps names to Parameters
                        yield s2, dyn(v)
                    else:
                        yield self.raise_(s2, "KeyError", "missing key")
            return
        raise Unsupported("subscript of a dynamic value")

    def isinstance_(self, st, v, cls, _orig=DynMixin.__mro__[1].isinstance_ if False else None):
        raise NotImplementedError

    DynMixin.obj_field = obj_field
    DynMixin.dyn_setattr = dyn_setattr
    DynMixin.symvalues_seq = symvalues_seq
    DynMixin.bi_contains = bi_contains
    DynMixin.dyn_getitem = dyn_getitem


install_hooks()


# --------------------------------------------------------------------------- contracts (what call sites assume)
def _self_ref(f, args):
    sv = f.self_val
    if isinstance(sv, Sym) and sv.kind == "dyn":
        return Val.ref(sv.t)
    raise Unsupported("method call on a non-dynamic receiver")


def _mpilot_exc(base="MPilotError"):
    return ExcSym(base)


class RunContract(object):
    """Command.run(): see DESIGN C01/C14.  requires Inv.  finished -> no effect;  running & unfinished -> raises
    RecursiveModelStructure, no effect;  otherwise returns with Inv', Mono, fin'(self)  or raises an MPilotError with Inv', Mono."""

    returns_result = False

    def apply(self, eng, st, f, args, kwargs):
        c = _self_ref(f, args)
        h = Heap.of(st)
        st.log.append(("run-called", c))
        eng.oblige(st, "%s->%s/requires:Inv" % (eng.current.key, self.key), Inv(eng, h), kind="callsite-requires", meta={"clause": "callsite"})
        for s1, fin in eng.branch(st, h.fin(eng, c)):
            if fin:
                yield s1, (dyn(h.res(c)) if self.returns_result else None)
                continue
            for s2, run in eng.branch(s1, h.running(eng, c)):
                if run:
                    exc = s2.alloc(Obj(eng.lookup_class("RecursiveModelStructure"), {"lineno": dyn(FLD("lineno")(c))}))
                    yield s2, Raised(exc)
                    continue
                # executes
                for outcome in ("return", "raise"):
                    s3 = s2.fork()
                    h2 = Heap.fresh("run")
                    h2.install(s3)
                    s3.assume(z3.And(Inv(eng, h2), Mono(eng, h, h2)))
                    if outcome == "return":
                        s3.assume(h2.fin(eng, c))
                        if eng.feasible(s3):
                            yield s3, (dyn(h2.res(c)) if self.returns_result else None)
                    else:
                        if eng.feasible(s3):
                            yield s3, Raised(_mpilot_exc())


class ResultContract(RunContract):
    """Command.result: as run(), then returns the memoised result by reference."""
    returns_result = True


class ExecuteContract(object):
    """Plugin contract of Command.execute (assumed for plugins, proved for the built-ins through touches-all-refs and
    the purity of everything but `.result`): requires Inv, not fin(self), running(self); ensures Inv', Mono and every
    referenced command finished; may raise any Exception with Inv', Mono.  Ghost: cnt(self) += 1 on normal return."""

    def apply(self, eng, st, f, args, kwargs):
        c = _self_ref(f, args)
        h = Heap.of(st)
        pre = z3.And(Inv(eng, h), z3.Not(h.fin(eng, c)), h.running(eng, c))
        eng.oblige(st, "%s->Command.execute/requires:Inv,unfinished,running" % eng.current.key, pre, kind="callsite-requires", meta={"clause": "callsite"})
        d = z3.Int("ex_d")
        for outcome in ("return", "raise"):
            s3 = st.fork()
            h2 = Heap.fresh("exec")
            s3.assume(z3.And(Inv(eng, h2), Mono(eng, h, h2)))
            if outcome == "return":
                s3.assume(z3.ForAll([d], z3.Implies(REFS(c, d), z3.And(IS_COMMAND(d), h2.fin(eng, d)))))
                # ghost: one more completed execution of self
                h3 = Heap(h2.d)
                h3.d["$cnt"] = z3.Store(h2.d["$cnt"], c, h2.cnt(c) + 1)
                h3.install(s3)
                s3.log.append(("executed", c))
                if eng.feasible(s3):
                    yield s3, dyn(smt.fresh("execute_result", Val))
            else:
                h2.install(s3)
                if eng.feasible(s3):
                    e = ExcSym("Exception")
                    yield s3, Raised(e)


class ValidateParamsContract(object):
    """Command.validate_params: no heap effect; returns the cleaned map or raises a ProgramError of the validation family."""

    def apply(self, eng, st, f, args, kwargs):
        c = _self_ref(f, args)
        s1 = st.fork()
        yield s1, dyn(CLEANED(c))
        s2 = st.fork()
        yield s2, Raised(ExcSym("ProgramError"))


class FlattenContract(object):
    """utils.flatten(li): the leaves of a nested list (a generator; A-GEN). Pure. Content untracked here."""

    def apply(self, eng, st, f, args, kwargs):
        yield st, st.alloc(Bag("flatten"))


def register():
    for key, c in ((CMD + "::Command.run", RunContract()), (CMD + "::Command.result", ResultContract()),
                   (CMD + "::Command.execute", ExecuteContract()), (CMD + "::Command.validate_params", ValidateParamsContract()),
                   ("mpilot/utils.py::flatten", FlattenContract())):
        c.key = key
        S.CONTRACTS[key] = c


register()


# --------------------------------------------------------------------------- loop contracts of Program.run
def assigned_names(node):
    """locals a loop body may rebind or mutate (assignment, subscript/attribute store, method call on the name)"""
    out = set()
    for n in ast.walk(node):
        if isinstance(n, ast.Name) and isinstance(n.ctx, (ast.Store, ast.Del)):
            out.add(n.id)
        elif isinstance(n, (ast.Subscript, ast.Attribute)) and isinstance(n.ctx, (ast.Store, ast.Del)) and isinstance(n.value, ast.Name):
            out.add(n.value.id)
        elif isinstance(n, ast.Call) and isinstance(n.func, ast.Attribute) and isinstance(n.func.value, ast.Name) \
                and n.func.attr in ("append", "add", "extend", "update", "pop", "remove", "insert", "clear", "setdefault", "sort"):
            out.add(n.func.value.id)
        elif isinstance(n, ast.AugAssign) and isinstance(n.target, ast.Name):
            out.add(n.target.id)
    out.discard("self")
    return out


class FrameLoop(S.LoopContract):
    """Invariant: the heap is exactly as at loop entry; every local the body assigns holds an unconstrained value."""

    def __init__(self, locals_):
        self.locals = locals_

    def inv(self, I):
        eng, st = I.eng, I.st
        h0, h = Heap.of(I.pre), Heap.of(st)
        I.fact("heap-unchanged", h.same_as(h0))
        for n in self.locals:
            I.covered.add(n)
            if I.mode == "abstract":
                cur = st.env.get(n)
                if isinstance(cur, Ref) and isinstance(st.get(cur), (PyList, PyDict, Bag)):
                    st.env[n] = st.alloc(Bag(n))
                elif n in st.env:
                    st.env[n] = dyn(smt.fresh("local_" + n, Val))
        if I.mode == "abstract":
            Heap.of(I.pre).install(st)


class PrepassArgLoop(FrameLoop):
    """the argument loop of Program.run's pre-pass: FrameLoop, and every argument whose name is a declared input is cleaned
    by that input's parameter, with the program and the argument's own line (C12: rejection before any execution; C11)"""

    def __init__(self, locals_, cmd_var="command", arg_var="argument"):
        FrameLoop.__init__(self, locals_)
        self.cmd_var, self.arg_var = cmd_var, arg_var  # bound by role from the loop header `for <arg> in <cmd>.arguments`

    def check(self, eng, pre, st, j, seq, label):
        FrameLoop.check(self, eng, pre, st, j, seq, label)
        cmd, arg = st.env.get(self.cmd_var), st.env.get(self.arg_var)
        if not (isinstance(cmd, Sym) and isinstance(arg, Sym)):
            raise Unsupported("pre-pass loop variables %s / %s are not bound to a command and an argument" % (self.cmd_var, self.arg_var))
        c, a = Val.ref(cmd.t), Val.ref(arg.t)
        from .dyn import DHAS_, DGET
        did = Val.did(FLD("inputs")(c))
        declared = DHAS_(did, FLD("name")(a))
        evs = [ev for ev in st.log[len(pre.log):] if ev[0] == "param-clean"]
        m = {"clause": "prepass"}
        hits = [z3.And(ev[1] == DGET(did, FLD("name")(a)), ev[2] == FLD("value")(a)) for ev in evs]
        eng.oblige(st, label + "/every declared argument is cleaned in the pre-pass", z3.Implies(declared, z3.Or(*hits) if hits else z3.BoolVal(False)),
                   kind="loop", meta=m, assume_after=False)
        lines = [z3.And(h, z3.BoolVal(False) if ev[4] is None else eng.to_dyn(st, ev[4]) == FLD("lineno")(a)) for h, ev in zip(hits, evs)]
        eng.oblige(st, label + "/with the argument's own line", z3.Implies(declared, z3.Or(*lines) if lines else z3.BoolVal(False)), kind="loop",
                   meta={"clause": "lineno"}, assume_after=False)
        progs = [z3.And(h, z3.BoolVal(ev[3] is st.env.get("self") or (isinstance(ev[3], Ref) and ev[3] == st.env.get("self")))) for h, ev in zip(hits, evs)]
        eng.oblige(st, label + "/against this program", z3.Implies(declared, z3.Or(*progs) if progs else z3.BoolVal(False)), kind="loop", meta=m,
                   assume_after=False)


class LeafLoop(S.LoopContract):
    """Inv and Mono since loop entry (commands run, nothing else changes)."""

    def __init__(self, var="command"):
        self.var = var  # the loop variable, taken from the loop header

    def inv(self, I):
        eng, st = I.eng, I.st
        h0 = Heap.of(I.pre)
        for n in (self.var,):
            I.covered.add(n)
            if I.mode == "abstract" and n in st.env:
                st.env[n] = dyn(smt.fresh("local_" + n, Val))
        if I.mode == "abstract":
            h = Heap.fresh("leafloop")
            h.install(st)
            st.assume(z3.And(Inv(eng, h), Mono(eng, h0, h)))
        else:
            h = Heap.of(st)
            I.fact("Inv", Inv(eng, h))
            I.fact("Mono", Mono(eng, h0, h))


class AllLoop(S.LoopContract):
    """final loop: Inv, Mono since loop entry, and the first j commands are finished."""

    def __init__(self, var="command"):
        self.var = var

    def inv(self, I):
        eng, st = I.eng, I.st
        h0 = Heap.of(I.pre)
        owner = eng.hprog_term
        j = I.j
        I.covered.add(self.var)
        if I.mode == "abstract":
            if self.var in st.env:
                st.env[self.var] = dyn(smt.fresh("local_command", Val))
            h = Heap.fresh("allloop")
            h.install(st)
            st.assume(z3.And(Inv(eng, h), Mono(eng, h0, h)))
            st.assume_all_k(lambda k: z3.Implies(z3.And(k >= 0, k < j), h.fin(eng, CMDAT(owner, k))))
        else:
            h = Heap.of(st)
            I.fact("Inv", Inv(eng, h))
            I.fact("Mono", Mono(eng, h0, h))
            I.forall_k("first-j-finished", lambda k: z3.Implies(z3.And(k >= 0, k < j), h.fin(eng, CMDAT(owner, k))))


def register_loops(repo):
    fi = repo.func(PRG + "::Program.run")
    loops = [n for n in _ordered(fi.node) if isinstance(n, (ast.For, ast.While))]
    # identify loops by role, not by position: the ones that call `.run()` are the execution loops
    run_loops = [i for i, n in enumerate(loops) if any(isinstance(x, ast.Call) and isinstance(x.func, ast.Attribute) and x.func.attr == "run"
                                                       for x in ast.walk(n))]
    for i, n in enumerate(loops):
        key = (fi.key, "for", i)
        if i in run_loops:
            var = n.target.id if isinstance(n, ast.For) and isinstance(n.target, ast.Name) else "command"
            if isinstance(n.iter, ast.GeneratorExp):
                S.LOOPS[key] = LeafLoop(var)
            else:
                S.LOOPS[key] = AllLoop(var)
        elif isinstance(n, ast.For) and isinstance(n.iter, ast.Attribute) and n.iter.attr == "arguments" and run_loops and i < min(run_loops):
            if not (isinstance(n.target, ast.Name) and isinstance(n.iter.value, ast.Name)):
                raise Unsupported("pre-pass argument loop header is not `for <name> in <name>.arguments`")
            S.LOOPS[key] = PrepassArgLoop(sorted(assigned_names(n)), cmd_var=n.iter.value.id, arg_var=n.target.id)
        else:
            S.LOOPS[key] = FrameLoop(sorted(assigned_names(n)))
    return {"loops": len(loops), "run_loops": run_loops}


def _ordered(root):
    out = []

    def rec(n):
        out.append(n)
        for c in ast.iter_child_nodes(n):
            if isinstance(c, ast.FunctionDef) and c is not root:
                continue
            rec(c)

    rec(root)
    return out


# --------------------------------------------------------------------------- verification of the bodies
def _base_state(eng):
    smt.QUANT["on"] = True
    st = State()
    st.add_cell("c")
    st.kterms.append(z3.IntVal(0))
    h0 = Heap.fresh("pre")
    h0.install(st)
    for f in class_invariants():
        st.assume(f)
    st.assume(Inv(eng, h0))
    return st, h0


def _exc_is(eng, st, exc, name):
    """python bool / z3 Bool: the raised exception is an instance of class `name`"""
    if isinstance(exc, ExcSym):
        m = eng.exc_matches(st, exc, eng.lookup_class(name))
        return m
    return eng.class_is_subclass(st.get(exc).cls, name)


def _b(x):
    return z3.BoolVal(x) if isinstance(x, bool) else x


def verify_command_run(eng, which="run"):
    repo = eng.repo
    key = CMD + "::Command." + which
    fi = repo.func(key)
    eng.current = fi
    eng.heap_mode = True
    st, h0 = _base_state(eng)
    c = smt.fresh("self_cmd", I_)
    st.assume(IS_COMMAND(c))
    selfv = dyn(Val.O(c))
    label = key
    saved = S.CONTRACTS.pop(key, None)  # the body is checked against its contract, not through it
    eng.contracts = {k: v for k, v in S.CONTRACTS.items()}
    npaths = 0
    try:
        for s1, out in eng.run_function(fi, st, {"self": selfv}, cls=fi.cls):
            npaths += 1
            h = Heap.of(s1)
            fin0, run0 = h0.fin(eng, c), h0.running(eng, c)
            m = lambda cl: {"clause": cl}
            if out[0] == "return":
                eng.oblige(s1, label + "/finished=>no-effect", z3.Implies(fin0, h.same_as(h0)), kind="ensures", meta=m("memo"), assume_after=False)
                eng.oblige(s1, label + "/re-entered-while-running=>does-not-return", z3.Not(z3.And(z3.Not(fin0), run0)), kind="ensures",
                           meta=m("reentrancy"), assume_after=False)
                eng.oblige(s1, label + "/returns=>Inv", Inv(eng, h), kind="ensures", meta=m("inv"), assume_after=False)
                eng.oblige(s1, label + "/returns=>Mono", Mono(eng, h0, h), kind="ensures", meta=m("mono"), assume_after=False)
                eng.oblige(s1, label + "/returns=>finished", h.fin(eng, c), kind="ensures", meta=m("finished"), assume_after=False)
                eng.oblige(s1, label + "/returns=>executed-at-most-once-here", z3.And(h.cnt(c) == 1, z3.Implies(z3.Not(fin0), h0.cnt(c) == 0)),
                           kind="ensures", meta=m("once"), assume_after=False)
                if which == "result":
                    r = out[1]
                    ok = isinstance(r, Sym) and r.kind == "dyn"
                    eng.oblige(s1, label + "/returns-the-memo-by-reference", (r.t == h.res(c)) if ok else z3.BoolVal(False), kind="ensures",
                               meta=m("memo"), assume_after=False)
            else:
                exc = out[1]
                is_rms = _b(_exc_is(eng, s1, exc, "RecursiveModelStructure"))
                is_mp = _b(_exc_is(eng, s1, exc, "MPilotError"))
                eng.oblige(s1, label + "/raises_only(MPilotError)", is_mp, kind="raises", meta=m("raises_only"), assume_after=False)
                eng.oblige(s1, label + "/re-entered-while-running=>RecursiveModelStructure,no-effect",
                           z3.Implies(z3.And(z3.Not(fin0), run0), z3.And(is_rms, h.same_as(h0))), kind="raises", meta=m("reentrancy"), assume_after=False)
                eng.oblige(s1, label + "/finished=>does-not-raise", z3.Not(fin0), kind="raises", meta=m("memo"), assume_after=False)
                eng.oblige(s1, label + "/raises=>Inv", Inv(eng, h), kind="raises", meta=m("inv"), assume_after=False)
                eng.oblige(s1, label + "/raises=>Mono", Mono(eng, h0, h), kind="raises", meta=m("mono"), assume_after=False)
    finally:
        if saved is not None:
            S.CONTRACTS[key] = saved
    eng.results.append({"name": label + "/paths", "kind": "cover", "status": "unsat" if npaths > 0 else "sat", "backend": "engine", "time_s": 0,
                        "function": fi.key, "clause": "cover", "paths": npaths})


def verify_validate_params(eng):
    repo = eng.repo
    key = CMD + "::Command.validate_params"
    fi = repo.func(key)
    eng.current = fi
    eng.heap_mode = True
    st, h0 = _base_state(eng)
    c = smt.fresh("self_cmd", I_)
    st.assume(IS_COMMAND(c))
    selfv = dyn(Val.O(c))
    params = dyn(smt.fresh("params", Val))
    st.assume(Val.is_D(params.t))
    label = key
    saved = S.CONTRACTS.pop(key, None)
    eng.contracts = {k: v for k, v in S.CONTRACTS.items()}
    # loops: trivial frame invariants
    loops = [n for n in _ordered(fi.node) if isinstance(n, (ast.For, ast.While))]
    for i, n in enumerate(loops):
        S.LOOPS[(fi.key, "for", i)] = FrameLoop(sorted(assigned_names(n)))
    eng.loop_contracts = S.LOOPS
    npaths = 0
    try:
        for s1, out in eng.run_function(fi, st, {"self": selfv, "params": params}, cls=fi.cls):
            npaths += 1
            h = Heap.of(s1)
            eng.oblige(s1, label + "/no-heap-effect", h.same_as(h0), kind="frame", meta={"clause": "frame"}, assume_after=False)
            effects = [ev for ev in s1.log if ev[0] == "effect"]
            eng.results.append({"name": label + "/pure", "kind": "frame", "status": "unsat" if not effects else "sat", "backend": "event-log",
                                "time_s": 0, "function": fi.key, "clause": "frame", "goal": str(effects[:2])})
            if out[0] == "raise":
                ok = _b(_exc_is(eng, s1, out[1], "ProgramError"))
                nm = "<%s>" % out[1].base if isinstance(out[1], ExcSym) else s1.get(out[1]).cls.name
                msg = "" if isinstance(out[1], ExcSym) else str(s1.get(out[1]).fields.get("args", ""))[:80]
                eng.oblige(s1, label + "/raises_only(ProgramError):%s" % nm, ok, kind="raises", meta={"clause": "raises_only", "exc_msg": msg}, assume_after=False)
    finally:
        if saved is not None:
            S.CONTRACTS[key] = saved
    eng.results.append({"name": label + "/paths", "kind": "cover", "status": "unsat" if npaths > 0 else "sat", "backend": "engine", "time_s": 0,
                        "function": fi.key, "clause": "cover", "paths": npaths})


def verify_program_run(eng, rerun=False):
    """Program.run: every rejection of the pre-pass happens with the heap untouched; returns => every command finished,
    executed exactly once; Inv, Mono.  rerun=True: starting from an all-finished program nothing executes."""
    repo = eng.repo
    key = PRG + "::Program.run"
    fi = repo.func(key)
    eng.current = fi
    eng.heap_mode = True
    info = register_loops(repo)
    eng.loop_contracts = S.LOOPS
    eng.contracts = dict(S.CONTRACTS)
    st, h0 = _base_state(eng)
    from .dyn import make_symmap

    prog_ref = st.alloc(Obj(ClassV("Program", repo.modules[PRG].classes["Program"]), {}), fresh=False)
    prog_term = Val.O(z3.IntVal(-prog_ref.oid))
    eng.hprog_term = prog_term
    st.store[prog_ref.oid] = Obj(ClassV("Program", repo.modules[PRG].classes["Program"]),
                                 {"commands": make_symmap(st, "commands", prog_term), "working_dir": dyn(smt.fresh("wd", Val))})
    n = CMDCOUNT(prog_term)
    st.assume(n >= 0)
    k0 = z3.Int("pk")
    st.assume(z3.ForAll([k0], z3.Implies(z3.And(k0 >= 0, k0 < n), IS_COMMAND(CMDAT(prog_term, k0)))))
    if rerun:
        st.assume(z3.ForAll([k0], z3.Implies(z3.And(k0 >= 0, k0 < n), h0.fin(eng, CMDAT(prog_term, k0)))))
    label = key + ("[re-run]" if rerun else "")
    npaths = 0
    for s1, out in eng.run_function(fi, st, {"self": prog_ref}, cls=fi.cls):
        npaths += 1
        h = Heap.of(s1)
        executed = any(ev[0] in ("executed", "run-called") for ev in s1.log)
        m = lambda cl: {"clause": cl}
        if out[0] == "return":
            k = s1.add_k("k_post")
            ck = CMDAT(prog_term, k)
            eng.oblige(s1, label + "/returns=>every-command-finished", z3.Implies(z3.And(k >= 0, k < n), h.fin(eng, ck)), kind="ensures",
                       meta=m("all-finished"), assume_after=False)
            eng.oblige(s1, label + "/returns=>every-command-executed-exactly-once",
                       z3.Implies(z3.And(k >= 0, k < n, z3.Not(h.running(eng, ck))), h.cnt(ck) == 1), kind="ensures", meta=m("once"), assume_after=False)
            eng.oblige(s1, label + "/returns=>Inv", Inv(eng, h), kind="ensures", meta=m("inv"), assume_after=False)
            eng.oblige(s1, label + "/returns=>Mono", Mono(eng, h0, h), kind="ensures", meta=m("mono"), assume_after=False)
            if rerun:
                c = z3.Int("rr_c")
                eng.oblige(s1, label + "/nothing-executes-again",
                           z3.Implies(z3.And(k >= 0, k < n), z3.And(h.cnt(ck) == h0.cnt(ck), h.res(ck) == h0.res(ck))), kind="ensures",
                           meta=m("memo"), assume_after=False)
        else:
            exc = out[1]
            is_mp = _b(_exc_is(eng, s1, exc, "MPilotError"))
            nm = "<%s>" % exc.base if isinstance(exc, ExcSym) else s1.get(exc).cls.name
            msg = "" if isinstance(exc, ExcSym) else str(s1.get(exc).fields.get("args", ""))[:100]
            eng.oblige(s1, label + "/raises_only(MPilotError):%s" % nm, is_mp, kind="raises", meta=dict(m("raises_only"), exc_msg=msg), assume_after=False)
            eng.oblige(s1, label + "/raises=>Inv", Inv(eng, h), kind="raises", meta=m("inv"), assume_after=False)
            eng.oblige(s1, label + "/raises=>Mono", Mono(eng, h0, h), kind="raises", meta=m("mono"), assume_after=False)
            origin = exc.fields.get("origin", "") if isinstance(exc, ExcSym) and getattr(exc, "fields", None) else ""
            if origin == "clean@" + key:
                # C12: a rejection by a parameter cleaner called from Program.run itself (the pre-pass) precedes every execution
                eng.oblige(s1, label + "/pre-pass rejection precedes every execution", z3.BoolVal(not executed), kind="raises", meta=m("prepass"), assume_after=False)
            if not executed:
                # C12: a rejection that happens before anything executed leaves every counter and result untouched
                eng.oblige(s1, label + "/rejected-before-execution=>nothing-computed", h.same_as(h0) if not any(
                    ev[0] == "heap-write" for ev in s1.log) else z3.BoolVal(True), kind="raises", meta=m("before-side-effects"), assume_after=False)
    eng.results.append({"name": label + "/paths", "kind": "cover", "status": "unsat" if npaths > 0 else "sat", "backend": "engine", "time_s": 0,
                        "function": fi.key, "clause": "cover", "paths": npaths, "loops": info})
