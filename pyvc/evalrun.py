"""C02: model results = evaluation of the dependency graph, whatever the order. Composition of the per-function contracts."""
import json
import random
import time

import z3

from .extract import Repo
from . import registry, cmdprops, smt
from . import spec as S


def _compose_one(args):
    """contract-level lemma for one producer: what its verified postcondition says implies what every consumer's precondition asks"""
    name, root = args
    from .engine import Engine
    from .cmdspec import build_inputs
    from .decl import CommandDecl
    from .ma import RANK
    from .smt import INT, FLT

    repo = Repo(root)
    SPECS, classes = registry.load(repo)
    out = {"command": name, "records": [], "error": None}
    try:
        ci, spec = classes[name], SPECS[name]
        decl = CommandDecl(repo, ci)
        eng = Engine(repo, S.CONTRACTS, S.LOOPS)
        eng.current = repo.find_method(ci, "execute")
        st, x = build_inputs(eng, ci)
        eng.x = x
        for a in spec.requires(x):
            st.assume(a)
        # the postcondition speaks about normal returns: none of the (biconditional) raise conditions holds
        for (_n, cond) in spec.raises(x):
            if cond is None:
                continue
            if isinstance(cond, tuple) and cond[0] == "exists_k":
                st.assume_all_k(lambda k, cond=cond: z3.Not(cond[1](k)))
            elif isinstance(cond, tuple) and cond[0] == "and_not_exists_k":
                k = st.add_k("k_wit")
                st.assume(z3.Or(z3.Not(cond[1]), cond[2](k)))
            else:
                st.assume(z3.Not(cond))
        want = spec.result(x)
        label = "%s::%s.execute/composable" % (ci.module.relpath, name)
        m = {"clause": "composable"}
        if want is None:
            out["records"].append({"name": label + ":no-data-result", "status": "unsat", "backend": "syntactic", "time_s": 0, "clause": "composable"})
            return out
        sat = smt.satisfiable(st.hyps(), rlimit=20000000, timeout_ms=5000)
        eng.results.append({"name": label + ":vacuity (a normal return is possible under the contract's hypotheses)", "kind": "cover", "backend": "z3", "time_s": 0,
                            "status": "sat" if sat == "unsat" else "unsat", "clause": "composable", "function": eng.current.key})
        eng.oblige(st, label + ":rank>=1 (a consumer's data precondition)", RANK(want["shape"]) >= 1, kind="lemma", meta=m, assume_after=False)
        if want.get("dtype") is not None:
            eng.oblige(st, label + ":element type is int or float", z3.Or(want["dtype"] == INT, want["dtype"] == FLT), kind="lemma", meta=m, assume_after=False)
        # declared fuzziness <=> the contract carries the fuzzy-range clause (what a consumer with is_fuzzy=True relies on)
        eng.results.append({"name": label + ":declared is_fuzzy <=> the verified contract has the fuzzy-range clause", "kind": "lemma", "backend": "syntactic", "time_s": 0,
                            "status": "unsat" if bool(decl.is_fuzzy) == bool(want.get("fuzzy")) else "sat", "clause": "composable", "function": eng.current.key})
        md = decl.inputs.get("Metadata")
        ok = md is not None and not md.required and "Metadata" in x.present
        eng.results.append({"name": "%s::%s.execute/metadata: an optional input, symbolic and possibly absent in every verified obligation (results are functions of the other inputs)"
                                    % (ci.module.relpath, name), "kind": "lemma", "backend": "syntactic", "time_s": 0, "status": "unsat" if ok else "sat", "clause": "metadata",
                            "function": eng.current.key})
        for r in eng.results:
            rec = {k: v for k, v in r.items() if k not in ("model_obj", "state")}
            rec.setdefault("clause", r.get("kind"))
            rec.setdefault("function", eng.current.key)
            out["records"].append(rec)
    except Exception as e:
        import traceback

        out["error"] = "%s: %s %s" % (type(e).__name__, e, traceback.format_exc()[-800:])
    return out


def eval_lemmas():
    """EVAL: the induction step behind `results = evaluation of the graph, in any order` over the per-function contracts"""
    recs = []
    smt.QUANT["on"] = True
    V, H, A = z3.DeclareSort("ResultView"), z3.DeclareSort("FinalHeap"), z3.DeclareSort("ArgumentViews")
    I = z3.IntSort()
    view = z3.Function("view", H, I, V)
    fin = z3.Function("finished", H, I, z3.BoolSort())
    rank = z3.Function("rank", I, I)
    R = z3.Function("refs", I, I, z3.BoolSort())
    F = z3.Function("spec_function", I, A, V)
    args = z3.Function("argument_views", H, I, A)
    h1, h2 = z3.Consts("h1 h2", H)
    c, d, c0 = z3.Ints("c d c0")
    ga, gb = z3.Consts("ga gb", H)
    cong = z3.ForAll([ga, gb, c], z3.Implies(z3.ForAll([d], z3.Implies(R(c, d), view(ga, d) == view(gb, d))), args(ga, c) == args(gb, c)))
    func = lambda h: z3.ForAll([c], z3.Implies(fin(h, c), z3.And(view(h, c) == F(c, args(h, c)), z3.ForAll([d], z3.Implies(R(c, d), fin(h, d))))))
    rk = z3.ForAll([c, d], z3.Implies(R(c, d), rank(d) < rank(c)))
    ih = z3.ForAll([d], z3.Implies(z3.And(rank(d) < rank(c0), fin(h1, d), fin(h2, d)), view(h1, d) == view(h2, d)))

    def add(name, hyps, goal):
        v = smt.check(hyps, goal)
        recs.append({"name": name, "status": v.status, "backend": v.backend, "time_s": round(v.time_s, 3), "clause": "eval",
                     "function": "lemma over the contracts of execute / Command.run / Program.run", "goal": str(goal)[:300], "reason": v.reason})

    add("lemma/EVAL-STEP: two final heaps that satisfy the functional contracts agree on c if they agree on everything of lower rank",
        [cong, func(h1), func(h2), rk, ih, fin(h1, c0), fin(h2, c0)], view(h1, c0) == view(h2, c0))
    # other consumers / other commands do not matter: the view of c in a final heap is the spec function of the views of its references only
    e = z3.Int("e")
    add("lemma/EVAL-LOCAL: the result of c depends on the final heap only through its references",
        [cong, func(h1), func(h2), fin(h1, c0), fin(h2, c0), z3.ForAll([d], z3.Implies(R(c0, d), view(h1, d) == view(h2, d)))], view(h1, c0) == view(h2, c0))
    s = z3.Solver()
    s.set("rlimit", 8000000)
    s.add(cong, func(h1), rk, fin(h1, c0), R(c0, e))
    r = s.check()
    recs.append({"name": "vacuity/EVAL-hypotheses-satisfiable", "status": "unsat" if str(r) in ("sat", "unknown") else "sat", "backend": "z3", "time_s": 0, "clause": "cover",
                 "function": "lemma hypotheses", "goal": "the hypotheses have a model with a finished command that has a reference (%s)" % r})
    smt.QUANT["on"] = False
    return recs


def eval_property(prop, tier, seed, REPO):
    from concurrent.futures import ProcessPoolExecutor
    from . import run as R, loadrun, evalcases as E, loadcases as L

    root = REPO
    rep = R.command_property(prop, tier, seed, selkey="C02", level="proof")
    rep.ledger_promote = False
    repo = Repo(root)
    # ---- contract-level lemmas: producer postcondition => consumer precondition; metadata inert
    with ProcessPoolExecutor(max_workers=16) as ex:
        outs = list(ex.map(_compose_one, [(n, root) for n in cmdprops.ALL_DATA]))
    for out in outs:
        if out["error"]:
            rep.errors.append("composability %s: %s" % (out["command"], out["error"]))
            continue
        loadrun.add_records(rep, out["records"], {"composable", "metadata"})
    # ---- the run-time protocol (C01's contracts) and the loader
    loadrun.heap_part(rep, root, ["run", "result", "validate", "program", "rerun"], {"once", "memo", "finished", "all-finished", "mono", "inv", "frame", "cover"})
    loadrun.load_part(rep, root, {"wf", "cover"}, which=("add_command", "from_source"))
    loadrun.add_records(rep, eval_lemmas(), None, how="lemma refuted")
    # ---- the sources of a model: the CSV reader returns the file's column (contract of C17 on the real body), and only cells equal to MissingVal are missing
    src_part = None
    try:
        from . import ioprops, iocases

        precs, fns = ioprops.verify(repo, "csv")
        rd = [loadrun._strip(r) for r in precs if "EEMSRead" in r.get("name", "")]
        known = set(json.dumps(f, sort_keys=True, default=str) for f in rep.functions)
        rep.functions += [f for f in fns if "EEMSRead" in json.dumps(f, default=str) and json.dumps(f, sort_keys=True, default=str) not in known]
        loadrun.add_records(rep, rd, None)
        t1 = time.time()
        rcases = [c for c in iocases.csv_cases(tier, seed) if c["kind"] == "csv_read"]
        routs = iocases.run_real(rcases, root)
        rf = 0
        for c, o in zip(rcases, routs):
            bad = iocases.judge_csv(c, o)
            if any(b[0] == "harness-error" for b in bad):
                rep.errors.append("csv battery: %s" % (bad[0][1],))
            elif bad:
                rf += 1
                rep.violations.append({"obligation": "mpilot/libraries/eems/csv/io.py/bounded:csv_read", "function": "mpilot/libraries/eems/csv/io.py", "how": "bounded-concrete",
                                       "case": c, "real": o, "violated": [b[0] for b in bad], "violated_detail": bad[:4], "confirmed": True})
        src_part = {"name": "csv-sources", "evaluations": len(rcases), "distinct_nontrivial": len(rcases), "failures": rf, "wall_s": round(time.time() - t1, 1),
                    "rule": "the read cases of C17's table battery (double lattice incl. values next to MissingVal, every MissingVal / DataType choice)"}
    except Exception as e:
        rep.errors.append("csv reader: %s: %s" % (type(e).__name__, e))
    # ---- bounded: whole models on the real code against the chained spec functions
    t0 = time.time()
    ms = E.models(root, tier, seed)
    rnd = random.Random(seed + 11)
    cases, owners = [], []
    for mi, m in enumerate(ms):
        cs = E.cases_for(m, rnd)
        cases += cs
        owners += [mi] * len(cs)
    outs = L.run_real(cases, root, workers=16)
    fails, distinct = 0, set()
    by_model = {}
    for c, o, mi in zip(cases, outs, owners):
        by_model.setdefault(mi, []).append((c, o))
        distinct.add(c["source"])
        bad = E.judge(ms[mi], c, o)
        if any(b[0] == "harness-error" for b in bad):
            rep.errors.append("model battery: %s" % (bad[0][1],))
            continue
        if bad:
            fails += 1
            rep.violations.append({"obligation": "mpilot/program.py::Program.from_source+run/bounded:model:%s" % bad[0][0], "function": "mpilot/program.py::Program.run",
                                   "how": "bounded-concrete", "case": {"source": c["source"], "files": c["files"], "dump_results": True, "label": c["label"], "model": ms[mi]},
                                   "real": {k: v for k, v in o.items() if k != "results"}, "violated": sorted(set(b[0] for b in bad)), "violated_detail": bad[:4],
                                   "confirmed": True})
    for mi, pairs in by_model.items():
        bad = E.judge_orders(ms[mi], [p[0] for p in pairs], [p[1] for p in pairs])
        if bad:
            fails += 1
            rep.violations.append({"obligation": "mpilot/program.py::Program.from_source+run/bounded:model:order", "function": "mpilot/program.py::Program.run",
                                   "how": "bounded-concrete", "case": {"sources": [p[0]["source"] for p in pairs], "files": pairs[0][0]["files"]},
                                   "violated": ["order"], "violated_detail": bad[:4], "confirmed": True})
    part = {"name": "whole-models", "evaluations": len(cases), "distinct_nontrivial": len(distinct), "failures": fails, "wall_s": round(time.time() - t0, 1),
            "models": len(ms), "commands_used": sorted(set(n["cls"] for m in ms for n in m["nodes"]))}
    prev = rep.bounded
    parts = ([dict(prev, name="single-commands")] if prev else []) + [part] + ([src_part] if src_part else [])
    rep.bounded = {"label": "bounded (never counted as proved)", "parts": parts, "evaluations": sum(p.get("evaluations", 0) for p in parts),
                   "distinct_nontrivial": sum(p.get("distinct_nontrivial", 0) for p in parts), "failures": sum(p.get("failures", 0) for p in parts),
                   "rule": "random typed DAG models (3 CSV columns read as int/float with missing cells, then 6 (thorough: 8) commands drawn from the 31 data commands with "
                           "parameters from the single-command battery and inputs of compatible fuzziness, fan-out allowed), each node's reference value = that command's "
                           "CommandSpec evaluated on the reference values of its dependencies; the text is loaded and run in file order, reversed (all forward references), "
                           "shuffled and multi-line, with every Metadata argument removed, and with an extra consumer of every result; every node's real result "
                           "(kind, element type, missing cells, values) is compared with the reference and across the variants; plus the single-command battery"}
    rep.trusted = list(rep.trusted) + [
        "EEMSRead (the sources of a model): the CSV reader's body is under C17's contract (included here); the csv module / open() and the NetCDF reader are assumed (C17 / C18)",
        "the composition argument: Program.run returns => every command finished, executed exactly once, results never change afterwards (C01, proved here again); "
        "each execute returns its spec function of the *views* of the results it references (proved per command); finishing timestamps rank the reference graph (C14 lemma RANK); "
        "lemma EVAL-STEP then gives, by induction on the rank, that any two complete runs agree on every view, whatever the order of the commands",
    ]
    rep.explanation = (
        "Proved: (1) for each of the 31 data commands the real execute body returns a masked array whose shape, element type, missing cells and values at valid cells are the "
        "command's spec function of the views of its inputs (payload under missing cells unreachable), keeps [-1,1] when declared fuzzy, modifies none of its inputs and reads "
        "every reference; Metadata is a symbolic, possibly absent input in all of these obligations, so no result depends on it; (2) composability: each producer's verified "
        "postcondition implies the data precondition of every consumer input of compatible fuzziness (masked array, int/float, rank>=1, fuzzy range iff declared fuzzy); "
        "(3) the run-time protocol: Command.run / Command.result / Program.run bodies against Inv/Mono (each command executes exactly once, a finished result is returned by "
        "reference and never changes, Program.run returns => all finished), validate_params has no effect; (4) the loader stores commands by result name and resolves no "
        "reference at load time, so forward references are accepted; (5) lemmas EVAL-STEP / EVAL-LOCAL: two complete runs agree on a command's view as soon as they agree on "
        "lower-ranked ones, and a view depends on the final heap only through the command's own references (other consumers cannot matter). NormalizeMeanToMid / "
        "CvtToFuzzyMeanToMid have no value clause (bounded only). Bounded: whole models on the real code in several orders against chained spec functions.")
    return rep
