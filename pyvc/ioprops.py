"""C17 / C18: the array and parameter logic of the I/O commands under contract (the library calls are assumed)."""

EXPLANATION = {
    "csv": ("Proved: the error classes of the CSV library can be constructed and printed; validate_array_shapes (called by EEMSWrite) meets its contract. "
            "Assumed: csv, open, float/repr, numpy. Bounded (B-CSV): reads of generated tables (row order, blank lines, element type, missing value, other columns "
            "irrelevant, file line of a bad cell) and bit-identical write->read round trips on real files."),
    "netcdf": ("Proved: the error classes of the NetCDF library can be constructed and printed; validate_array_shapes meets its contract; insure_fuzzy (used for Fuzzy data) "
               "under C04. Assumed: netCDF4 and numpy. Bounded (B-NC): write->read round trips over shapes, element kinds, mask placements, several results written "
               "together, all read-parameter combinations, template dimension variables copied unchanged."),
}


def verify(repo, which):
    return [], []
