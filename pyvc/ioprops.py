"""C17 / C18: the array and parameter logic of the I/O commands under contract (the library calls are assumed).

CSV EEMSRead.execute is verified against a contract taken from C17's statement. The file is abstracted by uninterpreted
functions (what `csv.reader(f.readlines())` delivers — an assumed contract of the csv module):
    HASHDR            the file has a first row
    HLEN, HEADER(i)   the header row
    NROWS             number of rows after the header; ROWLEN(k), CELL(k, i) their cells ([] for a blank line)
Ghost functions of the specification:
    CNT(j)            number of non-blank rows among the first j
    SRC(m)            index of the m-th non-blank row       (axiom: NONBLANK(k) => SRC(CNT(k)) = k)
    POS(c)            position of a cell of a 1-D array
"""
import ast

import z3

from . import smt
from . import spec as S
from .cmdspec import CommandSpec, verify_execute
from .engine import Engine
from .smt import Val, INT, FLT, Shape, Cell
from .ma import RANK
from .values import Sym, Ref, Obj, PyList, SeqV, ClassV, BuiltinV, Raised, Unsupported, ArrState, TupleV, is_num, num_term

EXPLANATION = {
    "csv": ("Proved on the real body of the CSV EEMSRead.execute, with the csv module abstracted to the rows it delivers: an empty file raises EmptyDataFile; a missing header "
            "raises InvalidDataFile; the first non-blank row whose cell in the column is not a number raises InvalidDataFile naming file line (row index + 2); otherwise the "
            "result is a 1-D masked array with one element per non-blank row, in row order (loop invariant over the filtered sequence), element m = the number written in the "
            "m-th non-blank row converted to the requested element type (float by default), missing exactly where that value equals the declared missing value, independent of "
            "every other column; the error classes can be constructed and printed; validate_array_shapes (called by EEMSWrite) meets its contract; EEMSWrite hands the "
            "csv writer the result names in the listed order. Assumed: csv, open, float/repr, numpy. Bounded (B-CSV): reads of generated tables and bit-identical write->read "
            "round trips on real files."),
    "netcdf": ("Proved on the real body of the NetCDF EEMSRead.execute, with netCDF4 abstracted to the variable it delivers (shape, element kind, values, library mask): "
               "NoSuchVariable iff the dataset lacks the variable; InvalidPositiveData iff a Positive type is requested and the smallest valid value is negative; "
               "InvalidFuzzyData iff Fuzzy is requested and the valid values leave [-1.02, 1.02]; otherwise a masked array of the file's shape, float by default, of the "
               "requested element kind otherwise (float data rounded to the nearest integer for the integer kinds), clamped to [-1, 1] for Fuzzy, missing exactly where the "
               "library masks the cell or the resulting value equals the declared missing value (converted to the element kind); the payload written under missing cells is "
               "unobservable. On the real body of the NetCDF EEMSWrite.execute, with every netCDF4 object external (any call allowed, none touches mpilot's arrays): the mask-union "
               "loop leaves, cell by cell, `missing in any result` (invariant over the running union, lemma PMISS-MONO); the write loop creates exactly one variable per "
               "result, named after it, and stores into it an array of the results' shape and that result's element kind and values, missing exactly where any written "
               "result is missing; no input array is modified; EmptyInputs / MixedArrayShapes biconditionals. Also: the error classes can be constructed and printed; validate_array_shapes meets its contract; insure_fuzzy under C04. Assumed: netCDF4 and numpy. Bounded (B-NC): write->read round trips over shapes, element kinds, mask placements, several results written "
               "together, all read-parameter combinations, template dimension variables copied unchanged."),
}

I_ = z3.IntSort()
Str = z3.StringSort()
HASHDR = z3.Bool("csv_has_header_row")
HLEN = z3.Int("csv_header_len")
HEADER = z3.Function("csv_header", I_, Str)
NROWS = z3.Int("csv_nrows")
ROWLEN = z3.Function("csv_row_len", I_, I_)
CELL = z3.Function("csv_cell", I_, I_, Str)
CNT = z3.Function("nonblank_count", I_, I_)
SRC = z3.Function("nonblank_source", I_, I_)
POS = z3.Function("cell_position", Cell, I_)
VEC = z3.Function("vector_shape", I_, Shape)
IDX = z3.Int("column_index")  # specification: the first header position holding the field name
CSVIO = "mpilot/libraries/eems/csv/io.py"


def nonblank(k):
    return ROWLEN(k) > 0


def header_has(field):
    return ("exists", lambda i: z3.And(i >= 0, i < HLEN, HEADER(i) == field))


def file_axioms(st, field):
    st.assume(z3.And(HLEN >= 0, NROWS >= 0, CNT(0) == 0))
    # IDX: if the header holds the field name at all, IDX is its first position
    st.assume_all_k(lambda i: z3.Implies(z3.And(i >= 0, i < HLEN, HEADER(i) == field),
                                         z3.And(IDX >= 0, IDX <= i, IDX < HLEN, HEADER(IDX) == field)))
    st.note_k(IDX)
    k = z3.Int("ax_k")
    st.assume(z3.ForAll([k], ROWLEN(k) >= 0))
    # definition of the ghost count and of the source index of the m-th non-blank row
    st.assume_all_k(lambda k: z3.Implies(k >= 0, z3.And(CNT(k + 1) == CNT(k) + z3.If(nonblank(k), 1, 0), CNT(k) >= 0, CNT(k) <= k,
                                                       z3.Implies(nonblank(k), SRC(CNT(k)) == k))))
    n = z3.Int("ax_n")
    st.assume(z3.ForAll([n], RANK(VEC(n)) == 1))
    # admissible input (the statement is silent about ragged files): a non-blank row has a cell under every header.
    # (On a shorter row the real code raises IndexError, which Command.run wraps into UnexpectedError - C13.)
    st.assume_all_k(lambda k: z3.Implies(z3.And(k >= 0, nonblank(k)), ROWLEN(k) >= HLEN))


def floatcell(k, idx):
    """the number written in cell idx of row k (meaningful when FLOATLIT)"""
    from .dyn import STR2F

    return STR2F(CELL(k, idx))


def install(eng):
    from .dyn import FLOATLIT

    ModelMixin = Engine  # patches go on the engine class itself (they override every mixin)
    if getattr(ModelMixin, "_csv_patch", False):
        return

    def bi_file_readlines(self, st, args, kw):
        yield st, st.alloc(Obj(ClassV("Lines"), {}))

    def bi_csv_reader(self, st, args, kw):
        yield st, st.alloc(Obj(ClassV("CsvReader"), {"header_taken": False}))

    def bi_next(self, st, args, kw):
        r = args[0]
        o = st.get(r) if isinstance(r, Ref) else None
        if not (isinstance(o, Obj) and o.cls.name == "CsvReader") or o.fields.get("header_taken"):
            raise Unsupported("next() of %r" % (r,))
        for s1, has in self.branch(st, HASHDR):
            if has:
                s1.set(r, Obj(o.cls, dict(o.fields, header_taken=True)))
                yield s1, s1.alloc(PyList(seq=SeqV(HLEN, lambda i: Sym("str", HEADER(i)), tag="csvheader")))
            else:
                yield self.raise_(s1, "StopIteration", "")

    def bi_list_index(self, st, args, kw):
        ref, x = args[0], args[1]
        o = st.get(ref)
        if o.items is not None or not self.is_str(x):
            raise Unsupported("list.index on this list")
        seq = o.seq
        xt = self.str_term(x)
        found = st.fork()
        idx = smt.fresh("index", I_)
        found.assume(z3.And(idx >= 0, idx < seq.n, self.str_term(seq.get(idx)) == xt))
        found.assume_all_k(lambda i: z3.Implies(z3.And(i >= 0, i < idx), self.str_term(seq.get(i)) != xt))
        found.note_k(idx)
        if self.feasible(found):
            yield found, Sym("num", z3.ToReal(idx), True)
        missing = st.fork()
        missing.assume_all_k(lambda i: z3.Implies(z3.And(i >= 0, i < seq.n), self.str_term(seq.get(i)) != xt))
        if self.feasible(missing):
            yield self.raise_(missing, "ValueError", "is not in list")

    orig_as_sequence = ModelMixin.as_sequence

    def as_sequence(self, st, v):
        o = st.store.get(v.oid) if isinstance(v, Ref) else None
        if isinstance(o, Obj) and o.cls.name == "CsvReader":
            if not o.fields.get("header_taken"):
                raise Unsupported("iteration of a csv reader whose header was not taken")
            yield st, SeqV(NROWS, lambda k: SeqV(ROWLEN(k), lambda i, k=k: Sym("str", CELL(k, i)), tag="csvrow", meta={"row": k}), tag="csvrows")
            return
        for r in orig_as_sequence(self, st, v):
            yield r

    orig_truth = ModelMixin.truth

    def truth(self, st, v):
        if isinstance(v, SeqV):
            yield st, v.n > 0
            return
        for r in orig_truth(self, st, v):
            yield r

    def ma_array_from_list(self, st, v, kw):
        """numpy.ma.array(list of numbers, mask=False, dtype=..., fill_value=...): a 1-D masked array, element k = the k-th number converted to dtype"""
        o = st.get(v)
        seq = self.list_seq(o)
        if set(kw) - {"mask", "dtype", "fill_value"} or kw.get("mask", False) is not False:
            raise Unsupported("ma.array(list) keywords %s" % sorted(kw))
        d = self.dtype_of_class(kw["dtype"]) if "dtype" in kw else FLT

        def elem(c, seq=seq, d=d):
            e = seq.get(POS(c))
            if isinstance(e, Sym) and e.kind == "dyn":
                t = Val.fval(e.t)
            elif is_num(e):
                t = num_term(e)
            else:
                raise Unsupported("ma.array of a list of %r" % (e,))
            tr = z3.If(t >= 0, z3.ToReal(z3.ToInt(t)), -z3.ToReal(z3.ToInt(-t)))
            return z3.If(d == INT, tr, t)

        elem(z3.Const("probe_cell", Cell))  # fail early on unsupported elements
        st.assume_all_cells(lambda c, n=seq.n: z3.And(POS(c) >= 0, POS(c) < n))
        yield st, st.alloc(ArrState("MA", d, VEC(seq.n), elem, lambda c: z3.BoolVal(False)))

    orig_call = ModelMixin.call

    def call(self, st, f, args, kw, node=None):
        if isinstance(f, Sym) and f.kind == "dt":
            # calling a numeric type object (float or int) on a number: conversion, truncating toward zero for int
            if len(args) != 1 or not is_num(args[0]):
                raise Unsupported("data type called on %r" % (args,))
            t = num_term(args[0])
            tr = z3.If(t >= 0, z3.ToReal(z3.ToInt(t)), -z3.ToReal(z3.ToInt(-t)))
            yield st, Sym("num", z3.If(f.t == INT, tr, t), f.t == INT)
            return
        for r in orig_call(self, st, f, args, kw, node):
            yield r

    ModelMixin.call = call

    def bi_arr_soften_mask(self, st, args, kw):
        yield st, args[0]

    ModelMixin.bi_arr_soften_mask = bi_arr_soften_mask
    ModelMixin.bi_file_readlines = bi_file_readlines
    ModelMixin.bi_csv_reader = bi_csv_reader
    ModelMixin.bi_next = bi_next
    ModelMixin.bi_list_index = bi_list_index
    ModelMixin.as_sequence = as_sequence
    ModelMixin.truth = truth
    ModelMixin.ma_array_from_list = ma_array_from_list
    ModelMixin._csv_patch = True


class ReadLoop(S.LoopContract):
    """after j rows: the accumulated list holds, in row order, the numbers of the non-blank rows among the first j; each of those rows
    had a numeric cell. The loop variables and the accumulator are bound by role from the loop's AST."""

    def __init__(self, loop_vars=("i", "row"), acc="values"):
        self.loop_vars, self.acc = tuple(loop_vars), acc

    def inv(self, I):
        from .dyn import FLOATLIT

        eng, st, j = I.eng, I.st, I.j
        idx = IDX
        for n in self.loop_vars:
            I.covered.add(n)
            if I.mode == "abstract" and n in st.env:
                st.env.pop(n)
        I.covered.add(self.acc)
        if self.acc not in st.env or not isinstance(st.env[self.acc], Ref) or not isinstance(st.get(st.env[self.acc]), PyList):
            raise Unsupported("the row loop does not accumulate into a list named %s" % self.acc)
        if I.mode == "abstract":
            st.env[self.acc] = st.alloc(PyList(seq=SeqV(CNT(j), lambda m: Sym("dyn", Val.F(floatcell(SRC(m), idx))), tag="values")))
            st.assume_all_k(lambda k: z3.Implies(z3.And(k >= 0, k < j, nonblank(k)), z3.And(FLOATLIT(CELL(k, idx)), idx < ROWLEN(k))))
            return
        o = st.get(st.env[self.acc])
        seq = eng.list_seq(o)
        I.fact("one value per non-blank row so far", seq.n == CNT(j))

        def elem(m):
            e = seq.get(m)
            t = Val.fval(e.t) if isinstance(e, Sym) and e.kind == "dyn" else num_term(e)
            return z3.Implies(z3.And(m >= 0, m < CNT(j)), t == floatcell(SRC(m), idx))

        I.forall_k("value m is the number written in the m-th non-blank row", elem)
        I.forall_k("every non-blank row so far had a numeric cell", lambda k: z3.Implies(z3.And(k >= 0, k < j, nonblank(k)), FLOATLIT(CELL(k, idx))))


class CsvReadSpec(CommandSpec):
    def requires(self, x):
        return []

    def raises(self, x):
        from .dyn import FLOATLIT

        field = x.strs["InFieldName"]
        return [("EmptyDataFile", z3.Not(HASHDR)),
                ("InvalidDataFile", ("and_not_exists_k", HASHDR, lambda i: z3.And(i >= 0, i < HLEN, HEADER(i) == field))),
                ("InvalidDataFile", ("exists_k", lambda k: z3.And(HASHDR, IDX >= 0, IDX < HLEN, HEADER(IDX) == field, k >= 0, k < NROWS, nonblank(k),
                                                                  z3.Not(FLOATLIT(CELL(k, IDX))))))]

    def result(self, x):
        eng = x.eng
        idx = IDX
        has_dt = x.present.get("DataType")
        dt = z3.If(has_dt, x.strs["DataType"], FLT) if has_dt is not None else FLT
        has_fill = x.present.get("MissingVal")
        fill = x.nums["MissingVal"][0]
        trunc = lambda t: z3.If(t >= 0, z3.ToReal(z3.ToInt(t)), -z3.ToReal(z3.ToInt(-t)))
        conv = lambda t: z3.If(dt == INT, trunc(t), t)
        val = lambda c: conv(floatcell(SRC(POS(c)), idx))
        return dict(shape=VEC(CNT(NROWS)), dtype=dt, miss=lambda c: z3.And(has_fill, val(c) == conv(fill)), value=val)


def verify_csv_read(repo):
    from . import registry
    from .dyn import FLOATLIT
    from . import serprops

    registry.load(repo)
    eng = Engine(repo, dict(S.CONTRACTS), dict(S.LOOPS))
    install(eng)
    from . import ncprops

    ncprops.install(eng)  # shared numpy models (isclose, getmaskarray, | on boolean arrays, issubdtype)
    serprops.install(eng)  # str(int) = STR_I, exact str.format
    eng.precise_format = True
    eng.lx = {}
    ci = repo.modules[CSVIO].classes["EEMSRead"]
    fi = repo.find_method(ci, "execute")
    loops = [n for n in ast.walk(fi.node) if isinstance(n, ast.For)]
    if not loops:
        raise Unsupported("EEMSRead.execute has no row loop")
    lp = loops[0]
    names = [e.id for e in lp.target.elts] if isinstance(lp.target, ast.Tuple) and all(isinstance(e, ast.Name) for e in lp.target.elts) else []
    accs = [c.func.value.id for c in ast.walk(lp) if isinstance(c, ast.Call) and isinstance(c.func, ast.Attribute) and c.func.attr == "append" and isinstance(c.func.value, ast.Name)]
    if len(names) != 2 or len(set(accs)) != 1:
        raise Unsupported("row loop is not `for <i>, <row> in ...: ... <list>.append(...)`")
    eng.loop_contracts[(fi.key, "for", 0)] = ReadLoop(names, accs[0])
    spec = CsvReadSpec()

    # the column index is whatever `headers.index` returned: remember it when the loop contract first needs it
    orig_index = eng.bi_list_index

    def list_index(st, args, kw):
        for s1, r in orig_index(st, args, kw):
            if isinstance(r, Sym):
                eng.lx["idx"] = z3.ToInt(r.t)
            yield s1, r

    eng.builtin_models["list.index"] = list_index
    eng.lx["idx"] = z3.Int("column_index")

    # hook the initial state: file axioms; ragged rows are outside the property (admissible-input restriction)
    from . import cmdspec

    orig_build = cmdspec.build_inputs

    def build(eng_, ci_, fuzzy_pre=True):
        st, x = orig_build(eng_, ci_, fuzzy_pre)
        x.eng = eng_
        file_axioms(st, x.strs["InFieldName"])
        return st, x

    orig_exit = cmdspec.check_exit

    def check_exit(eng_, spec_, x, st, out, label):
        orig_exit(eng_, spec_, x, st, out, label)
        if out[0] != "raise" or isinstance(out[1], (str,)) or not isinstance(out[1], Ref):
            return
        o = st.get(out[1])
        prob = o.fields.get("problem")
        if o.cls.name != "InvalidDataFile" or prob is None:
            return
        from .serprops import STR_I
        field = x.strs["InFieldName"]
        msg = lambda k: z3.Concat(z3.StringVal('The data file contains an invalid value in the field "'), field, z3.StringVal('" on line '), STR_I(k + 2), z3.StringVal("."))
        k2 = st.add_k("k_first")
        ks = st.all_kterms()
        first = lambda k: z3.Implies(z3.And(k2 >= 0, k2 < k, nonblank(k2)), FLOATLIT(CELL(k2, IDX)))
        if getattr(eng_, "debug_io", False):
            print("PROBLEM", prob, [str(k) for k in ks])
        bad_cell = z3.Or(*[z3.And(k >= 0, k < NROWS, nonblank(k), z3.Not(FLOATLIT(CELL(k, IDX))), first(k), eng_.str_term(prob) == msg(k)) for k in ks])
        hdr_missing = z3.And(*[z3.Implies(z3.And(i >= 0, i < HLEN), HEADER(i) != field) for i in ks])
        eng_.oblige(st, label + "/InvalidDataFile names the file line (row index + 2) of the first non-numeric cell, or the header is missing",
                    z3.Or(bad_cell, hdr_missing), kind="raises", meta={"clause": "lineno"}, assume_after=False)

    cmdspec.build_inputs = build
    cmdspec.check_exit = check_exit
    try:
        recs = verify_execute(eng, ci, spec)
    finally:
        cmdspec.build_inputs = orig_build
        cmdspec.check_exit = orig_exit
    return [r for r in recs], [dict(fi.describe(), verified_for_class="EEMSRead (csv)")]


# =========================================================================== CSV EEMSWrite
VLEN = z3.Function("vector_length", Shape, I_)
ROWAT = z3.Function("transposed_row", I_, I_, Val)  # row i of the transposed stack `sid`


def install_writer(eng):
    E = Engine
    if getattr(E, "_csvw_patch", False):
        return

    def bi_csv_writer(self, st, args, kw):
        f = args[0]
        yield st, st.alloc(Obj(ClassV("CsvWriter"), {"file": f}))

    orig_obj_attr = E.obj_attr

    def obj_attr(self, st, ref, o, name):
        if o.cls.name == "CsvWriter" and name in ("writerow", "writerows"):
            yield st, BuiltinV("csvwriter." + name, self_val=ref)
            return
        if o.cls.name == "TransposedStack":
            if name == "shape":
                yield st, TupleV([Sym("num", z3.ToReal(o.fields["rows"]), True), Sym("num", z3.ToReal(o.fields["cols"]), True)])
                return
        for r in orig_obj_attr(self, st, ref, o, name):
            yield r

    def bi_csvwriter_writerow(self, st, args, kw):
        st.log.append(("writerow", args[1]))
        yield st, None

    def bi_csvwriter_writerows(self, st, args, kw):
        st.log.append(("writerows", args[1]))
        yield st, None

    orig_from_list = E.ma_array_from_list

    def ma_array_from_list(self, st, v, kw):
        o = st.get(v)
        seq = self.list_seq(o)
        probe = seq.get(smt.fresh("k", I_))
        if isinstance(probe, Ref) or self.is_arr(st, probe):
            if set(kw):
                raise Unsupported("ma.array(list of arrays) keywords")
            for s1, r in self.call_builtin("numpy.array", st, [v], {}):
                if not isinstance(r, Raised):
                    stk = s1.get(r)
                    stk.kind = "MA"
                yield s1, r
            return
        for r in orig_from_list(self, st, v, kw):
            yield r

    def bi_arr_transpose(self, st, args, kw):
        from .values import StackState

        stk = st.get(args[0]) if isinstance(args[0], Ref) else None
        axes = st.get(args[1]).items if len(args) > 1 and isinstance(args[1], Ref) and isinstance(st.get(args[1]), PyList) else None
        if not isinstance(stk, StackState) or axes != [1, 0]:
            raise Unsupported("transpose of %r with %r" % (stk, axes))
        # a stack of n one-dimensional layers of length L, transposed: L rows of n cells. (For layers of higher rank numpy raises.)
        self.oblige(st, "%s/transpose([1, 0]):requires one-dimensional results" % self.current.key, RANK(stk.shape) == 1, kind="callsite-requires",
                    meta={"clause": "shape"})
        sid = smt.fresh("stack_id", I_)
        yield st, st.alloc(Obj(ClassV("TransposedStack"), {"rows": VLEN(stk.shape), "cols": stk.n, "sid": sid, "stack": args[0]}))

    orig_get_item = E.get_item

    def get_item(self, st, o, idx):
        c = st.store.get(o.oid) if isinstance(o, Ref) else None
        if isinstance(c, Obj) and c.cls.name == "TransposedStack":
            from .values import Slice

            if isinstance(idx, TupleV) and len(idx.items) == 2 and isinstance(idx.items[1], Slice) and idx.items[1].lo is None and idx.items[1].hi is None:
                i = self.int_term(idx.items[0])
                yield st, Sym("dyn", ROWAT(c.fields["sid"], i))
                return
            raise Unsupported("index %r into a transposed stack" % (idx,))
        for r in orig_get_item(self, st, o, idx):
            yield r

    E.bi_csv_writer = bi_csv_writer
    E.obj_attr = obj_attr
    E.bi_csvwriter_writerow = bi_csvwriter_writerow
    E.bi_csvwriter_writerows = bi_csvwriter_writerows
    E.ma_array_from_list = ma_array_from_list
    E.bi_arr_transpose = bi_arr_transpose
    E.bi_stack_transpose = bi_arr_transpose
    E.get_item = get_item
    E._csvw_patch = True


class CsvWriteSpec(CommandSpec):
    def raises(self, x):
        n = x.n("OutFieldNames")
        return [("EmptyInputs", n == 0),
                ("MixedArrayShapes", ("exists_k", lambda k: z3.And(k >= 1, k < n, x.shape("OutFieldNames", k) != x.shape("OutFieldNames", z3.IntVal(0)))))]

    def requires(self, x):
        from .ma import RANK as _R

        n = x.n("OutFieldNames")
        # the statement (and the code: "Assumption: 1d arrays") speaks of columns: one-dimensional results
        x.st0.assume_all_k(lambda k: z3.Implies(z3.And(k >= 0, k < n), _R(x.shape("OutFieldNames", k)) == 1))
        return []

    def result(self, x):
        return None


def verify_csv_write(repo):
    from . import registry, cmdspec

    registry.load(repo)
    eng = Engine(repo, dict(S.CONTRACTS), dict(S.LOOPS))
    install(eng)
    install_writer(eng)
    eng.lx = {}
    ci = repo.modules[CSVIO].classes["EEMSWrite"]
    fi = repo.find_method(ci, "execute")
    spec = CsvWriteSpec()
    orig_exit = cmdspec.check_exit

    def check_exit(eng_, spec_, x, st, out, label):
        orig_exit(eng_, spec_, x, st, out, label)
        if out[0] == "raise":
            return
        m = {"clause": "header"}
        hdr = [ev[1] for ev in st.log if ev[0] == "writerow"]
        rows = [ev[1] for ev in st.log if ev[0] == "writerows"]
        order = [ev[0] for ev in st.log if ev[0] in ("writerow", "writerows")]
        eng_.oblige(st, label + "/one header row, written before the data rows", z3.BoolVal(order == ["writerow", "writerows"]), kind="ensures", meta=m, assume_after=False)
        if len(hdr) == 1 and isinstance(hdr[0], Ref):
            seq = eng_.list_seq(st.get(hdr[0]))
            n = x.n("OutFieldNames")
            k = st.add_k("k_hdr")
            fam = st.fams[("cmds", "OutFieldNames")]
            eng_.oblige(st, label + "/the header lists the result names in the listed order",
                        z3.And(seq.n == n, z3.Implies(z3.And(k >= 0, k < n), eng_.str_term(seq.get(k)) == fam.namefun(k))), kind="ensures", meta=m, assume_after=False)
        if len(rows) == 1 and isinstance(rows[0], Ref):
            seq = eng_.list_seq(st.get(rows[0]))
            i = st.add_k("i_row")
            length = VLEN(x.shape("OutFieldNames", z3.IntVal(0)))
            e = seq.get(i)
            ok = isinstance(e, Sym) and e.kind == "dyn" and z3.is_app(e.t) and e.t.decl().eq(ROWAT)
            eng_.oblige(st, label + "/one data row per cell, row i holding position i of every result",
                        z3.And(seq.n == z3.If(length > 0, length, 0), z3.Implies(z3.And(i >= 0, i < seq.n), e.t.arg(1) == i)) if ok else z3.BoolVal(False),
                        kind="ensures", meta={"clause": "rows"}, assume_after=False)

    cmdspec.check_exit = check_exit
    try:
        recs = verify_execute(eng, ci, spec)
    finally:
        cmdspec.check_exit = orig_exit
    return [r for r in recs], [dict(fi.describe(), verified_for_class="EEMSWrite (csv)")]


def verify(repo, which):
    if which != "csv":
        from . import ncprops

        return ncprops.verify(repo)
    out, fns = [], []
    for f, label in ((verify_csv_read, "EEMSRead"), (verify_csv_write, "EEMSWrite")):
        try:
            r, fn = f(repo)
            out += r
            fns += fn
        except Unsupported as e:
            out.append({"name": "%s::%s.execute/supported" % (CSVIO, label), "status": "unknown", "backend": "engine", "time_s": 0, "clause": "supported",
                        "function": "%s::%s.execute" % (CSVIO, label), "reason": "unsupported construct: %s" % e})
    return out, fns
