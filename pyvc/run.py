"""./check entry point: `python3-vt -m pyvc.run <ID> [--tier quick|thorough] [--replay path]`."""
import argparse
import json
import os
import sys
import time

from . import cmdprops, registry, replay, spec as S
from .extract import Repo, REPO
from .report import Report, HERE

TRUSTED_MA = [
    "assumed contracts of numpy / numpy.ma 1.26 (pyvc/ma.py; list in DESIGN 4.2), incl. A-NOBROADCAST and A-NOMASK",
    "assumed contracts of Python builtins used by the bodies (pyvc/builtins_model.py): len, sum, reduce, zip, enumerate, sorted, set, float, dict/list methods",
    "A-NUMPY-VERSION: the numpy>=1.10 branch is the live one",
    "A-ALIAS: distinct input positions are treated as distinct array objects (justified by the frame obligations of C09)",
    "statistics (min/max/mean/std) are uninterpreted functions of the valid view with the axioms of DESIGN 4.2; commands that use them are verified for inputs with at least one valid cell",
]


def command_property(prop, tier, seed, selkey=None, level="proof"):
    root = REPO
    repo = Repo(root)
    SPECS, classes = registry.load(repo)
    names, clauses = cmdprops.SELECT[selkey or prop]
    if names == "fuzzy":
        names = cmdprops.fuzzy_commands(repo, classes)
    rep = Report(prop, tier, seed, level, "./check %s --tier %s" % (prop, tier))
    rep.trusted = list(TRUSTED_MA)
    helpers = ["helper:" + h for h in cmdprops.HELPERS_FOR.get(prop, [])]
    clauses = set(clauses) | {"helper"}
    results = cmdprops.verify_commands(list(names) + helpers, root)
    pending = []  # (obligation record, command, case)
    for out in results:
        cmd = out["command"]
        if out["error"]:
            rep.errors.append("%s: %s" % (cmd, out["error"]))
            continue
        if out["function"]:
            rep.functions.append(out["function"])
        selected = [r for r in out["records"] if r["clause"] in clauses or r["clause"] == "cover"]
        for r in selected:
            o = rep.add_vc(r["name"], r["status"], r.get("function"), r["clause"], r.get("backend"), r.get("time_s", 0),
                           detail={"trail": r.get("trail"), "goal": r.get("goal"), "reason": r.get("reason")})
            if r["status"] == "sat":
                pending.append((r, cmd, r.get("case")))
            elif r["status"] != "unsat":
                rep.undecided.append({"obligation": r["name"], "reason": r.get("reason") or "solver returned unknown"})
        if out["unsupported"]:
            # a construct outside the subset: every obligation of this function is undecided (never a pass)
            rep.undecided.append({"obligation": "%s.execute/*" % cmd, "reason": "unsupported construct: %s" % out["unsupported"]})
        for r in selected[:1]:
            rep.samples.append({"obligation": r["name"], "clause": r["clause"], "goal": r.get("goal"), "verdict": r["status"],
                                "backend": r.get("backend"), "time_s": r.get("time_s")})
    if prop in ("C06", "C07"):
        # the statement's last sentence: the algebra of the operators, as lemmas over the spec functions proved above
        try:
            from . import algebra

            for r in (algebra.lemmas(repo) if prop == "C06" else algebra.arith_lemmas(repo)):
                rep.add_vc(r["name"], r["status"], r["function"], r["clause"], r["backend"], r["time_s"], detail={"goal": r.get("goal"), "reason": r.get("reason")})
                if r["status"] == "sat":
                    rep.violations.append({"obligation": r["name"], "how": "lemma refuted", "detail": {"goal": r.get("goal")}, "confirmed": False})
                elif r["status"] != "unsat":
                    rep.undecided.append({"obligation": r["name"], "reason": r.get("reason")})
        except Exception as e:
            rep.errors.append("algebra lemmas: %s: %s" % (type(e).__name__, e))
    # ---- counter-models: replay on the real code
    tasks = [(cmd, case) for (r, cmd, case) in pending if case is not None]
    evals = cmdprops.evaluate_cases(tasks, root) if tasks else []
    it = iter(evals)
    for (r, cmd, case) in pending:
        v = {"obligation": r["name"], "function": r.get("function"), "how": "counter-model", "case": case,
             "detail": {"trail": r.get("trail"), "goal": r.get("goal")}, "solver_output": "sat (%s)" % r.get("backend"),
             "confirmed": False}
        if case is not None:
            e, o, bad = next(it)
            v["real"], v["expected"] = o, e
            if bad is None:
                v["detail"]["replay"] = "counter-model is outside the spec's admissible inputs after concretisation: %s" % e.get("note")
            else:
                relevant = [b for b in bad if b[0] in clauses or b[0] in ("raises_only", "raises")]
                v["violated"] = [b[0] for b in bad]
                v["violated_detail"] = bad
                if any(b[0] == "checker-error" for b in bad):
                    rep.errors.append("%s: %s" % (r["name"], bad))
                v["confirmed"] = bool(relevant) or bool(bad)
        else:
            v["detail"]["replay"] = r.get("case_error", "no concrete input could be derived from the counter-model")
        rep.violations.append(v)
    # ---- bounded battery: same contracts evaluated on enumerated concrete inputs against the real code
    do_battery = tier == "thorough" or os.environ.get("PYVC_BATTERY", "1") == "1"
    if do_battery:
        btasks = []
        undecided_cmds = set()
        helper_undecided = False
        for out in results:
            if out.get("unsupported") or any(r["status"] not in ("unsat", "sat") for r in out["records"]):
                if out.get("helper"):
                    helper_undecided = True
                else:
                    undecided_cmds.add(out["command"])
        for n in names:
            if n in classes and n in SPECS:
                # a command whose proof is undecided gets the larger, more varied concrete search
                focus = (n in undecided_cmds) or helper_undecided or tier == "thorough"
                for c in cmdprops.battery(repo, classes, n, tier, seed, focus=focus and (tier == "thorough" or n in undecided_cmds or helper_undecided)):
                    btasks.append((n, c))
        t0 = time.time()
        bev = cmdprops.evaluate_cases(btasks, root)
        nontrivial, fails, inadm = set(), 0, 0
        for (n, c), (e, o, bad) in zip(btasks, bev):
            if bad is None:
                inadm += 1
                if e.get("inconsistent"):
                    rep.errors.append("axioms inconsistent on a concrete instance of %s: %s" % (n, e.get("note")))
                continue
            nontrivial.add(json.dumps([n, c["inputs"], c["params"], c["shape"]], sort_keys=True, default=str))
            rel = [b for b in bad if b[0] in clauses or (b[0] in ("raises", "raises_only") and ("raises" in clauses))]
            if any(b[0] in ("checker-error", "harness-error") for b in bad):
                rep.errors.append("battery %s: %s" % (n, bad[:1]))
                continue
            if rel:
                fails += 1
                rep.violations.append({"obligation": "%s::%s.execute/bounded:%s" % (classes[n].module.relpath, n, rel[0][0]),
                                       "function": "%s::%s.execute" % (classes[n].module.relpath, n), "how": "bounded-concrete",
                                       "case": c, "real": o, "expected": e, "violated": [b[0] for b in bad], "violated_detail": bad,
                                       "confirmed": True, "detail": {"note": "enumerated concrete input on which the real code violates the contract"}})
        rep.bounded = {"label": "bounded (never counted as proved)", "evaluations": len(btasks), "distinct_nontrivial": len(nontrivial),
                       "inadmissible_skipped": inadm, "failures": fails, "wall_s": round(time.time() - t0, 1),
                       "focused_on": sorted(undecided_cmds),
                       "rule": "per command 16 (quick) / 300 (thorough, or when the command's proof is undecided) generated cases: <=8 cells, "
                               "rank 1-3, both dtypes, 1-5 inputs, none/same/staggered/random masks with loud or colliding payload, "
                               "mixed shapes, parameter grids incl. out-of-range and absent optionals; a case is non-trivial if it is "
                               "inside the spec's admissible inputs; distinct by full input"}

    if prop in ("C09", "C02"):
        # a produced result survives every consumer (chains over the real commands, single- and two-input forms, the CSV writer)
        t1 = time.time()
        icases = cmdprops.immutability_cases(repo, classes, tier, seed)
        iouts = replay.run_real(icases, repo_root=root)
        ifails = 0
        for c, o in zip(icases, iouts):
            bad = cmdprops.judge_immutability(c, o)
            if any(b[0] == "harness-error" for b in bad):
                rep.errors.append("immutability battery: %s" % (bad[0][1],))
            elif bad:
                ifails += 1
                rep.violations.append({"obligation": "%s::%s.execute/bounded:result-survives-consumers" % (classes[c["class"]].module.relpath, c["class"]),
                                       "function": "consumers of the result of %s" % c["class"], "how": "bounded-concrete", "case": c, "real": o.get("then"),
                                       "violated": ["frame"], "violated_detail": bad, "confirmed": True})
        part = {"name": "result-survives-consumers", "evaluations": sum(len((o.get("then") or {}).get("chain", [])) for o in iouts), "distinct_nontrivial": len(icases),
                "failures": ifails, "wall_s": round(time.time() - t1, 1),
                "rule": "every data command as producer (battery inputs incl. out-of-range parameters) followed, in random order, by every command that can take its "
                        "result (unary, single-input and two-input forms of the n-ary ones with weights 1 and 3, the CSV writer); the result is compared after each consumer"}
        prev = rep.bounded
        if prev:
            rep.bounded = dict(prev, parts=[dict(prev, name="per-command"), part], evaluations=prev.get("evaluations", 0) + part["evaluations"],
                               distinct_nontrivial=prev.get("distinct_nontrivial", 0) + part["distinct_nontrivial"], failures=prev.get("failures", 0) + ifails)
        else:
            rep.bounded = dict(part, label="bounded (never counted as proved)")
    if prop == "C05":
        # `exactly the shape of its inputs`: inputs of different shapes (also differing only by length-1 axes) leave no admissible result but a rejection
        t1 = time.time()
        scases = cmdprops.shape_confusion_cases(repo, classes, [n for n in cmdprops.ALL_DATA if n in classes], tier, seed)
        souts = replay.run_real(scases, repo_root=root)
        sfails = 0
        for c, o in zip(scases, souts):
            bad = cmdprops.judge_shape_confusion(c, o)
            if any(b[0] == "harness-error" for b in bad):
                rep.errors.append("shape battery: %s" % (bad[0][1],))
            elif bad:
                sfails += 1
                rep.violations.append({"obligation": "%s::%s.execute/bounded:shape-of-every-input" % (classes[c["class"]].module.relpath, c["class"]),
                                       "function": "%s::%s.execute" % (classes[c["class"]].module.relpath, c["class"]), "how": "bounded-concrete", "case": c,
                                       "real": o.get("result"), "violated": ["shape"], "violated_detail": bad, "confirmed": True})
        part = {"name": "shape-of-every-input", "evaluations": len(scases), "distinct_nontrivial": len(scases), "failures": sfails, "wall_s": round(time.time() - t1, 1),
                "rule": "every command with two or more data inputs, 12 pairs of different shapes in both roles (length-1 axes added or dropped, transposed, reshaped, "
                        "different sizes): it raises or its result has the shape of every input"}
        prev = rep.bounded
        if prev:
            rep.bounded = dict(prev, parts=(prev.get("parts") or [dict(prev, name="per-command")]) + [part], evaluations=prev.get("evaluations", 0) + part["evaluations"],
                               distinct_nontrivial=prev.get("distinct_nontrivial", 0) + part["distinct_nontrivial"], failures=prev.get("failures", 0) + sfails)
        else:
            rep.bounded = dict(part, label="bounded (never counted as proved)")
    if prop in ("C06", "C07"):
        # `results are invariant under reordering of inputs`, on the real commands over shared input objects (the lemmas above prove it of the contracts)
        t1 = time.time()
        names_r = cmdprops.FUZZY_OPERATORS if prop == "C06" else cmdprops.ARITH
        rcases = cmdprops.reorder_cases(repo, classes, [n for n in names_r if n in classes], tier, seed)
        routs = replay.run_real(rcases, repo_root=root)
        rfails = 0
        for c, o in zip(rcases, routs):
            bad = cmdprops.judge_reorder(c, o)
            if any(b[0] == "harness-error" for b in bad):
                rep.errors.append("reorder battery: %s" % (bad[0][1],))
            elif bad:
                rfails += 1
                rep.violations.append({"obligation": "%s::%s.execute/bounded:order-of-inputs" % (classes[c["class"]].module.relpath, c["class"]),
                                       "function": "%s::%s.execute" % (classes[c["class"]].module.relpath, c["class"]), "how": "bounded-concrete", "case": c,
                                       "real": {"listed": o.get("result"), "reordered": o.get("reordered")}, "violated": [b[0] for b in bad], "violated_detail": bad, "confirmed": True})
        part = {"name": "order-of-inputs", "evaluations": 2 * len(rcases), "distinct_nontrivial": len(rcases), "failures": rfails, "wall_s": round(time.time() - t1, 1),
                "rule": "every list-input command over shared input objects (2-5 layers, same shapes), evaluated in the listed order and in a random or reversed "
                        "permutation with the weights moved along (first weight 1 in every other case); shape, missing cells and values (rel. 1e-9) must agree"}
        prev = rep.bounded
        if prev:
            rep.bounded = dict(prev, parts=(prev.get("parts") or [dict(prev, name="per-command")]) + [part], evaluations=prev.get("evaluations", 0) + part["evaluations"],
                               distinct_nontrivial=prev.get("distinct_nontrivial", 0) + part["distinct_nontrivial"], failures=prev.get("failures", 0) + rfails)
        else:
            rep.bounded = dict(part, label="bounded (never counted as proved)")
    if prop == "C09":
        # a consumer that rejects its inputs (different shapes) is a consumer too: the results it was given stay as they were, shape included
        t1 = time.time()
        scases = cmdprops.shape_confusion_cases(repo, classes, [n for n in cmdprops.ALL_DATA if n in classes], tier, seed)
        souts = replay.run_real(scases, repo_root=root)
        sfails = 0
        for c, o in zip(scases, souts):
            if o.get("outcome") == "harness-error":
                rep.errors.append("shape/frame battery: %s" % (o.get("error", "")[-300:],))
            elif o.get("inputs_after") != o.get("inputs_before"):
                sfails += 1
                rep.violations.append({"obligation": "%s::%s.execute/bounded:inputs-unchanged-when-rejected" % (classes[c["class"]].module.relpath, c["class"]),
                                       "function": "%s::%s.execute" % (classes[c["class"]].module.relpath, c["class"]), "how": "bounded-concrete", "case": c,
                                       "real": {"before": o.get("inputs_before"), "after": o.get("inputs_after")}, "violated": ["frame"], "confirmed": True})
        part = {"name": "inputs-unchanged-when-rejected", "evaluations": len(scases), "distinct_nontrivial": len(scases), "failures": sfails, "wall_s": round(time.time() - t1, 1),
                "rule": "every command with two or more data inputs on 12 pairs of different shapes (both roles): kind, element type, shape, missing cells and values of every input are compared before and after"}
        prev = rep.bounded
        if prev:
            rep.bounded = dict(prev, parts=(prev.get("parts") or [dict(prev, name="per-command")]) + [part], evaluations=prev.get("evaluations", 0) + part["evaluations"],
                               distinct_nontrivial=prev.get("distinct_nontrivial", 0) + part["distinct_nontrivial"], failures=prev.get("failures", 0) + sfails)
        else:
            rep.bounded = dict(part, label="bounded (never counted as proved)")
        # the writers are consumers too: their frame obligations (proved on the real bodies) belong to this property
        try:
            from . import ioprops, loadrun

            for which in ("csv", "netcdf"):
                recs_io, fns_io = ioprops.verify(repo, which)
                rep.functions += fns_io
                loadrun.add_records(rep, [loadrun._strip(r) for r in recs_io if "EEMSWrite" in r.get("name", "")], {"frame", "invariant"})
        except Exception as e:
            rep.errors.append("I/O writers: %s: %s" % (type(e).__name__, e))
        # ... and on real files: writing one or several results (with different missing cells) leaves each of them as it was
        from . import iocases

        # the readers produce results too: one read earlier stays as it was when the same column / variable is read again with other options
        rc = iocases.reread_cases()
        ro = iocases.run_real(rc, root)
        rf = 0
        for c, o in zip(rc, ro):
            bad = iocases.judge_reread(c, o)
            if any(b[0] == "harness-error" for b in bad):
                rep.errors.append("reread battery: %s" % bad[0][1])
            elif bad:
                rf += 1
                rep.violations.append({"obligation": "mpilot/libraries/eems/%s/io.py::EEMSRead.execute/bounded:result-survives-later-reads" % ("csv" if c["kind"].startswith("csv") else "netcdf"),
                                       "function": "EEMSRead.execute", "how": "bounded-concrete", "case": c, "real": o, "violated": ["frame"], "violated_detail": bad, "confirmed": True})
        rpart = {"name": "result-survives-later-reads", "evaluations": sum(len(c["then"]) for c in rc), "distinct_nontrivial": len(rc), "failures": rf,
                 "rule": "a column / variable read once and kept, then read again with every other combination of missing value, element type and fuzzy clamp (CSV and NetCDF)"}
        prev = rep.bounded
        rep.bounded = dict(prev, parts=(prev.get("parts") or [dict(prev, name="per-command")]) + [rpart], evaluations=prev.get("evaluations", 0) + rpart["evaluations"],
                           distinct_nontrivial=prev.get("distinct_nontrivial", 0) + rpart["distinct_nontrivial"], failures=prev.get("failures", 0) + rf) if prev else dict(rpart, label="bounded (never counted as proved)")
        wc = [c for c in iocases.csv_cases(tier, seed) if c["kind"] == "csv_roundtrip"] + [c for c in iocases.nc_cases(tier, seed) if c["kind"] == "nc_roundtrip"]
        wo = iocases.run_real(wc, root)
        wf = 0
        for c, o in zip(wc, wo):
            if "harness_error" in o:
                rep.errors.append("writer battery: %s" % o["harness_error"][-300:])
            elif o.get("inputs_after") != o.get("inputs_before"):
                wf += 1
                rep.violations.append({"obligation": "mpilot/libraries/eems/%s/io.py::EEMSWrite.execute/bounded:inputs-unchanged" % ("csv" if c["kind"].startswith("csv") else "netcdf"),
                                       "function": "EEMSWrite.execute", "how": "bounded-concrete", "case": c, "real": {"before": o.get("inputs_before"), "after": o.get("inputs_after")},
                                       "violated": ["frame"], "confirmed": True})
        rep.bounded = dict(rep.bounded, parts=list(rep.bounded.get("parts", [])) + [{"name": "writers-leave-inputs-unchanged", "evaluations": len(wc), "distinct_nontrivial": len(wc),
                                                                                     "failures": wf}],
                           evaluations=rep.bounded.get("evaluations", 0) + len(wc), failures=rep.bounded.get("failures", 0) + wf)

    def rerun(w):
        if not w or w.get("kind") != "command-case":
            return None
        (e, o, bad) = cmdprops.evaluate_cases([(w["command"], w["case"])], root)[0]
        return [b[0] for b in (bad or [])]

    rep.rerun_witness = rerun
    return rep


def do_replay(prop, path):
    p = path if os.path.isabs(path) else os.path.join(HERE, path)
    body = json.load(open(p))
    case = body.get("concrete_input")
    if not case:
        print("replay file carries no concrete input (obligation %s): %s" % (body.get("obligation"), body.get("solver_output")))
        return 2
    cmd = case["class"]
    (e, o, bad) = cmdprops.evaluate_cases([(cmd, case)], REPO)[0]
    print(json.dumps({"expected": e, "real": o, "violated": bad}, indent=1, default=str)[:4000])
    if bad:
        print("VIOLATION property=%s replay=%s" % (prop, path))
        return 1
    return 0


def main(argv=None):
    ap = argparse.ArgumentParser()
    ap.add_argument("prop")
    ap.add_argument("--tier", default=os.environ.get("VERIF_TIER", "quick"))
    ap.add_argument("--replay")
    ap.add_argument("--record-ledger", action="store_true", help="(development) record the discharged obligations of the unchanged tree")
    a = ap.parse_args(argv)
    seed = int(os.environ.get("VERIF_SEED", "0") or 0)
    os.environ.setdefault("PYVC_WORK", replay.workdir())
    from . import props

    if a.replay:
        return props.replay(a.prop, a.replay)
    rep = props.run(a.prop, a.tier, seed)
    return rep.finish(record_ledger=a.record_ledger)


if __name__ == "__main__":
    try:
        sys.exit(main())
    except SystemExit:
        raise
    except Exception:
        import traceback

        traceback.print_exc()
        print("CHECKER-ERROR internal exception")
        sys.exit(3)


# =========================================================================== parameter cleaners (C20, part of C13/C11)
def _verify_param(args):
    name, root = args
    from . import paramprops, paramcases, smt
    from .engine import Engine
    from .values import Unsupported

    t0 = time.time()
    repo = Repo(root)
    registry.load(repo)
    out = {"command": name, "records": [], "error": None, "unsupported": None, "function": None}
    cis = [c for c in paramprops.param_classes(repo) if c.name == name]
    if not cis:
        out["error"] = "parameter class %s not found" % name
        return out
    ci = cis[0]
    fi = repo.find_method(ci, "clean")
    out["function"] = dict(fi.describe(), verified_for_class=name)
    eng = Engine(repo, S.CONTRACTS, S.LOOPS)
    try:
        paramprops.verify_cleaner(eng, ci)
    except Unsupported as e:
        out["unsupported"] = str(e)
    except Exception as e:
        import traceback

        out["error"] = "%s: %s\n%s" % (type(e).__name__, e, traceback.format_exc()[-1500:])
    for r in eng.results:
        rec = {k: v for k, v in r.items() if k not in ("model_obj", "state")}
        rec.setdefault("clause", r.get("kind"))
        if r["status"] == "sat" and "model_obj" in r:
            try:
                rec["case"] = paramcases.concretize(eng.psetup, r["model_obj"], name)
            except Exception as e:
                rec["case_error"] = "%s: %s" % (type(e).__name__, e)
        out["records"].append(rec)
    out["wall_s"] = round(time.time() - t0, 2)
    return out


PARAM_CLAUSES = {
    "C20": {"typed", "deterministic", "idempotent", "pure", "raises_only", "cover"},
    "C13": {"raises_only", "str", "cover"},
    "C12": {"typed", "cover"},
    "C01": {"pure", "cover"},
    "C02": {"pure", "cover"},
    "C11": {"lineno", "cover"},
}


def param_part(rep, prop, tier, seed, clauses=None):
    """adds the cleaner obligations selected for `prop` to the report"""
    from concurrent.futures import ProcessPoolExecutor
    from . import paramprops, paramcases

    root = REPO
    repo = Repo(root)
    clauses = clauses or PARAM_CLAUSES[prop]
    names = [c.name for c in paramprops.param_classes(repo)]
    with ProcessPoolExecutor(max_workers=min(16, len(names))) as ex:
        results = list(ex.map(_verify_param, [(n, root) for n in names]))
    pending = []
    for out in results:
        if out["error"]:
            rep.errors.append("%s: %s" % (out["command"], out["error"]))
            continue
        rep.functions.append(out["function"])
        sel = [r for r in out["records"] if r.get("clause") in clauses]
        for r in sel:
            rep.add_vc(r["name"], r["status"], r.get("function"), r.get("clause"), r.get("backend"), r.get("time_s", 0),
                       detail={"trail": r.get("trail"), "goal": r.get("goal"), "reason": r.get("reason")})
            if r["status"] == "sat":
                pending.append((r, out["command"]))
            elif r["status"] != "unsat":
                rep.undecided.append({"obligation": r["name"], "reason": r.get("reason") or "solver returned unknown"})
        if out["unsupported"]:
            rep.undecided.append({"obligation": "%s.clean/*" % out["command"], "reason": "unsupported construct: %s" % out["unsupported"]})
        for r in sel[:1]:
            rep.samples.append({"obligation": r["name"], "clause": r.get("clause"), "goal": r.get("goal"), "verdict": r["status"]})
    cases = [r.get("case") for r, _ in pending if r.get("case")]
    outs = paramcases.run_real(cases, root) if cases else []
    it = iter(outs)
    for r, cmd in pending:
        v = {"obligation": r["name"], "function": r.get("function"), "how": "counter-model", "case": r.get("case"),
             "detail": {"trail": r.get("trail"), "goal": r.get("goal")}, "solver_output": "sat (%s)" % r.get("backend"), "confirmed": False}
        if r.get("case"):
            o = next(it)
            bad = paramcases.violated(r["case"], o)
            v["real"] = o
            v["violated"] = [b[0] for b in bad]
            v["violated_detail"] = bad
            v["confirmed"] = any(b[0] in clauses for b in bad)
        rep.violations.append(v)
    # bounded battery over the value alphabet (labelled bounded)
    t0 = time.time()
    bcases = paramcases.battery(names, tier, seed)
    bouts = paramcases.run_real(bcases, root)
    distinct, fails = set(), 0
    for c, o in zip(bcases, bouts):
        distinct.add(json.dumps([c["cls"], c["ctor"], c["value"], c.get("working_dir")], sort_keys=True))
        bad = [b for b in paramcases.violated(c, o)]
        if any(b[0] == "harness-error" for b in bad):
            rep.errors.append("cleaner battery: %s" % (bad[0][1],))
            continue
        rel = [b for b in bad if b[0] in clauses]
        if rel:
            fails += 1
            rep.violations.append({"obligation": "mpilot/params.py::%s.clean/bounded:%s" % (c["cls"], rel[0][0]),
                                   "function": "mpilot/params.py::%s.clean" % c["cls"], "how": "bounded-concrete", "case": c, "real": o,
                                   "violated": [b[0] for b in bad], "violated_detail": bad, "confirmed": True})
    b = {"label": "bounded (never counted as proved)", "evaluations": len(bcases), "distinct_nontrivial": len(distinct), "failures": fails,
         "wall_s": round(time.time() - t0, 1),
         "rule": "every parameter class x its configurations x a 51-value alphabet covering every kind the parser/API can deliver "
                 "(ints, floats, bools, string forms, lists, nested lists, dicts, types, commands, arguments, arrays); each case cleans "
                 "twice, cleans the result again and compares the raw value before/after; distinct by (class, config, value)"}
    if rep.bounded is None:
        rep.bounded = b
    else:
        rep.bounded = {"parts": [rep.bounded, b], "evaluations": rep.bounded.get("evaluations", 0) + b["evaluations"],
                       "distinct_nontrivial": rep.bounded.get("distinct_nontrivial", 0) + b["distinct_nontrivial"], "rule": "see parts"}

    def rerun(w):
        if not w or w.get("kind") != "clean-case":
            return None
        o = paramcases.run_real([w["case"]], root)[0]
        return [b[0] for b in paramcases.violated(w["case"], o)]

    prev = rep.rerun_witness

    def both(w):
        r = rerun(w)
        if r is None and prev is not None:
            return prev(w)
        return r

    rep.rerun_witness = both
    return rep


def param_property(prop, tier, seed):
    rep = Report(prop, tier, seed, "proof", "./check %s --tier %s" % (prop, tier))
    rep.trusted = ["assumed contracts of Python builtins over the dynamic-value datatype (pyvc/dyn.py, builtins_model.py): int(), float(), "
                   "str(), bool(), isinstance, os.path.isabs/join/exists (pure), dict lookup (KeyError / TypeError for unhashable keys)",
                   "A-TUPLE: tuples are not a separate value constructor",
                   "behavioural contract assumed for sub-parameters (value_type/output_type): raises only the parameter-error family, "
                   "deterministic, idempotent, never returns an Argument (proved for each of the ten classes = induction on the parameter structure)",
                   "class invariants of parameter objects: is_fuzzy in {None, True, False}; output_type is None or a Parameter; value_type is a Parameter"]
    param_part(rep, prop, tier, seed)
    return rep


# =========================================================================== C01 / C14: heap-level contracts
def _verify_heap(args):
    which, root = args
    from . import heapprops, smt
    from .engine import Engine
    from .values import Unsupported

    t0 = time.time()
    repo = Repo(root)
    registry.load(repo)
    eng = Engine(repo, S.CONTRACTS, S.LOOPS)
    keys = {"run": "mpilot/commands.py::Command.run", "result": "mpilot/commands.py::Command.result",
            "validate": "mpilot/commands.py::Command.validate_params", "program": "mpilot/program.py::Program.run",
            "rerun": "mpilot/program.py::Program.run"}
    out = {"command": which, "records": [], "error": None, "unsupported": None,
           "function": repo.func(keys[which]).describe() if repo.has_func(keys[which]) else None}
    try:
        if which in ("run", "result"):
            heapprops.verify_command_run(eng, which)
        elif which == "validate":
            heapprops.verify_validate_params(eng)
        else:
            heapprops.verify_program_run(eng, rerun=(which == "rerun"))
    except Unsupported as e:
        out["unsupported"] = str(e)
    except Exception as e:
        import traceback

        out["error"] = "%s: %s\n%s" % (type(e).__name__, e, traceback.format_exc()[-1500:])
    for r in eng.results:
        rec = {k: v for k, v in r.items() if k not in ("model_obj", "state")}
        rec.setdefault("clause", r.get("kind"))
        out["records"].append(rec)
    out["wall_s"] = round(time.time() - t0, 2)
    return out


def lemma_records():
    """pure lemmas over the heap contracts"""
    import z3
    from . import heapprops as H, smt
    from .engine import Engine

    recs = []
    smt.QUANT["on"] = True
    eng = Engine(Repo(REPO), {}, {})
    h = H.Heap.fresh("lem")
    inv = H.Inv(eng, h)

    def add(name, hyps, goal, clause):
        v = smt.check(hyps, goal)
        recs.append({"name": name, "status": v.status, "backend": v.backend, "time_s": round(v.time_s, 3), "clause": clause,
                     "function": "lemma over the contracts of Command.run / Program.run", "goal": str(goal)[:300], "reason": v.reason})

    c = z3.Int("lc")
    allfin = z3.ForAll([c], z3.Implies(H.IS_COMMAND(c), h.fin(eng, c)))
    # RANK: when every command is finished, the finishing timestamps are a strict rank of the reference graph
    a, b = z3.Ints("la lb")
    add("lemma/RANK: Inv and all finished => ts is a strict rank of refs", [inv, allfin, H.IS_COMMAND(a), H.REFS(a, b)], h.ts(b) < h.ts(a), "acyclic")
    # hence no reference cycle of length 1..5 among commands (the property's range), i.e. a cyclic model never ends all-finished
    for k in range(1, 6):
        xs = [z3.Int("cy%d" % i) for i in range(k)]
        cyc = [H.IS_COMMAND(x) for x in xs] + [H.REFS(xs[i], xs[(i + 1) % k]) for i in range(k)]
        add("lemma/NO-CYCLE-%d: Inv and all finished => no reference cycle of length %d" % (k, k), [inv, allfin] + cyc, z3.BoolVal(False), "acyclic")
    # ONCE: at a quiescent heap (nothing running) finished <=> executed exactly once, unfinished <=> never executed
    add("lemma/ONCE: Inv, nothing running => cnt is 1 on finished and 0 on unfinished commands",
        [inv, H.IS_COMMAND(a), z3.Not(h.running(eng, a))], z3.And(z3.Implies(h.fin(eng, a), h.cnt(a) == 1), z3.Implies(z3.Not(h.fin(eng, a)), h.cnt(a) == 0)), "once")
    # vacuity: the invariant is satisfiable together with a finished and an unfinished command
    s = z3.Solver()
    s.set("rlimit", 8000000)
    s.add(inv, H.IS_COMMAND(a), H.IS_COMMAND(b), h.fin(eng, a), z3.Not(h.fin(eng, b)), a != b)
    r = s.check()
    recs.append({"name": "vacuity/Inv-satisfiable", "status": "unsat" if str(r) in ("sat", "unknown") else "sat", "backend": "z3",
                 "time_s": 0, "clause": "cover", "function": "heap invariant", "goal": "Inv has a model with finished and unfinished commands (%s)" % r})
    smt.QUANT["on"] = False
    return recs


def heap_property(prop, tier, seed):
    from concurrent.futures import ProcessPoolExecutor
    from . import progcases, heapprops

    root = REPO
    rep = Report(prop, tier, seed, "proof", "./check %s --tier %s" % (prop, tier))
    rep.ledger_promote = True
    rep.trusted = [
        "plugin contract of Command.execute (assumed for third-party plugins; for the built-ins it rests on touches-all-refs and on `.result` being the only call that reaches other commands): requires Inv, unfinished, running; ensures Inv, Mono, every referenced command finished",
        heapprops.CLASS_INV_NOTE,
        "behavioural contract of Parameter.clean (pure, raises only the parameter-error family): proved per class under C20",
        "A-LOCALS: operations on freshly created local list/dict/set objects with hashable keys raise nothing and have no effect outside them",
        "ghost state: cnt(c) counts completed executions (incremented at execute's normal return), ts/clock are finishing timestamps",
        "A-REC: recursion depth is not modelled (bounded by the number of commands: re-entering a running command raises at once)",
    ]
    which = ["run", "result", "validate", "program", "rerun"]
    with ProcessPoolExecutor(max_workers=5) as ex:
        results = list(ex.map(_verify_heap, [(w, root) for w in which]))
    for out in results:
        if out["error"]:
            rep.errors.append("%s: %s" % (out["command"], out["error"]))
            continue
        if out["function"]:
            rep.functions.append(out["function"])
        for r in out["records"]:
            rep.add_vc(r["name"], r["status"], r.get("function"), r.get("clause"), r.get("backend"), r.get("time_s", 0),
                       detail={"trail": r.get("trail"), "goal": r.get("goal"), "reason": r.get("reason")})
            if r["status"] == "sat":
                rep.violations.append({"obligation": r["name"], "function": r.get("function"), "how": "counter-model (quantified heap; not concretised)",
                                       "detail": {"trail": r.get("trail"), "goal": r.get("goal")}, "solver_output": "sat (%s)" % r.get("backend"), "confirmed": False})
            elif r["status"] != "unsat":
                rep.undecided.append({"obligation": r["name"], "reason": r.get("reason") or "unknown"})
        if out["unsupported"]:
            rep.undecided.append({"obligation": "%s/*" % out["command"], "reason": "unsupported construct: %s" % out["unsupported"]})
        for r in out["records"][:1]:
            rep.samples.append({"obligation": r["name"], "clause": r.get("clause"), "goal": r.get("goal"), "verdict": r["status"]})
    for r in lemma_records():
        rep.add_vc(r["name"], r["status"], r["function"], r["clause"], r["backend"], r["time_s"], detail={"goal": r["goal"]})
        if r["status"] == "sat":
            rep.violations.append({"obligation": r["name"], "how": "lemma refuted", "detail": {"goal": r["goal"]}, "confirmed": False})
        elif r["status"] != "unsat":
            rep.undecided.append({"obligation": r["name"], "reason": r.get("reason")})
    if prop == "C01":
        # finished results never change: validation (Parameter.clean) is part of every later consumer's run and must leave the program alone
        param_part(rep, "C01", tier, seed)
    # class invariant CI-FUZZY used by the heap contracts: `is_fuzzy` of a command is data (a class attribute), never code
    from .decl import command_classes
    _repo = Repo(root)
    for ci in command_classes(_repo):
        fi_ = _repo.find_method(ci, "is_fuzzy")
        ok_ = fi_ is None
        rep.add_vc("%s::%s/CI-FUZZY: is_fuzzy is a class attribute, not a method or property" % (ci.module.relpath, ci.name), "unsat" if ok_ else "sat",
                   "%s::%s" % (ci.module.relpath, ci.name), "inv", "extractor", 0)
        if not ok_:
            rep.violations.append({"obligation": "%s::%s/CI-FUZZY: is_fuzzy is a class attribute, not a method or property" % (ci.module.relpath, ci.name),
                                   "how": "syntactic (class invariant assumed by the contracts of Command.run / ResultParameter.clean)", "confirmed": False,
                                   "detail": {"goal": "reading is_fuzzy runs %s" % fi_.key}})
    if prop in ("C01", "C14"):
        # the initial state the invariants start from: a new command is neither finished nor running and holds what it was given
        try:
            from . import loadprops, loadrun

            irecs, ifns = loadprops.verify_command_init(Repo(root))
            rep.functions += ifns
            loadrun.add_records(rep, [loadrun._strip(r) for r in irecs], None)
        except Exception as e:
            rep.errors.append("Command.__init__: %s: %s" % (type(e).__name__, e))
    if prop in ("C01", "C14"):
        # touches-all-refs of the built-in execute bodies (the part of the plugin contract that is proved); for C14 this is what makes a
        # cycle of references a cycle of *calls*: a reference that execute does not follow cannot meet a running command
        repo = Repo(root)
        SPECS, classes = registry.load(repo)
        names, clauses = cmdprops.SELECT["C01cmd"]
        for out in cmdprops.verify_commands(list(names), root):
            if out["error"]:
                rep.errors.append("%s: %s" % (out["command"], out["error"]))
                continue
            rep.functions.append(out["function"])
            for r in out["records"]:
                if r["clause"] in clauses:
                    rep.add_vc(r["name"], r["status"], r.get("function"), r["clause"], r.get("backend"), r.get("time_s", 0), detail={"trail": r.get("trail")})
                    if r["status"] != "unsat":
                        rep.violations.append({"obligation": r["name"], "how": "event-log", "detail": {"trail": r.get("trail")}, "confirmed": False})
            if out["unsupported"]:
                rep.undecided.append({"obligation": "%s.execute/*" % out["command"], "reason": "unsupported construct: %s" % out["unsupported"]})
    # ---- bounded: every small graph on the real code
    t0 = time.time()
    cases = progcases.graph_cases(3 if tier == "quick" else 4, tier, seed)
    outs = progcases.run_real(cases, root)
    want = {"C01": {"once", "memo", "finished", "all-finished", "raises_only"}, "C14": {"reentrancy", "all-finished"}}[prop]
    distinct, fails = set(), 0
    for c, o in zip(cases, outs):
        if (prop == "C01") == c["meta"]["cyclic"] and prop == "C01":
            continue
        if prop == "C14" and not c["meta"]["cyclic"]:
            continue
        distinct.add(json.dumps([c["commands"], c["mode"]], sort_keys=True))
        bad = progcases.judge_graph(c, o)
        if any(b[0] in ("harness-error", "load") for b in bad):
            rep.errors.append("graph battery: %s" % (bad[0],))
            continue
        rel = [b for b in bad if b[0] in want]
        if rel:
            fails += 1
            rep.violations.append({"obligation": "mpilot/program.py::Program.run/bounded:%s" % rel[0][0], "function": "mpilot/program.py::Program.run",
                                   "how": "bounded-concrete", "case": c, "real": o, "violated": [b[0] for b in bad], "violated_detail": bad, "confirmed": True})
    extra_parts = []
    if rep.bounded:
        extra_parts.append(dict(rep.bounded, name="cleaners"))
    if prop == "C14":
        from . import loadcases as L

        cc = L.cyclic_model_cases(tier)
        co = L.run_real(cc, root, workers=8)
        cf = 0
        for c, o in zip(cc, co):
            bad = L.judge_cyclic(c, o)
            if any(b[0] == "harness-error" for b in bad):
                rep.errors.append("cyclic-model battery: %s" % (bad[0][1],))
            elif bad:
                cf += 1
                rep.violations.append({"obligation": "mpilot/program.py::Program.run/bounded:real-library:%s" % bad[0][0], "function": "mpilot/program.py::Program.run",
                                       "how": "bounded-concrete", "case": dict(c, expect_cyclic=True), "real": o, "violated": [b[0] for b in bad], "violated_detail": bad,
                                       "confirmed": True})
        extra_parts.append({"name": "real-library cyclic models", "evaluations": len(cc), "distinct_nontrivial": len(cc), "failures": cf})
    rep.bounded = {"label": "bounded (never counted as proved)", "parts": extra_parts,
                   "evaluations": len(cases) + sum(p.get("evaluations", 0) for p in extra_parts), "distinct_nontrivial": len(distinct) + sum(p.get("distinct_nontrivial", 0) for p in extra_parts),
                   "failures": fails + sum(p.get("failures", 0) for p in extra_parts if p.get("name") != "cleaners"),
                   "wall_s": round(time.time() - t0, 1),
                   "rule": "multi-step histories (a run that fails part-way and is repeated once the fault is gone; a rejected cyclic model used again); cyclic models over the "
                           "real libraries in every order (C14); the cleaners' value battery (C01: purity); "
                           "digraphs on <=%d commands (self-loops, 2-cycles, longer cycles, tails; up to 4 edges) realised through direct, list, "
                           "nested-list and mixed references, shuffled textual order, built through the API and from source text over counting "
                           "stub commands; actions run, run, result; non-trivial = the graphs in this property's quantifier (acyclic for C01, "
                           "cyclic for C14); distinct by program" % (3 if tier == "quick" else 4)}

    def rerun(w):
        if not w or w.get("kind") != "program-case":
            return None
        o = progcases.run_real([w["case"]], root)[0]
        return [b[0] for b in progcases.judge_graph(w["case"], o)]

    rep.rerun_witness = rerun
    return rep


# =========================================================================== C19
def lib_property(prop, tier, seed):
    from . import libprops

    root = REPO
    repo = Repo(root)
    rep = Report(prop, tier, seed, "other", "./check %s --tier %s" % (prop, tier))
    rep.trusted = ["import machinery (importlib, pkgutil.walk_packages, exec_module) and collections.Counter are assumed; load_commands is not under contract",
                   "expression-level contracts: the deciding sub-expressions of Program.__init__ / CommandMeta.__new__ are located by shape in the AST; "
                   "a body that no longer has that shape is undecided, not accepted"]
    recs, functions = libprops.records(repo)
    rep.functions = functions
    for r in recs:
        rep.add_vc(r["name"], r["status"], r["function"], r["clause"], r["backend"], r["time_s"], detail={"goal": r["goal"], "reason": r.get("reason")})
        if r["status"] == "sat":
            rep.violations.append({"obligation": r["name"], "function": r["function"], "how": "counter-model", "detail": {"goal": r["goal"]},
                                   "solver_output": "sat (%s)" % r["backend"], "confirmed": False})
        elif r["status"] != "unsat":
            rep.undecided.append({"obligation": r["name"], "reason": r.get("reason") or "unknown"})
    rep.samples = [{"obligation": r["name"], "goal": r["goal"], "verdict": r["status"]} for r in recs[:4]]
    # name resolution itself: find_command_class consults the program's own table and nothing else
    try:
        from . import loadprops, loadrun

        frecs, ffns = loadprops.verify_find_command_class(Repo(root))
        rep.functions += ffns
        loadrun.add_records(rep, [loadrun._strip(r) for r in frecs], None)
    except Exception as e:
        rep.errors.append("find_command_class: %s: %s" % (type(e).__name__, e))
    t0 = time.time()
    cases = libprops.cases(tier, seed, focus=bool(rep.undecided))
    outs = libprops.run_real(cases, root)
    distinct, fails = set(), 0
    for c, o in zip(cases, outs):
        distinct.add(json.dumps([c["history"], c["final"]]))
        bad = libprops.judge(c, o)
        if any(b[0] == "harness-error" for b in bad):
            rep.errors.append("registry battery: %s" % (bad[0][1],))
            continue
        if bad:
            fails += 1
            rep.violations.append({"obligation": "mpilot/program.py::Program.__init__/bounded:lookup", "function": "mpilot/program.py::Program.__init__",
                                   "how": "bounded-concrete", "case": {"history": c["history"], "final": c["final"]}, "real": o,
                                   "violated": [b[0] for b in bad], "violated_detail": bad, "confirmed": True})
    rep.bounded = {"label": "bounded (never counted as proved)", "evaluations": len(cases), "distinct_nontrivial": len(distinct), "failures": fails,
                   "wall_s": round(time.time() - t0, 1),
                   "rule": "five generated packages with prefix-related names (plug, plugx, plug_y, pl, other.plug), duplicate and renamed commands; "
                           "every ordered selection of one or two libraries x histories of earlier Program constructions and run-time class definitions; "
                           "each final construction is run after the history and in a fresh interpreter and compared with the statement's answer"}
    rep.explanation = ("Proved (SMT, strings): the registry-selection predicate of Program.__init__ equals `module == lib or module starts with lib + '.'`; "
                       "duplicates are counted per command name among the selected entries with threshold > 1 and raise MPilotError; command_library maps "
                       "name -> class over exactly the selected entries; CommandMeta.__new__ registers a class iff no entry with the same (module, command "
                       "name) exists and never removes entries. History independence then follows (lemma HISTORY, DESIGN C19). Not proved: load_commands / "
                       "the import system, Counter - covered by the bounded history battery on the real code.")

    def rerun(w):
        if not w or w.get("kind") != "registry-case":
            return None
        c = dict(w["case"], packages=libprops.PKGS)
        o = libprops.run_real([c], root)[0]
        return [b[0] for b in libprops.judge(c, o)]

    rep.rerun_witness = rerun
    return rep


# =========================================================================== C10 / C11: parser
def simulate_lexer(rules, ignore, text):
    """token kinds of `text` under the extracted rules (PLY order, Python `re` semantics) - used only to classify failing inputs"""
    import re as _re

    comp = [(r.name, _re.compile(r.pattern), r.discard) for r in rules]
    pos, toks = 0, []
    while pos < len(text):
        if text[pos] in ignore:
            pos += 1
            continue
        for name, rx_, discard in comp:
            m = rx_.match(text, pos)
            if m and m.end() > pos:
                if not discard and name != "newline":
                    toks.append((name, m.group(0)))
                pos = m.end()
                break
        else:
            toks.append(("ERROR", text[pos]))
            pos += 1
    return toks


def parser_property(prop, tier, seed):
    from . import lexprops, parseprops, parsecases

    root = REPO
    repo = Repo(root)
    rep = Report(prop, tier, seed, "other", "./check %s --tier %s" % (prop, tier))
    rep.trusted = ["PLY engines (assumed contracts LEX / YACC, DESIGN C10): rules are tried in the extracted order, first match wins, t_ignore characters are skipped; "
                   "yacc applies the actions along the LALR(1) parse, p.lineno(k)/p.lexpos(k) are the line/offset of the first token of symbol k, "
                   "lexer.input() resets lexpos but not lineno; a SyntaxError raised inside an action is swallowed",
                   "Python regexes are translated to SMT regular expressions through re._parser (language level: greedy/lazy and backtracking order "
                   "do not change the language; \\d is taken as [0-9])",
                   "int()/float() accept the documented number lexemes; str.count, slicing, encode('latin-1','backslashreplace') + decode('unicode_escape') "
                   "(= the spec function `unescape`, raising UnicodeDecodeError exactly for invalid escapes) are assumed contracts"]
    want = {"C10": {"lexeme", "token", "action", "raises_only", "cover"}, "C11": {"lineno", "cover"}}[prop]
    recs = []
    try:
        lrecs, info = lexprops.lemmas(repo)
        recs += lrecs
        rep.extra["lexer_rule_order"] = info["order"]
    except Exception as e:
        rep.errors.append("lexeme lemmas: %s: %s" % (type(e).__name__, e))
        info = None
    for f in (parseprops.verify_token_functions, parseprops.verify_parse_entry, parseprops.verify_actions):
        try:
            r, fns = f(repo)
            recs += [{k: v for k, v in x.items() if k not in ("model_obj", "state")} for x in r]
            rep.functions += fns
        except Exception as e:
            import traceback

            rep.errors.append("%s: %s: %s %s" % (f.__name__, type(e).__name__, e, traceback.format_exc()[-600:]))
    for r in recs:
        cl = r.get("clause") or r.get("kind")
        structural = r["status"] != "unsat" and (cl in ("cover", "supported") or r["name"].endswith("/supported"))
        if cl not in want and not structural:
            continue
        rep.add_vc(r["name"], r["status"], r.get("function"), cl, r.get("backend"), r.get("time_s", 0),
                   detail={"goal": r.get("goal"), "witness": r.get("witness"), "reason": r.get("reason"), "trail": r.get("trail")})
        if r["status"] == "sat":
            rep.violations.append({"obligation": r["name"], "function": r.get("function"), "how": "counter-model", "witness": r.get("witness"),
                                   "detail": {"goal": r.get("goal"), "witness": r.get("witness")}, "solver_output": "sat (%s)" % r.get("backend"),
                                   "confirmed": False})
        elif r["status"] != "unsat":
            rep.undecided.append({"obligation": r["name"], "reason": r.get("reason") or "unknown"})
    rep.samples = [{"obligation": r["name"], "clause": r.get("clause"), "verdict": r["status"]} for r in recs[:5]]
    # ---- bounded stand-in for the PLY engines
    t0 = time.time()
    cases = parsecases.cases(tier, seed)
    outs = parsecases.run_real(cases, root)
    clause = {"C10": ("value", "raises_only"), "C11": ("lineno",)}[prop]
    rules, ignore = lexprops.extract_rules(repo) if info is not None else ([], "")
    pinned_rules, pinned_ignore = [], ""
    try:
        from types import SimpleNamespace

        pj = json.load(open(os.path.join(os.path.dirname(os.path.dirname(os.path.abspath(__file__))), "baseline", "lexer_rules.json")))
        pinned_rules, pinned_ignore = [SimpleNamespace(**r) for r in pj["rules"]], pj["ignore"]
    except Exception:
        pass
    distinct, fails = set(), 0
    for c, o in zip(cases, outs):
        distinct.add(c["sources"][-1])
        bad = [b for b in parsecases.judge(c, o) if b[0] in clause]
        if not bad:
            continue
        fails += 1
        v = {"obligation": "mpilot/parser/parser.py::Parser.parse/bounded:%s" % bad[0][0], "function": "mpilot/parser/parser.py::Parser.parse",
             "how": "bounded-concrete", "case": c,
             "real": o, "violated": sorted(set(b[0] for b in bad)), "violated_detail": bad[:5], "confirmed": True}
        # signature of the recorded finding: text rejected with SyntaxError whose unquoted value ends in a number token after other tokens
        if prop == "C10" and all(b[0] == "value" and "rejected with SyntaxError" in b[2] for b in bad):
            for text in c.get("plains", []):
                # the recorded finding is a fixed class of inputs: tokenised with the rules recorded from the pinned tree (baseline/lexer_rules.json),
                # so an input that the pinned tree lexes as one token and the tree under check splits is *not* the recorded finding
                toks = simulate_lexer(pinned_rules, pinned_ignore, text) if pinned_rules else []
                if len(toks) >= 2 and toks[-1][0] in ("INT", "FLOAT") and any(t[0] in ("ID", "PLAIN_STRING") for t in toks[:-1]):
                    v["known_id"] = "C10-unquoted-text-ending-in-a-number"
        rep.violations.append(v)
    if prop == "C10":
        cc = parsecases.corruption_cases(tier, seed)
        co = parsecases.run_real(cc, root)
        for c, o in zip(cc, co):
            distinct.add(c["sources"][0])
            bad = parsecases.judge_corruption(c, o)
            if bad:
                fails += 1
                rep.violations.append({"obligation": "mpilot/parser/parser.py::Parser.parse/bounded:%s" % ("rejects-malformed" if bad[0][0] == "value" else bad[0][0]),
                                       "function": "mpilot/parser/parser.py::Parser.parse", "how": "bounded-concrete", "case": c,
                                       "real": o, "violated": [b[0] for b in bad], "violated_detail": bad, "confirmed": True})
        cases = cases + cc
    rep.bounded = {"label": "bounded stand-in for the PLY lex/yacc engines (never counted as proved)", "evaluations": len(cases), "distinct_nontrivial": len(distinct),
                   "failures": fails, "wall_s": round(time.time() - t0, 1),
                   "rule": "one program per alphabet value (ints, decimals, %d unquoted texts, %d quoted contents incl. quotes, backslashes, delimiters, non-ASCII) "
                           "x layouts (tight, spaced, multi-line, comments, trailing commas, CRLF) + random programs (<=3 commands, <=3 arguments, nested lists, tuples, "
                           "EEMS 2.0 commands); parse(render(ast)) is compared with ast incl. the line of every command, argument and element; the same text is "
                           "parsed 2-3 times on one Parser object; single-token corruptions must not raise anything but SyntaxError / MPilotError; distinct by text"
                           % (len(parsecases.PLAINS), len(parsecases.QSTRS))}
    if prop == "C11":
        from . import loadrun

        extra = loadrun.lineno_parts(rep, root, repo, tier, seed)
        rep.bounded["parts"] = [dict(name="parser", evaluations=rep.bounded["evaluations"], distinct_nontrivial=rep.bounded["distinct_nontrivial"], failures=rep.bounded["failures"])] + extra
        rep.bounded["evaluations"] += sum(p.get("evaluations", 0) for p in extra)
        rep.bounded["distinct_nontrivial"] += sum(p.get("distinct_nontrivial", 0) for p in extra)
        rep.bounded["failures"] += sum(p.get("failures", 0) for p in extra)
        rep.bounded["rule"] += ("; plus single faults at lines known by construction in models over every command x parameter (error line = line of the faulty "
                                "argument or its command), the cleaner value battery (error line = line handed in) and command-line runs (the `-->` line is the faulty line)")
    if prop == "C10":
        rep.explanation = ("Proved: the token regexes accept exactly the documented lexemes, no earlier rule pre-empts them, maximal munch stops at the lexeme (regular-language "
                           "emptiness queries over the rule strings extracted from the source, in PLY's order); the token functions convert to the number written / the "
                           "unescaped text between the delimiting quotes and raise only SyntaxError; each of the grammar actions leaves in p[0] the abstract-syntax value "
                           "of its production (order and slots preserved); Parser.parse hands the text to the PLY parser with cleared per-parse state. Assumed: the PLY "
                           "engines. Bounded: parse(render(ast)) = ast over the alphabet and layouts, and rejection of corrupted texts.")
    else:
        rep.explanation = ("Proved: t_newline / t_STRING advance lineno by exactly the line breaks they consume, no other rule can consume a line break (L-NL), "
                           "count_line_breaks counts LF, CR and CR/LF once each, Parser.parse resets lineno to 1 before every parse, every node-building action stores "
                           "p.lineno(1) (the line of the node's first token); from_source gives every Argument / ListArgument the line of its argument node (list elements "
                           "their own lines), hands add_command the command node's line and raises CommandDoesNotExist with it; add_command reports duplicates / missing "
                           "parameters with the command's line and an undeclared parameter with that argument's line; Program.run's pre-pass cleans each argument with the "
                           "argument's own line; every cleaner raises with the line it was given; every error class keeps the line it was given; the CLI marks "
                           "lines[lineno-1] of the file it read. Assumed: LEX/YACC contracts. Bounded (B-LINES): real parses incl. CRLF, comments, multi-line arguments and repeated parses "
                           "on one Parser object.")

    def rerun(w):
        if not w or w.get("kind") != "parse-case":
            return None
        o = parsecases.run_real([{"sources": w["sources"], "same_parser": False}], root)[0]
        return ["value"] if any(x["outcome"] != "ok" for x in o) else []

    rep.rerun_witness = rerun
    return rep


# =========================================================================== C16
def conv_property(prop, tier, seed):
    from . import convprops

    root = REPO
    repo = Repo(root)
    rep = Report(prop, tier, seed, "other", "./check %s --tier %s" % (prop, tier))
    rep.trusted = ["shape of the parser's nodes (CommandNode / ArgumentNode / ExpressionNode fields): the postconditions of the grammar actions proved under C10",
                   "namedtuple construction, list.append and dict.get on a constant table (assumed builtin contracts)",
                   "the v2 *syntax* step (`NAME(args)` without result name -> CommandNode(None, NAME, args)) shares C10's assumed PLY engines"]
    trecs, table = convprops.table_records(repo)
    recs = list(trecs)
    rep.functions.append({"file": "mpilot/utils.py", "qualname": "EEMS_COMMANDS (literal table)", "entries": len(table)})
    try:
        crecs, fns = convprops.verify_converter(repo, table)
        recs += [{k: v for k, v in r.items() if k not in ("model_obj", "state")} for r in crecs]
        rep.functions += fns
    except Exception as e:
        import traceback

        rep.errors.append("converter: %s: %s %s" % (type(e).__name__, e, traceback.format_exc()[-800:]))
    for r in recs:
        rep.add_vc(r["name"], r["status"], r.get("function"), r.get("clause") or r.get("kind"), r.get("backend"), r.get("time_s", 0),
                   detail={"goal": r.get("goal"), "reason": r.get("reason"), "trail": r.get("trail")})
        if r["status"] == "sat":
            v = {"obligation": r["name"], "function": r.get("function"), "how": "exhaustive table check" if r.get("clause") == "table" else "counter-model",
                 "detail": {"goal": r.get("goal")}, "confirmed": r.get("clause") == "table", "witness": {"v2": r.get("v2"), "v3": r.get("v3")}}
            if r.get("clause") == "table" and r.get("v2") in ("SCORERANGEBENEFIT", "SCORERANGECOST"):
                v["known_id"] = "C16-scorerange-commands-missing"
            rep.violations.append(v)
        elif r["status"] != "unsat":
            rep.undecided.append({"obligation": r["name"], "reason": r.get("reason") or "unknown"})
    rep.samples = [{"obligation": r["name"], "verdict": r["status"], "goal": r.get("goal")} for r in recs[:4]]
    # the call site in Program.from_source: the whole parsed list goes through the converter, and the loader iterates over its output
    from . import loadrun

    loadrun.load_part(rep, root, {"convert"}, which=("from_source",))
    t0 = time.time()
    cases = convprops.v2_cases(repo, table)
    outs = convprops.run_v2(cases, root)
    fails = 0
    for c, o in zip(cases, outs):
        if o["v2"] != o["v3"] or o["v2"]["outcome"] != "ok":
            fails += 1
            rep.violations.append({"obligation": "mpilot/program.py::Program.from_source/bounded:v2-equals-v3", "function": "mpilot/utils.py::convert_eems2_commands",
                                   "how": "bounded-concrete", "case": c, "real": o, "violated": ["convert"], "confirmed": True})
    rep.bounded = {"label": "bounded (never counted as proved)", "evaluations": len(cases), "distinct_nontrivial": len(set(c["v2"] for c in cases)), "failures": fails,
                   "wall_s": round(time.time() - t0, 1),
                   "rule": "every mapped EEMS 2.0 name whose target exists in the CSV libraries x {NewFieldName, NewFieldName+OutFileName, InFieldName only, "
                           "MPilot-style result name}: Program.from_source(v2 text) and Program.from_source(v3 transcription) are compared (result names, "
                           "command classes, argument names and values)"}

    def rerun(w):
        if not w or w.get("kind") != "table-entry":
            return None
        names, _ = convprops.library_command_names(Repo(root))
        t = convprops.literal_dict(Repo(root), convprops.UTILS, "EEMS_COMMANDS") or {}
        return ["table"] if (w["v2"] in t and t[w["v2"]] not in names) else []

    rep.rerun_witness = rerun
    return rep


# =========================================================================== C15
def ser_property(prop, tier, seed):
    from . import serprops, rtcases

    root = REPO
    repo = Repo(root)
    rep = Report(prop, tier, seed, "other", "./check %s --tier %s" % (prop, tier))
    rep.trusted = ["str.replace / str.format / str.join / repr(float) / str(int) as assumed builtin contracts (replace = uninterpreted REPL, repr(float) in the "
                   "regular over-approximation -?d+.d+(e[+-]d+)? | -?d+e[+-]d+; inf/nan outside A-REAL)",
                   "unescape(escape(s)) = s for the canonical escaping (backslashes, then double quotes) - a fact about Python's unicode_escape, exercised by the bounded round trip",
                   "the load-back step is C10 (lexeme lemmas proved, PLY engines assumed)"]
    try:
        recs, fns = serprops.verify_serialisers(repo)
        rep.functions += fns
    except Exception as e:
        import traceback

        recs = []
        rep.errors.append("serialisers: %s: %s %s" % (type(e).__name__, e, traceback.format_exc()[-800:]))
    for r in recs:
        r = {k: v for k, v in r.items() if k not in ("model_obj", "state")}
        rep.add_vc(r["name"], r["status"], r.get("function"), r.get("clause") or r.get("kind"), r.get("backend"), r.get("time_s", 0),
                   detail={"goal": r.get("goal"), "reason": r.get("reason"), "witness": r.get("witness")})
        if r["status"] == "sat":
            rep.violations.append({"obligation": r["name"], "function": r.get("function"), "how": "counter-model", "detail": {"goal": r.get("goal"), "witness": r.get("witness")},
                                   "confirmed": False})
        elif r["status"] != "unsat":
            rep.undecided.append({"obligation": r["name"], "reason": r.get("reason") or "unknown"})
    rep.samples = [{"obligation": r["name"], "verdict": r["status"]} for r in recs[:4]]
    # the load-back step: Parser.parse starts every parse from a clean state (line 1, EEMS 2.0 flag cleared), whatever was parsed before
    try:
        from . import parseprops, loadrun

        pr, pf = parseprops.verify_parse_entry(Repo(root))
        rep.functions += pf
        loadrun.add_records(rep, [loadrun._strip(x) for x in pr], None)
    except Exception as e:
        rep.errors.append("parse entry: %s: %s" % (type(e).__name__, e))
    t0 = time.time()
    cases = rtcases.cases(tier if not rep.undecided else "thorough", seed)
    outs = rtcases.run_real(cases, root)
    distinct, fails = set(), 0
    for c, o in zip(cases, outs):
        distinct.add(json.dumps(c, sort_keys=True))
        bad = rtcases.judge(c, o)
        if any(b[0] == "harness-error" for b in bad):
            rep.errors.append("round-trip battery: %s" % (bad[0][1],))
            continue
        if bad:
            fails += 1
            rep.violations.append({"obligation": "mpilot/program.py::Program.to_string/bounded:roundtrip", "function": TOSKEY, "how": "bounded-concrete", "case": c,
                                   "real": o, "violated": ["roundtrip"], "violated_detail": bad, "confirmed": True})
    rep.bounded = {"label": "bounded (never counted as proved)", "evaluations": len(cases), "distinct_nontrivial": len(distinct), "failures": fails,
                   "wall_s": round(time.time() - t0, 1),
                   "rule": "programs over a stub command with a parameter of every kind, built through the API (Argument objects, raw values, Command objects) "
                           "and from source: %d string values (quotes, backslashes, delimiters, non-ASCII, padding, line breaks) as plain, list, metadata and path "
                           "values, %d numbers incl. exponent forms and subnormals, booleans, references, nested lists; from_source(to_string(P)) must have the same "
                           "commands, argument names and cleaned values" % (len(rtcases.STRS), len(rtcases.NUMS))}
    rep.explanation = ("Proved: quote(s) = '\"' + escape(s) + '\"'; serialize_value writes strings quoted and escaped, references bare (by result name for Command objects), "
                       "integers as str(n), floats as repr with a decimal point added to a bare exponent form; regular-language lemmas: every written number is an INT / FLOAT "
                       "lexeme and every written string one STRING lexeme of the lexer extracted from the source. Assumed: reading the text back (C10's engines). Bounded: the "
                       "whole round trip on the real code.")

    def rerun(w):
        if not w or w.get("kind") != "roundtrip-case":
            return None
        o = rtcases.run_real([w["case"]], root)[0]
        return [b[0] for b in rtcases.judge(w["case"], o)]

    rep.rerun_witness = rerun
    return rep


TOSKEY = "mpilot/program.py::Program.to_string"


# =========================================================================== C17 / C18: file I/O commands
def io_property(prop, tier, seed):
    from . import iocases, excprops, ioprops
    from .engine import Engine

    root = REPO
    repo = Repo(root)
    rep = Report(prop, tier, seed, "other", "./check %s --tier %s" % (prop, tier))
    which = "csv" if prop == "C17" else "netcdf"
    rep.trusted = ["the csv module, open()/file objects, float()/repr() being inverse on finite doubles, the netCDF4 / HDF5 C libraries and numpy: assumed, exercised only by the bounded stand-in"]
    # proved part: the exception classes of this library and the helper the writers call, plus the array logic of the commands (ioprops)
    wanted = {"C17": ("EmptyDataFile", "InvalidDataFile", "EmptyInputs", "MixedArrayShapes"), "C18": ("NoSuchVariable", "InvalidPositiveData", "InvalidFuzzyData", "EmptyInputs", "MixedArrayShapes")}[prop]
    for ci in excprops.exception_classes(repo):
        if ci.name not in wanted:
            continue
        eng = Engine(repo, {}, {})
        try:
            for r in excprops.verify_exception_class(eng, ci):
                rep.add_vc(r["name"], r["status"], r.get("function"), r.get("clause") or r.get("kind"), r.get("backend"), r.get("time_s", 0), detail={"reason": r.get("reason")})
                if r["status"] == "sat":
                    rep.violations.append({"obligation": r["name"], "how": "counter-model", "confirmed": False, "detail": {"goal": r.get("goal")}})
                elif r["status"] != "unsat":
                    rep.undecided.append({"obligation": r["name"], "reason": r.get("reason")})
        except Exception as e:
            rep.errors.append("exception class %s: %s" % (ci.name, e))
    try:
        precs, fns = ioprops.verify(repo, which)
        rep.functions += fns
        for r in precs:
            r = {k: v for k, v in r.items() if k not in ("model_obj", "state")}
            rep.add_vc(r["name"], r["status"], r.get("function"), r.get("clause") or r.get("kind"), r.get("backend"), r.get("time_s", 0),
                       detail={"goal": r.get("goal"), "reason": r.get("reason"), "trail": r.get("trail")})
            if r["status"] == "sat":
                rep.violations.append({"obligation": r["name"], "function": r.get("function"), "how": "counter-model", "confirmed": False, "detail": {"goal": r.get("goal"), "trail": r.get("trail")}})
            elif r["status"] != "unsat":
                rep.undecided.append({"obligation": r["name"], "reason": r.get("reason") or "unknown"})
    except Exception as e:
        import traceback

        rep.errors.append("ioprops: %s: %s %s" % (type(e).__name__, e, traceback.format_exc()[-800:]))
    helper = cmdprops.verify_commands(["helper:validate_array_shapes"], root)[0]
    if helper["function"]:
        rep.functions.append(helper["function"])
    for r in helper["records"]:
        rep.add_vc(r["name"], r["status"], r.get("function"), "helper", r.get("backend"), r.get("time_s", 0))
        if r["status"] != "unsat":
            rep.undecided.append({"obligation": r["name"], "reason": r.get("reason") or r["status"]})
    if helper.get("unsupported"):
        rep.undecided.append({"obligation": "validate_array_shapes/*", "reason": "unsupported construct: %s" % helper["unsupported"]})
    if helper.get("error"):
        rep.errors.append("validate_array_shapes: %s" % helper["error"])
    t0 = time.time()
    cases = iocases.csv_cases(tier, seed) if which == "csv" else iocases.nc_cases(tier, seed)
    outs = iocases.run_real(cases, root)
    judge = iocases.judge_csv if which == "csv" else iocases.judge_nc
    distinct, fails = set(), 0
    for c, o in zip(cases, outs):
        distinct.add(json.dumps(c, sort_keys=True))
        bad = judge(c, o)
        if any(b[0] == "harness-error" for b in bad):
            rep.errors.append("%s battery: %s" % (which, bad[0][1]))
            continue
        if bad:
            fails += 1
            rep.violations.append({"obligation": "mpilot/libraries/eems/%s/io.py/bounded:%s" % (which, c["kind"]), "function": "mpilot/libraries/eems/%s/io.py" % which,
                                   "how": "bounded-concrete", "case": c, "real": o, "violated": [b[0] for b in bad], "violated_detail": bad[:4], "confirmed": True})
    if which == "csv":
        rule = ("tables over a 20-value double lattice (subnormal, extremes, -0.0, 1e22/1e23, 0.1+0.2) and integers, 0-4 rows, blank lines, CRLF, header names needing CSV "
                "quoting, every MissingVal / DataType choice; faults with a known file line; write->read round trips of 1-3 columns compared bit for bit")
    else:
        rule = ("grids of rank 1-3 (incl. length-1 axes), float and int results, none/one/random/no-mask placements, 1-3 results written together, read back with every "
                "combination of DataType (absent + 5 values) and MissingValue; template dimension variables, values and attributes compared; reader parameter matrix on fixed files")
    rep.bounded = {"label": "bounded stand-in for the file formats and libraries (never counted as proved)", "evaluations": len(cases), "distinct_nontrivial": len(distinct),
                   "failures": fails, "wall_s": round(time.time() - t0, 1), "rule": rule}
    rep.samples = [{"case": {k: v for k, v in cases[0].items() if k != "text"}}]
    rep.explanation = ioprops.EXPLANATION[which]

    def rerun(w):
        if not w or w.get("kind") != "io-case":
            return None
        o = iocases.run_real([w["case"]], root)[0]
        return [b[0] for b in judge(w["case"], o)]

    rep.rerun_witness = rerun
    return rep
