"""B-ROUNDTRIP: programs over the stub library `verif_rt`, serialised and loaded back on the real code (bounded)."""
import json
import os
import random
import subprocess
import tempfile

from . import replay

RUNNER = os.path.join(replay.HERE, "runner", "run_roundtrip.py")
STRS = ["plain", "two words", 'say "hi"', "it's", "C:\\temp\\new.csv", "back\\slash", "a,b=c(d)[e]#f:g", "caf\u00e9", "\u4e2d", " padded ", "", "tab\there",
        "ends with backslash\\", "quote at end\"", "line\nbreak", "007", "1.5", "true", "N0", "emoji \U0001F600 tree \U0001F333", "\U0001D4B3 math",
        "\u00ff\u0100 latin-1 edge", "\\u0041 literal escape text", "\\n not a newline",
        # characters str.splitlines() treats as line ends: ordinary content inside a quoted string
        "form\x0cfeed", "vt\x0bhere", "nel\x85x", "ls\u2028ps\u2029", "cr\ralone", "fs\x1cgs\x1drs\x1e"]
NUMS = [0, 7, -3, 1.5, -0.25, 1e-05, 1.3e+20, 123456789.125, 5e-324, 1e22, 2.0, 100000000000000000000]


def run_real(cases, repo_root="/repo", timeout=900):
    d = replay.workdir()
    fin = tempfile.NamedTemporaryFile("w", suffix=".rtin.json", dir=d, delete=False)
    json.dump(cases, fin)
    fin.close()
    fout = fin.name.replace(".rtin.json", ".rtout.json")
    try:
        p = subprocess.run([replay.VENV_PY, RUNNER, fin.name, fout, repo_root], capture_output=True, text=True, timeout=timeout)
        if p.returncode != 0 or not os.path.exists(fout):
            raise RuntimeError("runner failed: %s %s" % (p.stdout[-500:], p.stderr[-1500:]))
        return json.load(open(fout))
    finally:
        for f in (fin.name, fout):
            try:
                os.unlink(f)
            except OSError:
                pass


def cases(tier, seed=0):
    rnd = random.Random(2718 + seed)
    out = []

    def api(args, extra=(), plain=False):
        cmds = [{"name": "N0", "cls": "Src", "args": {}}, {"name": "N1", "cls": "Src", "args": {"Value": {"num": 2}}}]
        cmds += list(extra)
        cmds.append({"name": "E", "cls": "Every", "args": args, "plain_values": plain})
        return {"mode": "api", "commands": cmds}

    for s in STRS:
        out.append(api({"S": {"str": s}}))
        out.append(api({"LS": {"list": [{"str": s}, {"str": "x"}]}}))
        out.append(api({"Metadata": {"dict": {"Key": s, "Other": "v"}}}))
        out.append(api({"P": {"str": "/abs/" + s.replace("\n", "_")}}))
    for n in NUMS:
        out.append(api({"N": {"num": n}}))
        out.append(api({"LN": {"list": [{"num": n}, {"num": 1}]}}))
        out.append(api({"LL": {"list": [{"list": [{"num": n}]}, {"list": []}]}}))
    for b in (True, False):
        out.append(api({"B": {"bool": b}}))
    out.append(api({"R": {"ref": "N0"}, "LR": {"list": [{"ref": "N1"}, {"ref": "N0"}]}}))
    out.append(api({"R": {"cmd": "N0"}}))
    out.append(api({"LR": {"list": [{"cmd": "N1"}, {"cmd": "N0"}]}}))
    out.append(api({"S": {"str": "raw"}, "N": {"num": 3}}, plain=True))
    # source-built programs
    srcs = ['N0 = Src()\nE = Every(S = "quoted, text", N = 1.5, B = true, LS = ["a b", c], LN = [1, 2.5], R = N0, LR = [N0], Metadata = ["k": "v w", j: 2])',
            'N0 = Src(Value = 3)\nE = Every(S = Unquoted words here, P = /data/in.csv, LL = [[1, 2], [3]])',
            "N0 = Src()\nE = Every(S = 'single \\'quoted\\'', LS = ['it\\'s', \"say \\\"x\\\"\"])"]
    for s in srcs:
        out.append({"mode": "source", "source": s})
    # real-library programs whose arguments are exactly the ones an EEMS 2.0 conversion would drop, alone and after an EEMS 2.0 file was loaded
    # in the same process (loading must not depend on what was loaded before)
    CSVL = ["mpilot.libraries.eems.csv", "mpilot.libraries.eems.basic", "mpilot.libraries.eems.fuzzy"]
    real = ("R = EEMSRead(InFileName = /abs/in.csv, InFieldName = a, NewFieldName = b)\n"
            "S = Sum(InFieldNames = [R, R])\nW = EEMSWrite(OutFileName = /abs/out.csv, OutFieldNames = [R, S])")
    out.append({"mode": "source", "source": real, "libraries": CSVL})
    out.append({"mode": "source", "source": real, "libraries": CSVL, "preload": "READ(InFileName = /abs/in.csv, InFieldName = x)\nSUM(InFieldNames = [x, x], NewFieldName = y)\n"})
    out.append({"mode": "source", "source": srcs[0], "preload": "READ(InFileName = /abs/in.csv, InFieldName = x)\n"})
    if tier != "quick":
        for _ in range(300):
            args = {}
            if rnd.random() < 0.6:
                args["S"] = {"str": "".join(rnd.choice(['a', ' ', '"', "'", '\\', ',', '#', '\u00e9', 'n', '=', '[', ')', '\U0001F600', 'u', '0']) for _ in range(rnd.randint(0, 8)))}
            if rnd.random() < 0.5:
                args["N"] = {"num": rnd.choice(NUMS) * rnd.choice([1, -1, 1e-7, 1e9])}
            if rnd.random() < 0.4:
                args["LS"] = {"list": [{"str": rnd.choice(STRS)} for _ in range(rnd.randint(0, 3))]}
            if rnd.random() < 0.3:
                args["Metadata"] = {"dict": {rnd.choice(["k", "two words", 'q"k']): rnd.choice(STRS)}}
            out.append(api(args))
    return out


def judge(case, o):
    if "harness_error" in o:
        return [("harness-error", o["harness_error"][-300:])]
    if case.get("preload") and "build_error" in o:
        # the same text loads in a fresh process (it is also a case without preload): loading depends on what was loaded before
        return [("roundtrip", "after another model was loaded in this process the program no longer loads: %s" % o["build_error"][:200])]
    if "build_error" in o or "describe_error" in o:
        return [("harness-error", str(o)[:300])]
    if "to_string_error" in o:
        return [("roundtrip", "to_string raised %s" % o["to_string_error"])]
    if "to_file_error" in o:
        return [("roundtrip", "to_file raised %s" % o["to_file_error"])]
    if o.get("to_file_same") and not all(o["to_file_same"]):
        return [("roundtrip", "to_file (%s) wrote other text than to_string returns: %r vs %r" % ("file object" if not o["to_file_same"][0] else "path", o.get("to_file_text", "")[:120], o.get("text", "")[:120]))]
    if "reload_error" in o:
        return [("roundtrip", "the serialised text does not load: %s; text: %r" % (o["reload_error"], o.get("text", "")[:160]))]
    if o["before"] != o["after"]:
        b, a = o["before"], o["after"]
        detail = "programs differ"
        for cb, ca in zip(b, a):
            if cb != ca:
                detail = "command %s: %s  ->  %s" % (cb.get("result"), json.dumps(cb)[:150], json.dumps(ca)[:150])
                break
        if len(a) != len(b):
            detail = "%d commands became %d" % (len(b), len(a))
        return [("roundtrip", detail + "; text: %r" % o.get("text", "")[:120])]
    return []
