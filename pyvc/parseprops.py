"""C10 / C11 / C13 (parser part): contracts on mpilot's own parser code - the token functions, count_line_breaks,
Parser.parse and the grammar actions - verified with the symbolic executor.  The PLY engines are an assumed contract
(DESIGN section 6, C10): LEX applies the rules in the extracted order, YACC applies the actions along the LALR parse,
`p.lineno(k)` / `p.lexpos(k)` are the line / offset of the first token of symbol k, `input()` does not reset `lineno`."""
import ast
import re

import z3

from . import smt, rx, lexprops
from . import serprops  # noqa: F401  (installs `substring in text` for strings)
from .dyn import Val, dyn, INTLIT, FLOATLIT, STR2INT, STR2F
from .engine import Engine
from .state import State
from .values import Unsupported, Sym, Ref, PyList, SeqV, PyDict, Obj, ClassV, Raised, ExcSym, TupleV, BuiltinV, FuncV, Slice

PARSER = "mpilot/parser/parser.py"
STRCOUNT = z3.Function("str_count", z3.StringSort(), z3.StringSort(), z3.IntSort())
UNESC = z3.Function("unicode_unescape", z3.StringSort(), z3.StringSort())  # the spec: escape sequences decoded, other text unchanged
BADESC = z3.Function("has_invalid_escape", z3.StringSort(), z3.BoolSort())
UNESC_OTHER = {}


def breaks(s):
    """number of line breaks of a text: LF, CR and CR/LF each count once"""
    return STRCOUNT(s, z3.StringVal("\n")) + STRCOUNT(s, z3.StringVal("\r")) - STRCOUNT(s, z3.StringVal("\r\n"))


# --------------------------------------------------------------------------- models (assumed contracts of str / bytes methods)
def install_models(eng):
    def bi_str_count(st, args, kw):
        s, sub = args
        yield st, Sym("num", z3.ToReal(STRCOUNT(eng.str_term(s), eng.str_term(sub))), True)

    def bi_str_encode(st, args, kw):
        s = args[0]
        codec = args[1] if len(args) > 1 else "utf-8"
        errors = args[2] if len(args) > 2 else kw.get("errors", "strict")
        limit = {"latin-1": 255, "latin1": 255, "iso-8859-1": 255, "ascii": 127}.get(str(codec).lower())
        if errors == "strict" and limit is not None:
            # strict encoding into a one-byte codec: every character must exist in it, else UnicodeEncodeError
            fits = z3.InRe(eng.str_term(s), z3.Star(z3.Range(chr(0), chr(limit))))
            for s1, ok in eng.branch(st, fits):
                if ok:
                    yield s1, Sym("bytes", (codec, errors, eng.str_term(s)))
                else:
                    yield eng.raise_(s1, "UnicodeEncodeError", "'%s' codec can't encode character" % codec)
            return
        yield st, Sym("bytes", (codec, errors, eng.str_term(s)))

    def bi_str_rstrip(st, args, kw):
        yield st, Sym("str", RSTRIP(eng.str_term(args[0])))

    eng.builtin_models["str.count"] = bi_str_count
    eng.builtin_models["str.encode"] = bi_str_encode
    eng.builtin_models["str.rstrip"] = bi_str_rstrip

    def bytes_decode(st, args, kw):
        b, codec = args[0], args[1] if len(args) > 1 else "utf-8"
        enc, errors, term = b.t
        if codec != "unicode_escape":
            raise Unsupported("bytes.decode(%r)" % (codec,))
        if (enc, errors) == ("latin-1", "backslashreplace"):
            # every character survives the encoding (non latin-1 ones as \\uXXXX escapes that decode back): the result is the spec
            for s, bad in eng.branch(st, BADESC(term)):
                if bad:
                    yield eng.raise_(s, "UnicodeDecodeError", "invalid escape")
                else:
                    yield s, Sym("str", UNESC(term))
            return
        # any other encoding (e.g. the default utf-8): bytes of non-ASCII characters are re-read as latin-1 - a different function
        key = (enc, errors)
        if key not in UNESC_OTHER:
            UNESC_OTHER[key] = z3.Function("unescape_via_%s_%s" % (re.sub(r"\W", "", str(enc)), errors), z3.StringSort(), z3.StringSort())
        for s, bad in eng.branch(st, BADESC(term)):
            if bad:
                yield eng.raise_(s, "UnicodeDecodeError", "invalid escape")
            else:
                yield s, Sym("str", UNESC_OTHER[key](term))

    eng.builtin_models["bytes.decode"] = bytes_decode
    eng.inline_ok = set(getattr(eng, "inline_ok", set())) | {PARSER + "::count_line_breaks"}


RSTRIP = z3.Function("str_rstrip_blanks", z3.StringSort(), z3.StringSort())


def _patch_engine():
    """string indexing / slicing and attribute access on the `bytes` pseudo-values (engine-level additions)"""
    from .models import ModelMixin

    orig_get_item = ModelMixin.get_item
    orig_get_attr = ModelMixin.get_attr

    def get_item(self, st, o, idx):
        if self.is_str(o):
            s = self.str_term(o)
            n = z3.Length(s)
            if isinstance(idx, Slice):
                if idx.step is not None:
                    raise Unsupported("string slice step")
                lo = z3.IntVal(0) if idx.lo is None else self._clip(self.norm_index(idx.lo, n), n)
                hi = n if idx.hi is None else self._clip(self.norm_index(idx.hi, n), n)
                yield st, Sym("str", z3.SubString(s, lo, z3.If(hi - lo > 0, hi - lo, 0)))
                return
            k = self.norm_index(idx, n)
            for s2, ok in self.branch(st, z3.And(k >= 0, k < n)):
                if ok:
                    yield s2, Sym("str", z3.SubString(s, k, 1))
                else:
                    yield self.raise_(s2, "IndexError", "string index out of range")
            return
        for r in orig_get_item(self, st, o, idx):
            yield r

    def get_attr(self, st, o, name):
        if isinstance(o, Sym) and o.kind == "bytes":
            yield st, BuiltinV("bytes." + name, self_val=o)
            return
        for r in orig_get_attr(self, st, o, name):
            yield r

    ModelMixin.get_item = get_item
    ModelMixin.get_attr = get_attr


_patch_engine()


def _closed(o):
    o.closed = True
    return o


# --------------------------------------------------------------------------- token functions
def verify_token_functions(repo):
    eng = Engine(repo, {}, {})
    install_models(eng)
    rules, ignore = lexprops.extract_rules(repo)
    mod = repo.modules[PARSER]
    recs = eng.results
    functions = []
    for r in rules:
        if r.func is None:
            continue
        fi = mod.functions["Lexer.t_" + r.name]
        functions.append(fi.describe())
        eng.current = fi
        label = fi.key
        st = State()
        st.add_cell("c")
        lexeme = smt.fresh("lexeme", z3.StringSort())
        st.assume(z3.InRe(lexeme, r.re))
        # assumed facts about int() / float(): the documented number lexemes are literals they accept
        st.assume(z3.Implies(z3.InRe(lexeme, lexprops.S_INT), INTLIT(lexeme)))
        st.assume(z3.Implies(z3.InRe(lexeme, lexprops.S_FLOAT), FLOATLIT(lexeme)))
        ln0 = smt.fresh("lineno", z3.IntSort())
        lexer = st.alloc(_closed(Obj(ClassV("PlyLexer"), {"lineno": Sym("num", z3.ToReal(ln0), True)})), fresh=False)
        tok = st.alloc(_closed(Obj(ClassV("LexToken"), {"value": Sym("str", lexeme), "lexer": lexer, "lexpos": Sym("num", z3.ToReal(smt.fresh("lexpos", z3.IntSort())), True),
                                                        "type": r.name})), fresh=False)
        selfo = st.alloc(_closed(Obj(ClassV("Lexer", mod.classes["Lexer"]), {})), fresh=False)
        npaths = 0
        try:
            outs = list(eng.run_function(fi, st, {"self": selfo, "t": tok}, cls=fi.cls))
        except Unsupported as e:
            recs.append({"name": label + "/supported", "status": "unknown", "backend": "engine", "time_s": 0, "function": fi.key, "clause": "token",
                         "reason": "unsupported: %s" % e})
            continue
        for s1, out in outs:
            npaths += 1
            lno = s1.get(lexer).fields["lineno"]
            lno_t = z3.ToInt(lno.t) if isinstance(lno, Sym) else z3.IntVal(int(lno))
            val = s1.get(tok).fields["value"]
            m = lambda cl: {"clause": cl}
            if out[0] == "raise":
                exc = out[1]
                nm = "<sym>" if isinstance(exc, ExcSym) else s1.get(exc).cls.name
                if r.name == "STRING":
                    body = z3.SubString(lexeme, 1, z3.Length(lexeme) - 2)
                    eng.oblige(s1, label + "/raises SyntaxError only for an invalid escape sequence",
                               z3.And(z3.BoolVal(nm == "SyntaxError"), BADESC(body)), kind="raises", meta=m("raises_only"), assume_after=False)
                else:
                    eng.oblige(s1, label + "/raises_only(%s)" % nm, z3.BoolVal(False), kind="raises", meta=m("raises_only"), assume_after=False)
                continue
            ret = out[1]
            if r.name == "newline":
                eng.oblige(s1, label + "/discards the token", z3.BoolVal(ret is None), kind="ensures", meta=m("token"), assume_after=False)
                eng.oblige(s1, label + "/lineno advances by the line breaks consumed", lno_t == ln0 + breaks(lexeme), kind="ensures", meta=m("lineno"), assume_after=False)
                continue
            eng.oblige(s1, label + "/returns the token", z3.BoolVal(isinstance(ret, Ref) and ret == tok), kind="ensures", meta=m("token"), assume_after=False)
            if r.name == "STRING":
                body = z3.SubString(lexeme, 1, z3.Length(lexeme) - 2)
                ok = isinstance(val, Sym) and val.kind == "str"
                eng.oblige(s1, label + "/value = unescape(text between the two delimiting quotes)",
                           z3.And(z3.Not(BADESC(body)), val.t == UNESC(body)) if ok else z3.BoolVal(False), kind="ensures", meta=m("token"), assume_after=False)
                eng.oblige(s1, label + "/lineno advances by the line breaks inside the string", lno_t == ln0 + breaks(lexeme), kind="ensures",
                           meta=m("lineno"), assume_after=False)
            else:
                eng.oblige(s1, label + "/lineno unchanged", lno_t == ln0, kind="ensures", meta=m("lineno"), assume_after=False)
                if r.name == "INT":
                    eng.oblige(s1, label + "/value = the integer written", eng.to_dyn(s1, val) == Val.I(STR2INT(lexeme)), kind="ensures", meta=m("token"), assume_after=False)
                elif r.name == "FLOAT":
                    eng.oblige(s1, label + "/value = the decimal written", eng.to_dyn(s1, val) == Val.F(STR2F(lexeme)), kind="ensures", meta=m("token"), assume_after=False)
                else:
                    ok = isinstance(val, Sym) and val.kind == "str"
                    eng.oblige(s1, label + "/value = the lexeme", (val.t == lexeme) if ok else z3.BoolVal(False), kind="ensures", meta=m("token"), assume_after=False)
        recs.append({"name": label + "/paths", "status": "unsat" if npaths else "sat", "backend": "engine", "time_s": 0, "function": fi.key, "clause": "cover", "kind": "cover"})
    # ---- t_error always raises SyntaxError
    if "Lexer.t_error" in mod.functions:
        fi = mod.functions["Lexer.t_error"]
        functions.append(fi.describe())
        eng.current = fi
        st = State()
        st.add_cell("c")
        rest = smt.fresh("rest", z3.StringSort())
        st.assume(z3.Length(rest) >= 1)
        tok = st.alloc(_closed(Obj(ClassV("LexToken"), {"value": Sym("str", rest), "lexpos": Sym("num", z3.ToReal(smt.fresh("lexpos", z3.IntSort())), True)})), fresh=False)
        selfo = st.alloc(_closed(Obj(ClassV("Lexer", mod.classes["Lexer"]), {})), fresh=False)
        try:
            for s1, out in eng.run_function(fi, st, {"self": selfo, "t": tok}, cls=fi.cls):
                ok = out[0] == "raise" and not isinstance(out[1], ExcSym) and s1.get(out[1]).cls.name == "SyntaxError"
                eng.oblige(s1, fi.key + "/an illegal character is a SyntaxError", z3.BoolVal(ok), kind="raises", meta={"clause": "raises_only"}, assume_after=False)
        except Unsupported as e:
            recs.append({"name": fi.key + "/supported", "status": "unknown", "backend": "engine", "time_s": 0, "function": fi.key, "clause": "raises_only",
                         "reason": "unsupported: %s" % e})
    # ---- count_line_breaks
    if "count_line_breaks" in mod.functions:
        fi = mod.functions["count_line_breaks"]
        functions.append(fi.describe())
        eng.current = fi
        st = State()
        st.add_cell("c")
        text = smt.fresh("text", z3.StringSort())
        try:
            for s1, out in eng.run_function(fi, st, {"text": Sym("str", text)}):
                ok = out[0] == "return" and isinstance(out[1], Sym) and out[1].kind == "num"
                eng.oblige(s1, fi.key + "/returns LF + CR - CRLF occurrences", (z3.ToInt(out[1].t) == breaks(text)) if ok else z3.BoolVal(False),
                           kind="ensures", meta={"clause": "lineno"}, assume_after=False)
        except Unsupported as e:
            recs.append({"name": fi.key + "/supported", "status": "unknown", "backend": "engine", "time_s": 0, "function": fi.key, "clause": "lineno",
                         "reason": "unsupported: %s" % e})
    return recs, functions


# --------------------------------------------------------------------------- Parser.parse: per-call state
def verify_parse_entry(repo):
    eng = Engine(repo, {}, {})
    install_models(eng)
    mod = repo.modules[PARSER]
    fi = mod.functions["Parser.parse"]
    eng.current = fi
    st = State()
    st.add_cell("c")
    ln = smt.fresh("stale_lineno", z3.IntSort())
    v2 = smt.fresh("stale_v2", z3.BoolSort())
    lexer = st.alloc(_closed(Obj(ClassV("PlyLexer"), {"lineno": Sym("num", z3.ToReal(ln), True)})), fresh=False)
    yacc = Obj(ClassV("PlyParser"), {})

    def hook(eng_, st_, ref, attr):
        if attr == "parse":
            yield st_, BuiltinV("ply.yacc.parse", self_val=ref)
        else:
            raise Unsupported("yacc attribute " + attr)

    yacc.attr_hook = hook
    yref = st.alloc(yacc, fresh=False)
    selfo = st.alloc(_closed(Obj(ClassV("Parser", mod.classes["Parser"]), {"lexer": lexer, "parser": yref, "eems_v2": Sym("bool", v2)})), fresh=False)
    seen = []

    def yacc_parse(s, args, kw):
        lx = kw.get("lexer")
        cur = s.get(lx).fields["lineno"] if isinstance(lx, Ref) else None
        seen.append((s, cur, s.get(selfo).fields["eems_v2"], kw.get("tracking"), args[1] if len(args) > 1 else None, lx))
        s_err = s.fork()
        yield s, dyn(smt.fresh("program_node", Val))
        yield s_err, Raised(s_err.alloc(Obj(ClassV("SyntaxError"), {})))

    eng.builtin_models["ply.yacc.parse"] = yacc_parse
    src = Sym("str", smt.fresh("source", z3.StringSort()))
    recs = eng.results
    try:
        outs = list(eng.run_function(fi, st, {"self": selfo, "source": src}, cls=fi.cls))
    except Unsupported as e:
        recs.append({"name": fi.key + "/supported", "status": "unknown", "backend": "engine", "time_s": 0, "function": fi.key, "clause": "lineno",
                     "reason": "unsupported: %s" % e})
        return recs, [fi.describe()]
    recs.append({"name": fi.key + "/hands the text to the PLY parser exactly once", "status": "unsat" if len(seen) == 1 else "sat", "backend": "engine",
                 "time_s": 0, "function": fi.key, "clause": "token"})
    for (s, cur, v2now, tracking, source_arg, lx) in seen:
        t = z3.ToInt(cur.t) if isinstance(cur, Sym) else (z3.IntVal(int(cur)) if cur is not None else None)
        eng.oblige(s, fi.key + "/every parse starts at line 1 whatever was parsed before", (t == 1) if t is not None else z3.BoolVal(False), kind="ensures",
                   meta={"clause": "lineno"}, assume_after=False)
        v2t = v2now.t if isinstance(v2now, Sym) else z3.BoolVal(bool(v2now))
        eng.oblige(s, fi.key + "/every parse starts with the EEMS 2.0 flag cleared", z3.Not(v2t), kind="ensures", meta={"clause": "token"}, assume_after=False)
        recs.append({"name": fi.key + "/position tracking is on (p.lineno(k) is the line of symbol k)", "status": "unsat" if tracking is True else "sat",
                     "backend": "engine", "time_s": 0, "function": fi.key, "clause": "lineno"})
        recs.append({"name": fi.key + "/parses the given text with the parser's own lexer", "status": "unsat" if (source_arg is src and lx == lexer) else "sat",
                     "backend": "engine", "time_s": 0, "function": fi.key, "clause": "token"})
    for s1, out in outs:
        if out[0] == "raise":
            exc = out[1]
            nm = "<sym>" if isinstance(exc, ExcSym) else s1.get(exc).cls.name
            recs.append({"name": fi.key + "/raises_only(SyntaxError)", "status": "unsat" if nm == "SyntaxError" else "sat", "backend": "engine", "time_s": 0,
                         "function": fi.key, "clause": "raises_only"})
    return recs, [fi.describe()]


# --------------------------------------------------------------------------- grammar actions
TERMINALS = {"ID": "str", "STRING": "str", "PLAIN_STRING": "str", "INT": "int", "FLOAT": "float", "TRUE": "str", "FALSE": "str",
             "COLON": "punct", "COMMA": "punct", "EQUAL": "punct", "LBRACK": "punct", "RBRACK": "punct", "LPAREN": "punct", "RPAREN": "punct"}
# what the value of each nonterminal is (the induction hypothesis of the yield lemma: every action is proved to
# produce a value of its left-hand side's kind from right-hand sides of these kinds)
NONTERMINALS = {"program": "ProgramNode", "commands": "list:CommandNode", "command": "CommandNode", "arguments": "list:ArgumentNode",
                "argument_list": "list:ArgumentNode", "argument": "ArgumentNode", "expression": "ExpressionNode", "plain_string": "str",
                "permissive_plain_string": "str", "number": "num", "list": "list_or_dict", "elements": "list_or_dict", "element": "ExpressionNode",
                "tuple_pairs": "dict", "tuple_pair": "pair", "tuple_value": "scalar", "boolean": "str"}


def productions(fn):
    doc = ast.get_docstring(fn) or ""
    out = []
    lhs = None
    for line in doc.splitlines():
        line = line.strip()
        if not line:
            continue
        if ":" in line and not line.startswith("|"):
            lhs, rhs = line.split(":", 1)
            lhs = lhs.strip()
        else:
            rhs = line[1:]
        syms = [s for s in rhs.split() if not s.startswith("%") and s != "TUPLE_PAIR"]
        out.append((lhs, syms))
    return out


class PSlice(object):
    """the symbolic YaccProduction handed to an action"""

    def __init__(self, eng, st, syms, variant):
        self.eng, self.st, self.syms = eng, st, syms
        self.vals = {}
        self.line = smt.fresh_fun("line_of_symbol", z3.IntSort(), z3.IntSort())
        self.pos = smt.fresh_fun("pos_of_symbol", z3.IntSort(), z3.IntSort())
        self.lexdata = smt.fresh("lexdata", z3.StringSort())
        self.result = None
        for k, s in enumerate(syms, 1):
            self.vals[k] = self.make(s, k, variant)
        # YACC (assumed): p.lexpos(k) are offsets into the text, in the order of the symbols
        n = len(syms)
        for k in range(1, n + 1):
            st.assume(z3.And(self.pos(z3.IntVal(k)) >= 0, self.pos(z3.IntVal(k)) <= z3.Length(self.lexdata)))
            if k < n:
                st.assume(self.pos(z3.IntVal(k)) <= self.pos(z3.IntVal(k + 1)))

    def node(self, cls, fields):
        o = Obj(ClassV(cls), fields)
        o.closed = True
        return self.st.alloc(o, fresh=False)

    def make(self, sym, k, variant):
        st = self.st
        kind = TERMINALS.get(sym) or NONTERMINALS.get(sym)
        if kind is None:
            raise Unsupported("grammar symbol %s has no declared kind" % sym)
        tag = "p%d" % k
        if kind in ("str", "punct"):
            return Sym("str", smt.fresh(tag, z3.StringSort()))
        if kind == "int":
            return Sym("num", z3.ToReal(smt.fresh(tag, z3.IntSort())), True)
        if kind == "float":
            return Sym("num", smt.fresh(tag, z3.RealSort()), False)
        if kind == "num":
            return Sym("num", smt.fresh(tag, z3.RealSort()), smt.fresh(tag + "_isint", z3.BoolSort()))
        if kind == "scalar":
            return Sym("dyn", smt.fresh(tag, Val))
        if kind.startswith("list:") or (kind == "list_or_dict" and variant == "list"):
            n = smt.fresh(tag + "_len", z3.IntSort())
            st.assume(n >= 0)
            f = smt.fresh_fun(tag + "_item", z3.IntSort(), Val)
            return st.alloc(PyList(seq=SeqV(n, lambda i, f=f: dyn(f(i)), meta={"fn": f})), fresh=False)
        if kind in ("dict",) or (kind == "list_or_dict" and variant == "dict"):
            n = smt.fresh(tag + "_len", z3.IntSort())
            st.assume(n >= 0)
            kf = smt.fresh_fun(tag + "_key", z3.IntSort(), Val)
            vf = smt.fresh_fun(tag + "_val", z3.IntSort(), Val)
            d = Obj(ClassV("SymDict"), {"n": n, "key": lambda i: kf(i), "val": lambda i: vf(i), "term": Val.D(smt.fresh(tag + "_did", z3.IntSort()))})
            d.closed = True

            def hook(eng_, st_, ref, attr, d=d):
                if attr == "items":
                    yield st_, BuiltinV("symdict.items", self_val=ref)
                else:
                    raise Unsupported("dict attribute " + attr)

            d.attr_hook = hook
            return st.alloc(d, fresh=False)
        if kind == "pair":
            return TupleV([Sym("str", smt.fresh(tag + "_key", z3.StringSort())), dyn(smt.fresh(tag + "_node", Val))])
        if kind in ("CommandNode", "ArgumentNode", "ExpressionNode", "ProgramNode"):
            return dyn(smt.fresh(tag, Val))
        raise Unsupported("kind %s" % kind)


def _action_harness(eng, fi, syms, variant):
    st = State()
    st.add_cell("c")
    st.kterms.append(z3.IntVal(0))
    P = PSlice(eng, st, syms, variant)
    pobj = Obj(ClassV("YaccProduction"), {})
    pobj.closed = True

    def hook(eng_, st_, ref, attr):
        if attr == "lineno":
            yield st_, BuiltinV("yaccprod.lineno", self_val=ref)
        elif attr == "lexpos":
            yield st_, BuiltinV("yaccprod.lexpos", self_val=ref)
        elif attr == "lexer":
            yield st_, st_.alloc(_closed(Obj(ClassV("PlyLexer"), {"lexdata": Sym("str", P.lexdata)})), fresh=False)
        else:
            raise Unsupported("p.%s" % attr)

    pobj.attr_hook = hook
    pref = st.alloc(pobj, fresh=False)
    P.ref = pref
    return st, P, pref


def install_action_models(eng, holder):
    def p_lineno(st, args, kw):
        k = eng.concrete_int(args[1])
        if k is None:
            raise Unsupported("p.lineno(symbolic)")
        yield st, Sym("num", z3.ToReal(holder["P"].line(z3.IntVal(k))), True)

    def p_lexpos(st, args, kw):
        k = eng.concrete_int(args[1])
        if k is None:
            raise Unsupported("p.lexpos(symbolic)")
        yield st, Sym("num", z3.ToReal(holder["P"].pos(z3.IntVal(k))), True)

    def symdict_items(st, args, kw):
        d = st.get(args[0])
        yield st, st.alloc(PyList(seq=SeqV(d.fields["n"], lambda i, d=d: TupleV([dyn(d.fields["key"](i)), dyn(d.fields["val"](i))]))))

    def namedtuple(st, args, kw):
        name, fields = args[0], args[1]
        cv = ClassV(name)
        cv.nt_fields = [f for f in (fields.items if isinstance(fields, TupleV) else [])]
        yield st, cv

    eng.builtin_models["yaccprod.lineno"] = p_lineno
    eng.builtin_models["yaccprod.lexpos"] = p_lexpos
    eng.builtin_models["symdict.items"] = symdict_items
    eng.builtin_models["collections.namedtuple"] = namedtuple


def _patch_pslice():
    from .models import ModelMixin
    from .exprs import ExprMixin

    orig_get_item, orig_set_item = ModelMixin.get_item, ModelMixin.set_item
    orig_inst = ExprMixin.instantiate

    def get_item(self, st, o, idx):
        if isinstance(o, Ref) and isinstance(st.store.get(o.oid), Obj) and st.get(o).cls.name == "YaccProduction":
            k = self.concrete_int(idx)
            P = self.pholder["P"]
            if k is None or k not in P.vals:
                yield self.raise_(st, "IndexError", "production has no symbol %r" % (k,))
            else:
                yield st, P.vals[k]
            return
        for r in orig_get_item(self, st, o, idx):
            yield r

    def set_item(self, st, o, idx, v):
        if isinstance(o, Ref) and isinstance(st.store.get(o.oid), Obj) and st.get(o).cls.name == "YaccProduction":
            if self.concrete_int(idx) != 0:
                raise Unsupported("assignment to p[%r]" % (idx,))
            st.ghost["p0"] = v
            yield st, None
            return
        for r in orig_set_item(self, st, o, idx, v):
            yield r

    def instantiate(self, cv, st, args, kwargs):
        if getattr(cv, "nt_fields", None) is not None:
            names = list(cv.nt_fields)
            if len(args) + len(kwargs) != len(names):
                yield self.raise_(st, "TypeError", "%s() takes %d arguments" % (cv.name, len(names)))
                return
            fields = dict(zip(names, args))
            fields.update(kwargs)
            o = Obj(cv, fields)
            o.closed = True
            yield st, st.alloc(o)
            return
        for r in orig_inst(self, cv, st, args, kwargs):
            yield r

    ModelMixin.get_item = get_item
    ModelMixin.set_item = set_item
    ExprMixin.instantiate = instantiate
    # dict(<symbolic sequence of pairs>) -> a symbolic dict described item-wise
    from .builtins_model import BuiltinMixin

    orig_new_dict = BuiltinMixin.bi_new_dict

    def bi_new_dict(self, st, args, kw):
        if len(args) == 1 and isinstance(args[0], Ref) and isinstance(st.get(args[0]), PyList):
            pl = st.get(args[0])
            seq = self.list_seq(pl)
            probe = seq.get(smt.fresh("k", z3.IntSort())) if pl.items is None or pl.items else None
            if probe is not None and isinstance(probe, TupleV) and len(probe.items) == 2 and not isinstance(probe.items[0], str):
                d = Obj(ClassV("SymDict"), {"n": seq.n, "key": lambda i, seq=seq, s=st: self.to_dyn(s, seq.get(i).items[0]),
                                            "val": lambda i, seq=seq, s=st: self.to_dyn(s, seq.get(i).items[1]),
                                            "term": Val.D(smt.fresh("dict", z3.IntSort()))})
                yield st, st.alloc(d)
                return
        for r in orig_new_dict(self, st, args, kw):
            yield r

    BuiltinMixin.bi_new_dict = bi_new_dict


_patch_pslice()


def _field(eng, st, v, name):
    if isinstance(v, Ref) and isinstance(st.get(v), Obj):
        return st.get(v).fields.get(name)
    return None


def _eqv(eng, st, a, b):
    """z3 Bool: values a and b are the same value"""
    if a is b:
        return z3.BoolVal(True)
    try:
        return eng.to_dyn(st, a) == eng.to_dyn(st, b)
    except Unsupported:
        return z3.BoolVal(False)


def _list_is(eng, st, v, head, tail):
    """v is the list [head] + tail (tail: Ref PyList or None)"""
    if not (isinstance(v, Ref) and isinstance(st.get(v), PyList)):
        return z3.BoolVal(False)
    seq = eng.list_seq(st.get(v))
    k = st.add_k("k_list")
    if tail is None:
        return z3.And(seq.n == 1, _eqv(eng, st, seq.get(z3.IntVal(0)), head))
    tseq = eng.list_seq(st.get(tail))
    return z3.And(seq.n == tseq.n + 1, _eqv(eng, st, seq.get(z3.IntVal(0)), head),
                  z3.Implies(z3.And(k >= 0, k < tseq.n), _eqv(eng, st, seq.get(k + 1), tseq.get(k))))


def action_spec(name, lhs, syms, eng, st, P, r):
    """z3 Bool (or list of (label, Bool)): the value the action leaves in p[0] is the abstract-syntax value of the production"""
    v = P.vals
    line = lambda k: Sym("num", z3.ToReal(P.line(z3.IntVal(k))), True)
    f = lambda n: _field(eng, st, r, n)
    is_node = lambda cls: z3.BoolVal(isinstance(r, Ref) and isinstance(st.get(r), Obj) and st.get(r).cls.name == cls)
    if lhs == "program":
        ver = f("version")
        v2 = st.get(eng.pholder["self"]).fields["eems_v2"]
        return [("is a ProgramNode", is_node("ProgramNode")), ("commands", _eqv(eng, st, f("commands"), v[1]) if f("commands") is not None else z3.BoolVal(False)),
                ("version 2 iff an EEMS 2.0 command was seen", (eng.to_dyn(st, ver) == Val.I(z3.If(v2.t, 2, 3))) if ver is not None else z3.BoolVal(False))]
    if lhs == "commands":
        return [("commands in order", _list_is(eng, st, r, v[1], v[2] if len(syms) == 2 else None))]
    if lhs == "command" and syms[:2] == ["ID", "EQUAL"]:
        return [("is a CommandNode", is_node("CommandNode")), ("result name", _eqv(eng, st, f("result_name"), v[1])), ("command name", _eqv(eng, st, f("command"), v[3])),
                ("arguments", _eqv(eng, st, f("arguments"), v[4])), ("line = line on which the command starts", _eqv(eng, st, f("lineno"), line(1)))]
    if lhs == "command":
        return [("is a CommandNode", is_node("CommandNode")), ("no result name", z3.BoolVal(f("result_name") is None)), ("command name", _eqv(eng, st, f("command"), v[1])),
                ("arguments", _eqv(eng, st, f("arguments"), v[2])), ("line", _eqv(eng, st, f("lineno"), line(1))),
                ("marks the file as EEMS 2.0", z3.BoolVal(st.get(eng.pholder["self"]).fields["eems_v2"] is True))]
    if lhs == "arguments":
        if len(syms) == 3:
            return [("the argument list", _eqv(eng, st, r, v[2]))]
        return [("no arguments", z3.BoolVal(isinstance(r, Ref) and isinstance(st.get(r), PyList) and st.get(r).items == []))]
    if lhs in ("argument_list", "elements") and syms[0] in ("argument", "element"):
        tail = v[3] if len(syms) == 3 else None
        return [("items in order", _list_is(eng, st, r, v[1], tail))]
    if lhs == "elements":
        return [("the key-value map", _eqv(eng, st, r, v[1]))]
    if lhs == "argument":
        return [("is an ArgumentNode", is_node("ArgumentNode")), ("name", _eqv(eng, st, f("name"), v[1])), ("value", _eqv(eng, st, f("value"), v[3])),
                ("line = line of the argument name", _eqv(eng, st, f("lineno"), line(1)))]
    if lhs == "expression":
        return [("is an ExpressionNode", is_node("ExpressionNode")), ("value", _eqv(eng, st, f("value"), v[1])), ("line = line of its first token", _eqv(eng, st, f("lineno"), line(1)))]
    if lhs == "plain_string" and len(syms) == 1:
        ok = isinstance(r, Sym) and r.kind == "str"
        return [("the token's text without trailing blanks", (r.t == RSTRIP(v[1].t)) if ok else z3.BoolVal(False))]
    if lhs == "plain_string":
        ok = isinstance(r, Sym) and r.kind == "str"
        p1, p2 = P.pos(z3.IntVal(1)), P.pos(z3.IntVal(2))
        return [("the source text from the first token up to the rest, then the rest", (r.t == z3.Concat(z3.SubString(P.lexdata, p1, p2 - p1), v[2].t)) if ok else z3.BoolVal(False))]
    if lhs == "permissive_plain_string" and len(syms) == 3:
        ok = isinstance(r, Sym) and r.kind == "str"
        return [("left : right", (r.t == z3.Concat(v[1].t, z3.StringVal(":"), v[3].t)) if ok else z3.BoolVal(False))]
    if lhs in ("permissive_plain_string", "number", "element", "tuple_value", "boolean"):
        return [("the value of its only symbol", _eqv(eng, st, r, v[1]))]
    if lhs == "list":
        if len(syms) == 3:
            return [("the elements", _eqv(eng, st, r, v[2]))]
        return [("empty list", z3.BoolVal(isinstance(r, Ref) and isinstance(st.get(r), PyList) and st.get(r).items == []))]
    if lhs == "tuple_pair":
        ok = isinstance(r, TupleV) and len(r.items) == 2
        if not ok:
            return [("is a (key, ExpressionNode) pair", z3.BoolVal(False))]
        node = r.items[1]
        nf = lambda n: _field(eng, st, node, n)
        return [("key", _eqv(eng, st, r.items[0], v[1])), ("value node holds the value", _eqv(eng, st, nf("value"), v[3]) if nf("value") is not None else z3.BoolVal(False)),
                ("value node carries the line of the pair", _eqv(eng, st, nf("lineno"), line(1)) if nf("lineno") is not None else z3.BoolVal(False))]
    if lhs == "tuple_pairs":
        if not (isinstance(r, Ref) and isinstance(st.get(r), Obj) and st.get(r).cls.name == "SymDict"):
            return [("is a key-value map", z3.BoolVal(False))]
        d = st.get(r)
        n = d.fields["n"]
        key, node = v[1].items
        last = n - 1
        out = [("contains the pair", z3.And(n >= 1, d.fields["key"](last) == eng.to_dyn(st, key), d.fields["val"](last) == eng.to_dyn(st, node)))]
        if len(syms) == 3:
            rest = st.get(v[3])
            k = st.add_k("k_pairs")
            out.append(("keeps the other pairs", z3.And(n == rest.fields["n"] + 1, z3.Implies(z3.And(k >= 0, k < rest.fields["n"]), z3.And(
                d.fields["key"](k) == rest.fields["key"](k), d.fields["val"](k) == rest.fields["val"](k))))))
        else:
            out.append(("only that pair", n == 1))
        return out
    raise Unsupported("no specification for production %s : %s" % (lhs, " ".join(syms)))


def verify_actions(repo):
    eng = Engine(repo, {}, {})
    install_models(eng)
    holder = {}
    eng.pholder = holder
    install_action_models(eng, holder)
    mod = repo.modules[PARSER]
    recs = eng.results
    functions = []
    ci = mod.classes["Parser"]
    for name, fi in sorted(ci.methods.items(), key=lambda kv: kv[1].node.lineno):
        if not name.startswith("p_") or name == "p_error":
            continue
        functions.append(fi.describe())
        eng.current = fi
        for (lhs, syms) in productions(fi.node):
            variants = ["list", "dict"] if any(NONTERMINALS.get(s) == "list_or_dict" for s in syms) else ["-"]
            for variant in variants:
                label = "%s[%s : %s%s]" % (fi.key, lhs, " ".join(syms), "" if variant == "-" else " /" + variant)
                try:
                    st, P, pref = _action_harness(eng, fi, syms, variant)
                    holder["P"] = P
                    selfo = st.alloc(_closed(Obj(ClassV("Parser", ci), {"eems_v2": Sym("bool", smt.fresh("eems_v2", z3.BoolSort()))})), fresh=False)
                    holder["self"] = selfo
                    outs = list(eng.run_function(fi, st, {"self": selfo, "p": pref}, cls=fi.cls))
                    for s1, out in outs:
                        if out[0] == "raise":
                            exc = out[1]
                            nm = "<sym>" if isinstance(exc, ExcSym) else s1.get(exc).cls.name
                            mixed = name == "p_elements" and variant == "dict"
                            okc = mixed and nm == "ProgramError"
                            recs.append({"name": label + ("/mixing values and pairs is a ProgramError" if mixed else "/raises_only(%s)" % nm),
                                         "status": "unsat" if okc else "sat", "backend": "engine", "time_s": 0, "function": fi.key, "clause": "raises_only" if not okc else "action"})
                            continue
                        if name == "p_elements" and variant == "dict":
                            recs.append({"name": label + "/mixing values and pairs is rejected", "status": "sat", "backend": "engine", "time_s": 0,
                                         "function": fi.key, "clause": "action"})
                            continue
                        r = s1.ghost.get("p0", "<unset>")
                        if isinstance(r, str) and r == "<unset>":
                            recs.append({"name": label + "/sets p[0]", "status": "sat", "backend": "engine", "time_s": 0, "function": fi.key, "clause": "action"})
                            continue
                        for (what, goal) in action_spec(name, lhs, syms, eng, s1, P, r):
                            clause = "lineno" if "line" in what else "action"
                            eng.oblige(s1, label + "/" + what, goal, kind="ensures", meta={"clause": clause}, assume_after=False)
                except Unsupported as e:
                    recs.append({"name": label + "/supported", "status": "unknown", "backend": "engine", "time_s": 0, "function": fi.key, "clause": "action",
                                 "reason": "unsupported: %s" % e})
    # p_error always raises SyntaxError
    if "p_error" in ci.methods:
        fi = ci.methods["p_error"]
        functions.append(fi.describe())
        eng.current = fi
        for tokv in (None, "tok"):
            st = State()
            st.add_cell("c")
            selfo = st.alloc(_closed(Obj(ClassV("Parser", ci), {})), fresh=False)
            pv = None if tokv is None else st.alloc(_closed(Obj(ClassV("LexToken"), {"value": dyn(smt.fresh("v", Val)), "lexpos": Sym("num", z3.ToReal(smt.fresh("pos", z3.IntSort())), True)})), fresh=False)
            try:
                for s1, out in eng.run_function(fi, st, {"self": selfo, "p": pv}, cls=fi.cls):
                    ok = out[0] == "raise" and not isinstance(out[1], ExcSym) and s1.get(out[1]).cls.name == "SyntaxError"
                    recs.append({"name": fi.key + "/a parse error is a SyntaxError (%s)" % ("at end of input" if tokv is None else "at a token"),
                                 "status": "unsat" if ok else "sat", "backend": "engine", "time_s": 0, "function": fi.key, "clause": "raises_only"})
            except Unsupported as e:
                recs.append({"name": fi.key + "/supported", "status": "unknown", "backend": "engine", "time_s": 0, "function": fi.key, "clause": "raises_only",
                             "reason": "unsupported: %s" % e})
    return recs, functions
