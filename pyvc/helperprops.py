"""Verification of the helper bodies shared by the commands (their contracts are what call sites assume):
SameArrayShapeMixin.validate_array_shapes, utils.insure_fuzzy, utils.make_masked."""
import z3

from . import smt, spec as S
from .cmdspec import FUZZY_LO, FUZZY_HI
from .ma import FamState, RANK
from .smt import Cell, Shape, DT, INT, FLT
from .state import State
from .values import Unsupported, Sym, Ref, PyList, SeqV, Obj, ClassV, ArrState, Raised, ExcSym, is_num, num_term

MIXINS = "mpilot/libraries/eems/mixins.py::SameArrayShapeMixin.validate_array_shapes"
INSURE = "mpilot/utils.py::insure_fuzzy"
MAKEM = "mpilot/utils.py::make_masked"


@S.loop(MIXINS, "for", 0)
class ValidateShapesLoop(S.LoopContract):
    """after j iterations every array 0..j-1 has the shape of the first"""

    def inv(self, I):
        fam = I.eng.hx["fam"]
        I.temps("arr")
        j = I.j
        sh0 = fam.shape_f(z3.IntVal(0))
        I.forall_k("shapes-so-far", lambda k: z3.Implies(z3.And(k >= 0, k < j), fam.shape_f(k) == sh0))


def _family(st, name="arrs"):
    n = smt.fresh("n_" + name, z3.IntSort())
    st.assume(n >= 0)
    Xf = smt.fresh_fun("X_" + name, z3.IntSort(), Cell, z3.RealSort())
    Mf = smt.fresh_fun("M_" + name, z3.IntSort(), Cell, z3.BoolSort())
    dtf = smt.fresh_fun("dt_" + name, z3.IntSort(), DT)
    shf = smt.fresh_fun("sh_" + name, z3.IntSort(), Shape)
    fam = FamState(name, n, lambda k: dtf(k), lambda k: shf(k), lambda k, c: Xf(k, c), lambda k, c: Mf(k, c))
    st.fams[name] = fam
    seq = SeqV(n, lambda k: Ref(("fam", name, z3.simplify(k) if not isinstance(k, int) else z3.IntVal(k))))
    return fam, st.alloc(PyList(seq=seq), fresh=False)


def _rec(eng, name, ok, clause, fi, detail=None):
    eng.results.append({"name": name, "kind": clause, "status": "unsat" if ok else "sat", "backend": "syntactic", "time_s": 0,
                        "function": fi.key, "clause": clause, "goal": detail})


def verify_validate_array_shapes(eng):
    fi = eng.repo.func(MIXINS)
    eng.current = fi
    label = MIXINS
    st = State()
    st.add_cell("c")
    st.kterms.append(z3.IntVal(0))
    fam, lst = _family(st)
    eng.hx = {"fam": fam}
    n = fam.n
    lineno = Sym("dyn", smt.fresh("lineno", smt.Val))
    selfo = st.alloc(Obj(ClassV("SameArrayShapeMixin", fi.cls), {}), fresh=False)
    env = {"self": selfo, "arrays": lst, "lineno": lineno}
    sh0 = fam.shape_f(z3.IntVal(0))
    npaths = 0
    for s1, out in eng.run_function(fi, st, env, cls=fi.cls):
        npaths += 1
        if out[0] == "return":
            eng.oblige(s1, label + "/returns:None", z3.BoolVal(out[1] is None), kind="ensures", meta={"clause": "raises"})
            eng.oblige(s1, label + "/returns=>non-empty", n >= 1, kind="ensures", meta={"clause": "raises"})
            k = s1.add_k("k_post")
            eng.oblige(s1, label + "/returns=>all-shapes-equal", z3.Implies(z3.And(k >= 0, k < n), fam.shape_f(k) == sh0),
                       kind="ensures", meta={"clause": "raises"})
            mutated = any(ev[0] == "mutate" for ev in s1.log)
            _rec(eng, label + "/pure", not mutated, "frame", fi)
        else:
            exc = out[1]
            if isinstance(exc, ExcSym):
                eng.oblige(s1, label + "/raises_only", z3.BoolVal(False), kind="raises", meta={"clause": "raises_only"})
                continue
            o = s1.get(exc)
            nm = o.cls.name
            if nm == "EmptyInputs":
                eng.oblige(s1, label + "/raises:EmptyInputs=>n=0", n == 0, kind="raises", meta={"clause": "raises"})
                ln = o.fields.get("lineno")
                eng.oblige(s1, label + "/raises:EmptyInputs:lineno", z3.BoolVal(ln is lineno), kind="raises", meta={"clause": "lineno"})
            elif nm == "MixedArrayShapes":
                ks = s1.all_kterms()
                eng.oblige(s1, label + "/raises:MixedArrayShapes=>shapes-differ",
                           z3.Or(*[z3.And(k >= 0, k < n, fam.shape_f(k) != sh0) for k in ks]), kind="raises", meta={"clause": "raises"})
                ln = o.fields.get("lineno")
                eng.oblige(s1, label + "/raises:MixedArrayShapes:lineno", z3.BoolVal(ln is lineno), kind="raises", meta={"clause": "lineno"})
            else:
                eng.oblige(s1, label + "/raises_only(%s)" % nm, z3.BoolVal(False), kind="raises", meta={"clause": "raises_only"})
    _rec(eng, label + "/paths", npaths > 0, "cover", fi)


def verify_insure_fuzzy(eng):
    fi = eng.repo.func(INSURE)
    eng.current = fi
    label = INSURE
    from contracts.eems_common import clamp
    for kind in ("MA", "ND"):
        st = State()
        c = st.add_cell("c")
        X = smt.fresh_fun("X", Cell, z3.RealSort())
        M = smt.fresh_fun("M", Cell, z3.BoolSort())
        dt = smt.fresh("dt", DT)
        sh = smt.fresh("sh", Shape)
        st.assume(dt == FLT)  # integer targets would truncate assigned bounds (not modelled); fuzzy arrays are FLT
        s0 = ArrState(kind, dt, sh, lambda c: X(c), (lambda c: M(c)) if kind == "MA" else (lambda c: z3.BoolVal(False)))
        arr = st.alloc(s0, fresh=False)
        lo = Sym("num", smt.fresh("fuzzy_min", z3.RealSort()), False)
        hi = Sym("num", smt.fresh("fuzzy_max", z3.RealSort()), False)
        env = {"arr": arr, "fuzzy_min": lo, "fuzzy_max": hi}
        tag = "%s[%s]" % (label, kind)
        npaths = 0
        for s1, out in eng.run_function(fi, st, env):
            npaths += 1
            if out[0] != "return":
                eng.oblige(s1, tag + "/raises_only", z3.BoolVal(False), kind="raises", meta={"clause": "raises_only"})
                continue
            r = out[1]
            eng.oblige(s1, tag + "/returns-its-argument", z3.BoolVal(isinstance(r, Ref) and r == arr), kind="ensures", meta={"clause": "frame"})
            s = s1.get(arr)
            eng.oblige(s1, tag + "/kind,dtype,shape unchanged", z3.And(z3.BoolVal(s.kind == kind), s.dtype == dt, s.shape == sh),
                       kind="ensures", meta={"clause": "shape"})
            eng.oblige(s1, tag + "/mask unchanged", s.miss(c) == s0.miss(c), kind="ensures", meta={"clause": "mask"})
            eng.oblige(s1, tag + "/valid cells clamped",
                       z3.Implies(z3.Not(s0.miss(c)), s.val(c) == clamp(X(c), lo.t, hi.t)), kind="ensures", meta={"clause": "value"})
            eng.oblige(s1, tag + "/valid cells in range when min<=max",
                       z3.Implies(z3.And(z3.Not(s0.miss(c)), lo.t <= hi.t), z3.And(lo.t <= s.val(c), s.val(c) <= hi.t)),
                       kind="ensures", meta={"clause": "fuzzy_range"})
        _rec(eng, tag + "/paths", npaths > 0, "cover", fi)


def verify_make_masked(eng):
    fi = eng.repo.func(MAKEM)
    eng.current = fi
    label = MAKEM
    for kind in ("MA", "ND"):
        st = State()
        c = st.add_cell("c")
        X = smt.fresh_fun("X", Cell, z3.RealSort())
        M = smt.fresh_fun("M", Cell, z3.BoolSort())
        dt = smt.fresh("dt", DT)
        sh = smt.fresh("sh", Shape)
        s0 = ArrState(kind, dt, sh, lambda c: X(c), (lambda c: M(c)) if kind == "MA" else (lambda c: z3.BoolVal(False)))
        arr = st.alloc(s0, fresh=False)
        tag = "%s[%s]" % (label, kind)
        npaths = 0
        for s1, out in eng.run_function(fi, st, {"arr": arr}):
            npaths += 1
            if out[0] != "return":
                eng.oblige(s1, tag + "/raises_only", z3.BoolVal(False), kind="raises", meta={"clause": "raises_only"})
                continue
            r = out[1]
            if not (isinstance(r, Ref) and isinstance(s1.get(r), ArrState)):
                eng.oblige(s1, tag + "/returns-array", z3.BoolVal(False), kind="ensures", meta={"clause": "kind"})
                continue
            s = s1.get(r)
            eng.oblige(s1, tag + "/result is masked array", z3.BoolVal(s.kind == "MA"), kind="ensures", meta={"clause": "kind"})
            if kind == "MA":
                eng.oblige(s1, tag + "/masked input returned itself", z3.BoolVal(r == arr), kind="ensures", meta={"clause": "frame"})
            eng.oblige(s1, tag + "/same dtype, shape", z3.And(s.dtype == dt, s.shape == sh), kind="ensures", meta={"clause": "shape"})
            eng.oblige(s1, tag + "/same mask", s.miss(c) == s0.miss(c), kind="ensures", meta={"clause": "mask"})
            eng.oblige(s1, tag + "/same values", z3.Implies(z3.Not(s0.miss(c)), s.val(c) == X(c)), kind="ensures", meta={"clause": "value"})
            a = s1.get(arr)
            eng.oblige(s1, tag + "/argument unchanged", z3.And(a.miss(c) == s0.miss(c), z3.Implies(z3.Not(s0.miss(c)), a.val(c) == X(c)),
                                                               a.dtype == dt, a.shape == sh), kind="frame", meta={"clause": "frame"})
        _rec(eng, tag + "/paths", npaths > 0, "cover", fi)


HELPERS = {"validate_array_shapes": (MIXINS, verify_validate_array_shapes),
           "insure_fuzzy": (INSURE, verify_insure_fuzzy),
           "make_masked": (MAKEM, verify_make_masked)}
