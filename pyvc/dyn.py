"""Dynamic-value fragment (Val datatype): models used for params.py / commands.py / program.py.

Objects are O(ref); their classes and fields are uninterpreted functions of the reference (the heap is
immutable inside the functions verified here - any attempt to write is logged as a mutation event and
fails the purity obligation).  Strings use z3's sequence theory; conversions (int(), float(), str())
are uninterpreted functions with the per-constructor exceptional behaviour of CPython (assumed)."""
import z3

from . import smt
from .smt import Val
from .values import (
    Unsupported, Sym, Ref, TupleV, FuncV, BuiltinV, ClassV, Raised, ExcSym, PyList, SeqV, PyDict, Obj, is_num, num_term, isint_of,
    zand, zor, znot,
)

I_ = z3.IntSort()
S_ = z3.StringSort()
B_ = z3.BoolSort()
IS_COMMAND = z3.Function("is_command", I_, B_)
IS_ARGUMENT = z3.Function("is_argument", I_, B_)
IS_NDARRAY = z3.Function("is_ndarray", I_, B_)
IS_PARAM = z3.Function("is_param", I_, B_)
HAS_FUZZY = z3.Function("has_is_fuzzy", I_, B_)
INTLIT = z3.Function("is_int_literal", S_, B_)
FLOATLIT = z3.Function("is_float_literal", S_, B_)
STR2INT = z3.Function("str_to_int", S_, I_)
STR2F = z3.Function("str_to_float", S_, z3.RealSort())
ISABS = z3.Function("path_isabs", S_, B_)
PJOIN = z3.Function("path_join", S_, S_, S_)
EXISTS = z3.Function("path_exists", S_, B_)
PY_STR = z3.Function("py_str", Val, S_)
STR_LOWER = z3.Function("str_lower", S_, S_)
CLEAN_OK = z3.Function("clean_ok", Val, Val, B_)
CLEAN_VAL = z3.Function("clean_val", Val, Val, Val)
ACCEPTS = z3.Function("param_accepts", Val, Val, B_)
HAS_ACCEPTS = z3.Function("param_has_accepts", Val, B_)
CLASS_OF = z3.Function("class_of", Val, Val)
SUBCLASS = z3.Function("is_subclass", Val, Val, B_)
DKEYS = z3.Function("dict_keys", I_, z3.SeqSort(Val))
DGET = z3.Function("dict_get", I_, Val, Val)
DHAS_ = z3.Function("dict_has", I_, Val, B_)
NONFINITE = z3.Function("float_is_inf_or_nan", Val, B_)  # an F value that stands for inf / -inf / nan (e.g. float("inf"), 1e999)
ISNAN = z3.Function("float_is_nan", Val, B_)
VT_HASVAL = z3.Function("valid_types_has_value", Val, Val, B_)
VT_HASKEY = z3.Function("valid_types_has_key", Val, Val, B_)
VT_GET = z3.Function("valid_types_get", Val, Val, Val)
VT_KEYSTR = z3.Function("valid_types_keys_joined", Val, S_)
CMD_HAS = z3.Function("commands_has", Val, S_, B_)
CMD_GET = z3.Function("commands_get", Val, S_, I_)
_FLD = {}
_HASATTR = {}


def HASATTR(name):
    if name not in _HASATTR:
        _HASATTR[name] = z3.Function("has_attr_" + name, I_, B_)
    return _HASATTR[name]

MUTATORS = {"append", "extend", "insert", "remove", "pop", "clear", "sort", "reverse", "update", "setdefault", "popitem"}


def FLD(name):
    if name not in _FLD:
        _FLD[name] = z3.Function("field_" + name, I_, Val)
    return _FLD[name]


def hashable(t):
    return z3.Not(z3.Or(Val.is_L(t), Val.is_D(t)))


def is_number(t):
    return z3.Or(Val.is_I(t), Val.is_F(t), Val.is_B(t))


def numval(t):
    return z3.If(Val.is_I(t), z3.ToReal(Val.ival(t)), z3.If(Val.is_F(t), Val.fval(t), z3.If(Val.bval(t), z3.RealVal(1), z3.RealVal(0))))


def py_eq(a, b):
    """Python == on Val: numeric across I/F/B, structural otherwise."""
    return z3.If(z3.And(is_number(a), is_number(b)), numval(a) == numval(b), a == b)


def dyn(t):
    return Sym("dyn", t)


def pystr(t):
    """str(v): the string itself for strings, an (uninterpreted, total) rendering otherwise"""
    return z3.If(Val.is_S(t), Val.sval(t), PY_STR(t))


class DynMixin(object):
    # ------------------------------------------------------------------ conversions
    def to_dyn(self, st, v):
        if isinstance(v, Sym):
            if v.kind == "dyn":
                return v.t
            if v.kind == "bool":
                return Val.B(v.t)
            if v.kind == "str":
                return Val.S(v.t)
            if v.kind == "num":
                ii = v.isint
                if ii is True:
                    return Val.I(z3.ToInt(v.t))
                if ii is False or ii is None:
                    return Val.F(v.t)
                return z3.If(ii, Val.I(z3.ToInt(v.t)), Val.F(v.t))
        if v is None:
            return Val.N
        if isinstance(v, bool):
            return Val.B(z3.BoolVal(v))
        if isinstance(v, int):
            return Val.I(z3.IntVal(v))
        if isinstance(v, float):
            return Val.F(smt.rv(v))
        if isinstance(v, str):
            return Val.S(z3.StringVal(v))
        if isinstance(v, ClassV):
            return Val.T(z3.IntVal(self.type_id(v.name)))
        if isinstance(v, Ref):
            o = st.get(v)
            if isinstance(o, PyList):
                if o.items is not None:
                    if not o.items:
                        return Val.L(z3.Empty(z3.SeqSort(Val)))
                    parts = [z3.Unit(self.to_dyn(st, x)) for x in o.items]
                    return Val.L(parts[0] if len(parts) == 1 else z3.Concat(*parts))
                sq = o.seq.meta.get("as_seq")
                if sq is not None:
                    return Val.L(sq)
                raise Unsupported("symbolic list as dynamic value")
            if isinstance(o, PyDict) and not o.entries and not o.present:
                return Val.D(z3.IntVal(0))  # the empty dict literal
            if isinstance(o, Obj) and isinstance(v.oid, int):
                return Val.O(z3.IntVal(-v.oid))  # python-side objects get negative refs
        raise Unsupported("cannot view %r as a dynamic value" % (v,))

    def type_id(self, name):
        reg = self.__dict__.setdefault("_type_ids", {})
        if name not in reg:
            reg[name] = len(reg) + 1
        return reg[name]

    def entails(self, st, f):
        return smt.check(st.hyps(), f, want_model=False, use_cvc5=False).status == "unsat"

    def dict_len(self, did):
        return z3.Length(DKEYS(did))

    # ------------------------------------------------------------------ type tests
    def dyn_isinstance(self, st, t, cls):
        n = cls.name
        if n == "Number":
            return is_number(t)
        if n == "bool":
            return Val.is_B(t)
        if n == "int":
            return z3.Or(Val.is_I(t), Val.is_B(t))
        if n == "float":
            return Val.is_F(t)
        if n == "str":
            return Val.is_S(t)
        if n in ("list", "tuple"):
            # A-TUPLE: tuples are not a separate constructor; a parsed or API list is L
            return Val.is_L(t) if n == "list" else z3.BoolVal(False)
        if n == "dict":
            return Val.is_D(t)
        if n == "ndarray":
            return z3.And(Val.is_O(t), IS_NDARRAY(Val.ref(t)))
        if n == "object":
            return z3.BoolVal(True)
        if n == "type":
            return Val.is_T(t)
        if cls.info is not None:
            if n == "Command" or self.class_is_subclass(cls, "Command"):
                if n != "Command":
                    raise Unsupported("isinstance against a Command subclass")
                return z3.And(Val.is_O(t), IS_COMMAND(Val.ref(t)))
            if n in ("Argument", "ListArgument"):
                return z3.And(Val.is_O(t), IS_ARGUMENT(Val.ref(t)))
            if self.class_is_subclass(cls, "Parameter"):
                return z3.And(Val.is_O(t), IS_PARAM(Val.ref(t)), SUBCLASS(CLASS_OF(t), Val.T(z3.IntVal(self.type_id(n)))))
        raise Unsupported("isinstance(dynamic, %s)" % n)

    def dyn_issubclass(self, st, a, b):
        if isinstance(b, TupleV):
            rs = []
            for c in b.items:
                rs.append(list(self.dyn_issubclass(st, a, c))[0][1])
            yield st, Sym("bool", zor(*[r.t if isinstance(r, Sym) else r for r in rs]))
            return
        ta, tb = self.to_dyn(st, a), self.to_dyn(st, b)
        yield st, Sym("bool", SUBCLASS(ta, tb))

    # ------------------------------------------------------------------ conversions of dynamic values
    def _cases(self, st, cases):
        """cases: list of (cond, outcome) -> forks"""
        for cond, out in cases:
            s = st.fork()
            s.assume(cond)
            if self.feasible(s):
                yield s, (out(s) if callable(out) else out)

    def dyn_int(self, st, v):
        t = v.t
        fl = Val.fval(t)
        trunc = z3.If(fl >= 0, z3.ToInt(fl), -z3.ToInt(-fl))
        for r in self._cases(st, [
            (Val.is_I(t), dyn(t)),
            (Val.is_B(t), dyn(Val.I(z3.If(Val.bval(t), 1, 0)))),
            (z3.And(Val.is_F(t), z3.Not(NONFINITE(t))), dyn(Val.I(trunc))),
            # floats are modelled as reals (A-REAL); the one place where inf / nan change control flow is int(): OverflowError / ValueError
            (z3.And(Val.is_F(t), NONFINITE(t), z3.Not(ISNAN(t))), lambda s: Raised(self.make_exc(s, "OverflowError", msg="cannot convert float infinity to integer"))),
            (z3.And(Val.is_F(t), NONFINITE(t), ISNAN(t)), lambda s: Raised(self.make_exc(s, "ValueError", msg="cannot convert float NaN to integer"))),
            (z3.And(Val.is_S(t), INTLIT(Val.sval(t))), dyn(Val.I(STR2INT(Val.sval(t))))),
            (z3.And(Val.is_S(t), z3.Not(INTLIT(Val.sval(t)))), lambda s: Raised(self.make_exc(s, "ValueError", msg="invalid literal for int()"))),
            (z3.Or(Val.is_N(t), Val.is_L(t), Val.is_D(t), Val.is_O(t), Val.is_T(t)),
             lambda s: Raised(self.make_exc(s, "TypeError", msg="int() argument must be a string, a bytes-like object or a real number"))),
        ]):
            yield r

    def dyn_float(self, st, v):
        t = v.t
        for r in self._cases(st, [
            (Val.is_F(t), dyn(t)),
            (Val.is_I(t), dyn(Val.F(z3.ToReal(Val.ival(t))))),
            (Val.is_B(t), dyn(Val.F(z3.If(Val.bval(t), z3.RealVal(1), z3.RealVal(0))))),
            (z3.And(Val.is_S(t), FLOATLIT(Val.sval(t))), dyn(Val.F(STR2F(Val.sval(t))))),
            (z3.And(Val.is_S(t), z3.Not(FLOATLIT(Val.sval(t)))), lambda s: Raised(self.make_exc(s, "ValueError", msg="could not convert string to float"))),
            (z3.Or(Val.is_N(t), Val.is_L(t), Val.is_D(t), Val.is_O(t), Val.is_T(t)),
             lambda s: Raised(self.make_exc(s, "TypeError", msg="float() argument must be a string or a real number"))),
        ]):
            yield r

    # ------------------------------------------------------------------ operators
    def binop_dyn(self, st, opn, a, b, inplace):
        da = isinstance(a, Sym) and a.kind == "dyn"
        db = isinstance(b, Sym) and b.kind == "dyn"
        if opn == "Add" and ((da and self.is_str(b)) or (db and self.is_str(a)) or (da and db)):
            ta, tb = self.to_dyn(st, a), self.to_dyn(st, b)
            both = z3.And(Val.is_S(ta), Val.is_S(tb))
            for s, ok in self.branch(st, both):
                if ok:
                    yield s, Sym("str", z3.Concat(Val.sval(ta), Val.sval(tb)))
                else:
                    if da and db:
                        raise Unsupported("+ on dynamic values that are not both strings")
                    yield self.raise_(s, "TypeError", "can only concatenate str to str")
            return
        raise Unsupported("binop %s on %r, %r" % (opn, a, b))

    def bi_new_type(self, st, args, kw):
        if len(args) != 1:
            raise Unsupported("type() with three arguments")
        v = args[0]
        if isinstance(v, Sym) and v.kind == "dyn":
            yield st, dyn(CLASS_OF(v.t))
        else:
            yield st, dyn(smt.fresh("type_of", Val))

    def _eq_dyn(self, st, a, b):
        """== on dynamic values. numpy arrays compare element-wise: using the result as a truth value (or comparing
        with a sequence of another length) raises ValueError - modelled as: comparing an ndarray raises."""
        ta, tb = self.to_dyn(st, a), self.to_dyn(st, b)
        arr = z3.Or(z3.And(Val.is_O(ta), IS_NDARRAY(Val.ref(ta))), z3.And(Val.is_O(tb), IS_NDARRAY(Val.ref(tb))))
        for s, isarr in self.branch(st, arr):
            if isarr:
                yield self.raise_(s, "ValueError", "element-wise comparison of an array used as a truth value")
            else:
                yield s, py_eq(ta, tb)

    def compare_dyn(self, st, opn, a, b):
        if opn in ("Eq", "NotEq"):
            for s, e in self._eq_dyn(st, a, b):
                if isinstance(e, Raised):
                    yield s, e
                else:
                    yield s, (e if opn == "Eq" else z3.Not(e))
            return
        raise Unsupported("ordering comparison on dynamic values")

    def equal(self, st, a, b):
        if (isinstance(a, Sym) and a.kind == "dyn") or (isinstance(b, Sym) and b.kind == "dyn"):
            for r in self._eq_dyn(st, a, b):
                yield r
            return
        for r in super(DynMixin, self).equal(st, a, b):
            yield r

    # ------------------------------------------------------------------ attributes of dynamic values
    def _split_kind(self, st, t):
        """fork on the constructor of t when the path does not determine it: yields (state, kind)"""
        kinds = [("S", Val.is_S(t)), ("O", Val.is_O(t)), ("N", Val.is_N(t)), ("L", Val.is_L(t)), ("D", Val.is_D(t)),
                 ("num", is_number(t)), ("T", Val.is_T(t))]
        for k, c in kinds:
            s = st.fork()
            s.assume(c)
            if self.feasible(s):
                yield s, k

    def dyn_attr(self, st, o, name):
        t = o.t
        if name == "__class__":
            yield st, dyn(CLASS_OF(t))
            return
        for s, kind in self._split_kind(st, t):
            if kind == "S":
                yield s, BuiltinV("str." + name, self_val=Sym("str", Val.sval(t)))
            elif kind == "O":
                for r in self.obj_field(s, t, name):
                    yield r
            elif kind == "L" and name in MUTATORS:
                yield s, BuiltinV("dyn.mutator", self_val=o)
            elif kind == "D" and name in ("items", "keys", "values", "get"):
                yield s, BuiltinV("dyn.dict." + name, self_val=o)
            elif kind == "D" and name in MUTATORS:
                yield s, BuiltinV("dyn.mutator", self_val=o)
            elif kind == "N":
                yield self.raise_(s, "AttributeError", "'NoneType' object has no attribute '%s'" % name)
            elif kind == "num" and name == "is_integer":
                # float.is_integer (int.is_integer exists from Python 3.12): whether the number is integral; non-finite floats are not
                isint = z3.If(Val.is_F(t), z3.And(z3.IsInt(Val.fval(t)), z3.Not(NONFINITE(t))), z3.BoolVal(True))
                yield s, BuiltinV("dyn.const", self_val=Sym("bool", isint))
            elif kind in ("num", "T"):
                if name in ("real", "imag", "numerator", "denominator", "is_integer", "bit_length", "conjugate", "__name__"):
                    raise Unsupported("attribute %s of a number/type is not modelled" % name)
                yield self.raise_(s, "AttributeError", "object has no attribute '%s'" % name)
            else:
                yield self.raise_(s, "AttributeError", "object has no attribute '%s'" % name)

    def obj_field(self, st, t, name):
        ref = Val.ref(t)
        if name == "result":
            # Command.result (property): reading a finished command returns the memo and changes nothing;
            # on an unfinished command it *runs* it (an effect)
            st.log.append(("read-result", t))
            fin = self.dyn_truthy(FLD("is_finished")(ref))
            if not self.entails(st, z3.Implies(IS_COMMAND(ref), fin)):
                st.log.append(("effect", "`.result` read on a command not known to be finished"))
            yield st, dyn(FLD("_result")(ref))
            return
        if name == "clean" :
            yield st, BuiltinV("dyn.param.clean", self_val=dyn(t))
            return
        if name == "accepts":
            yield st, BuiltinV("dyn.param.accepts", self_val=dyn(t))
            return
        if name == "__class__":
            yield st, dyn(CLASS_OF(t))
            return
        if name in MUTATORS:
            yield st, BuiltinV("dyn.mutator", self_val=dyn(t))
            return
        yield st, dyn(FLD(name)(ref))

    def dyn_getattr(self, st, o, name, default):
        t = o.t
        if name == "is_fuzzy" and default:
            d = self.to_dyn(st, default[0])
            # class attribute that a Command subclass may or may not define
            yield st, dyn(z3.If(z3.And(Val.is_O(t), HAS_FUZZY(Val.ref(t))), FLD("is_fuzzy")(Val.ref(t)), d))
            return
        if default:
            d = self.to_dyn(st, default[0])
            yield st, dyn(z3.If(z3.And(Val.is_O(t), HASATTR(name)(Val.ref(t))), FLD(name)(Val.ref(t)), d))
            return
        raise Unsupported("getattr(dynamic, %r)" % name)

    def bi_dyn_const(self, st, args, kw):
        yield st, args[0]

    def dyn_hasattr(self, st, o, name):
        if name == "accepts":
            yield st, Sym("bool", HAS_ACCEPTS(o.t))
            return
        if name == "write":
            yield st, Sym("bool", smt.fresh("has_write", B_))
            return
        raise Unsupported("hasattr(dynamic, %r)" % name)

    def dyn_setattr(self, st, o, name, v):
        st.log.append(("effect", "attribute store .%s on a caller-visible object" % name))
        yield st, None

    def bi_dyn_mutator(self, st, args, kw):
        st.log.append(("effect", "in-place mutation of a caller-visible list/dict"))
        yield st, dyn(smt.fresh("mutator_result", Val))

    # ------------------------------------------------------------------ abstract Parameter.clean / accepts
    def bi_dyn_param_clean(self, st, args, kw):
        p = args[0].t
        v = self.to_dyn(st, args[1])
        ok = CLEAN_OK(p, v)
        ln = args[3] if len(args) > 3 else kw.get("lineno")
        st.log.append(("param-clean", p, v, args[2] if len(args) > 2 else kw.get("program"), ln))
        s1 = st.fork()
        s1.assume(ok)
        if self.feasible(s1):
            yield s1, dyn(CLEAN_VAL(p, v))
        s2 = st.fork()
        s2.assume(z3.Not(ok))
        if self.feasible(s2):
            # behavioural contract of every Parameter.clean: only the parameter-error family escapes
            yield s2, Raised(ExcSym("ProgramError", fields={"lineno": ln, "origin": "clean@" + (self.frames[-1].key if self.frames else "?")}))

    def bi_dyn_param_accepts(self, st, args, kw):
        yield st, Sym("bool", ACCEPTS(args[0].t, self.to_dyn(st, args[1])))

    # ------------------------------------------------------------------ containers
    def dyn_len(self, st, v):
        t = v.t
        for s, kind in self._split_kind(st, t):
            if kind == "L":
                yield s, Sym("num", z3.ToReal(z3.Length(Val.items(t))), True)
            elif kind == "S":
                yield s, Sym("num", z3.ToReal(z3.Length(Val.sval(t))), True)
            elif kind == "D":
                yield s, Sym("num", z3.ToReal(self.dict_len(Val.did(t))), True)
            else:
                yield self.raise_(s, "TypeError", "object has no len()")

    def dyn_as_sequence(self, st, v):
        t = v.t
        for s, kind in self._split_kind(st, t):
            if kind == "L":
                items = Val.items(t)
                yield s, SeqV(z3.Length(items), lambda k, items=items: dyn(items[k]), tag="dynlist", meta={"as_seq": items})
            elif kind == "D":
                yield s, self.dict_keys_seq(s, Val.did(t))
            elif kind == "S":
                raise Unsupported("iteration over a string")
            else:
                yield self.raise_(s, "TypeError", "object is not iterable")

    def dict_keys_seq(self, st, did):
        keys = DKEYS(did)
        st.assume_all_k(lambda k, keys=keys: z3.Implies(z3.And(k >= 0, k < z3.Length(keys)), z3.And(hashable(keys[k]), DHAS_(did, keys[k]))))
        return SeqV(z3.Length(keys), lambda k, keys=keys: dyn(keys[k]), tag="dynkeys", meta={"keys_of": did})

    def bi_dyn_dict_keys(self, st, args, kw):
        yield st, st.alloc(PyList(seq=self.dict_keys_seq(st, Val.did(args[0].t))))

    def bi_dyn_dict_get(self, st, args, kw):
        t = args[0].t
        k = self.to_dyn(st, args[1])
        default = self.to_dyn(st, args[2]) if len(args) > 2 else Val.N
        for s, h in self.branch(st, hashable(k)):
            if h:
                yield s, dyn(z3.If(DHAS_(Val.did(t), k), DGET(Val.did(t), k), default))
            else:
                yield self.raise_(s, "TypeError", "unhashable type")

    def bi_dyn_dict_items(self, st, args, kw):
        t = args[0].t
        did = Val.did(t)
        keys = DKEYS(did)
        st.assume_all_k(lambda k, keys=keys: z3.Implies(z3.And(k >= 0, k < z3.Length(keys)), z3.And(hashable(keys[k]), DHAS_(did, keys[k]))))
        seq = SeqV(z3.Length(keys), lambda k: TupleV([dyn(keys[k]), dyn(DGET(did, keys[k]))]), tag="dynitems")
        yield st, st.alloc(PyList(seq=seq))

    def dyn_getitem(self, st, o, idx):
        raise Unsupported("subscript of a dynamic value")

    def contains_dyn(self, st, container, item):
        raise Unsupported("containment on dynamic values")

    # ------------------------------------------------------------------ os.path (assumed)
    def _path_arg(self, st, v, what):
        """os.path functions accept str (bytes/PathLike not modelled); anything else -> TypeError"""
        if isinstance(v, str):
            yield st, z3.StringVal(v)
            return
        if isinstance(v, Sym) and v.kind == "str":
            yield st, v.t
            return
        if isinstance(v, Sym) and v.kind == "dyn":
            for s, isstr in self.branch(st, Val.is_S(v.t)):
                if isstr:
                    yield s, Val.sval(v.t)
                else:
                    yield s, Raised(self.make_exc(s, "TypeError", msg="expected str, bytes or os.PathLike object"))
            return
        yield st, Raised(self.make_exc(st, "TypeError", msg="expected str, bytes or os.PathLike object"))

    def bi_os_path_isabs(self, st, args, kw):
        for s, p in self._path_arg(st, args[0], "isabs"):
            yield s, (p if isinstance(p, Raised) else Sym("bool", ISABS(p)))

    def bi_os_path_exists(self, st, args, kw):
        v = args[0]
        if isinstance(v, Sym) and v.kind == "dyn":
            # os.path.exists swallows TypeError/ValueError for odd arguments only partly: non-path -> TypeError
            pass
        for s, p in self._path_arg(st, v, "exists"):
            yield s, (p if isinstance(p, Raised) else Sym("bool", EXISTS(p)))

    def bi_os_path_join(self, st, args, kw):
        if len(args) != 2:
            raise Unsupported("os.path.join arity")
        for s, a in self._path_arg(st, args[0], "join"):
            if isinstance(a, Raised):
                yield s, a
                continue
            for s2, b in self._path_arg(s, args[1], "join"):
                if isinstance(b, Raised):
                    yield s2, b
                    continue
                j = PJOIN(a, b)
                # posix: joining onto an absolute directory gives an absolute path; an absolute second part wins
                s2.assume(z3.And(z3.Implies(ISABS(a), ISABS(j)), z3.Implies(ISABS(b), j == b)))
                yield s2, Sym("str", j)

    def bi_os_path_dirname(self, st, args, kw):
        yield st, Sym("str", smt.fresh("dirname", S_))

    # ------------------------------------------------------------------ str(): total
    def bi_str(self, st, args, kw):
        if args and isinstance(args[0], Sym) and args[0].kind == "dyn":
            yield st, Sym("str", pystr(args[0].t))
            return
        for r in super(DynMixin, self).bi_str(st, args, kw):
            yield r

    def bi_str_lower(self, st, args, kw):
        (s,) = args
        if isinstance(s, str):
            yield st, s.lower()
        else:
            yield st, Sym("str", STR_LOWER(self.str_term(s)))


# --------------------------------------------------------------------------- symbolic maps (program.commands, valid_types)
def make_symmap(st, kind, owner):
    o = Obj(ClassV("SymMap"), {"kind": kind, "owner": owner})

    def hook(eng, st_, ref, attr):
        if attr == "values":
            yield st_, BuiltinV("symmap.values", self_val=ref)
        elif attr == "keys":
            yield st_, BuiltinV("symmap.keys", self_val=ref)
        elif attr in MUTATORS or attr in ("__setitem__",):
            yield st_, BuiltinV("dyn.mutator", self_val=dyn(owner))
        else:
            raise Unsupported("symbolic map attribute %s" % attr)

    o.attr_hook = hook
    return st.alloc(o, fresh=False)


def _symmap_methods():
    def symmap_getitem(self, st, m, key):
        owner, kind = m.fields["owner"], m.fields["kind"]
        k = self.to_dyn(st, key)
        for s, h in self.branch(st, hashable(k)):
            if not h:
                yield self.raise_(s, "TypeError", "unhashable type")
                continue
            if kind == "commands":
                has = z3.And(Val.is_S(k), CMD_HAS(owner, Val.sval(k)))
                for s2, ok in self.branch(s, has):
                    if ok:
                        r = CMD_GET(owner, Val.sval(k))
                        s2.assume(IS_COMMAND(r))  # Program.commands only ever holds Command objects (add_command)
                        yield s2, dyn(Val.O(r))
                    else:
                        yield self.raise_(s2, "KeyError", "missing result")
            else:
                for s2, ok in self.branch(s, VT_HASKEY(owner, k)):
                    if ok:
                        # class invariant of DataTypeParameter (checked over the declaration tables): valid_types maps
                        # names to type objects; a value looked up by key is one of values()
                        s2.assume(z3.And(VT_HASVAL(owner, VT_GET(owner, k)), Val.is_T(VT_GET(owner, k))))
                        yield s2, dyn(VT_GET(owner, k))
                    else:
                        yield self.raise_(s2, "KeyError", "missing key")

    def symmap_contains(self, st, o, item):
        owner = o.fields["owner"]
        k = self.to_dyn(st, item)
        if o.cls.name == "SymValues":
            # `x in d.values()` compares with ==: an ndarray makes the comparison element-wise and its truth value raises
            arr = z3.And(Val.is_O(k), IS_NDARRAY(Val.ref(k)))
            for s, isarr in self.branch(st, arr):
                if isarr:
                    yield self.raise_(s, "ValueError", "The truth value of an array with more than one element is ambiguous")
                else:
                    yield s, VT_HASVAL(owner, k)
            return
        for s, h in self.branch(st, hashable(k)):
            if not h:
                yield self.raise_(s, "TypeError", "unhashable type")
            elif o.fields["kind"] == "commands":
                yield s, z3.And(Val.is_S(k), CMD_HAS(owner, Val.sval(k)))
            else:
                yield s, VT_HASKEY(owner, k)

    def bi_symmap_values(self, st, args, kw):
        m = st.get(args[0])
        yield st, st.alloc(Obj(ClassV("SymValues"), {"owner": m.fields["owner"]}), fresh=False)

    def bi_symmap_keys(self, st, args, kw):
        m = st.get(args[0])
        yield st, st.alloc(Obj(ClassV("SymKeys"), {"owner": m.fields["owner"], "joined": VT_KEYSTR(m.fields["owner"])}), fresh=False)

    return dict(symmap_getitem=symmap_getitem, symmap_contains=symmap_contains, bi_symmap_values=bi_symmap_values, bi_symmap_keys=bi_symmap_keys)


for _k, _v in _symmap_methods().items():
    setattr(DynMixin, _k, _v)
