"""pyvc: a verification-condition generator for the Python subset used by consbio/mpilot.

Reads the real source under /repo with `ast` on every run, symbolically executes the
functions under contract, and discharges obligations with z3 (cvc5 as second opinion).
See /verif/DESIGN.md.
"""
