"""Declaration tables: the literal `inputs = {...}`, `output`, `is_fuzzy` class attributes, read from the AST."""
import ast


class ParamDecl(object):
    def __init__(self, cls, args, kwargs):
        self.cls = cls  # short class name, e.g. 'ResultParameter'
        self.args = args
        self.kwargs = kwargs

    @property
    def required(self):
        return self.kwargs.get("required", True)

    @property
    def is_fuzzy(self):
        if self.cls != "ResultParameter":
            return None
        if "is_fuzzy" in self.kwargs:
            return self.kwargs["is_fuzzy"]
        return self.args[1] if len(self.args) > 1 else None

    @property
    def output_type(self):
        if self.cls != "ResultParameter":
            return None
        if "output_type" in self.kwargs:
            return self.kwargs["output_type"]
        return self.args[0] if self.args else None

    @property
    def value_type(self):
        if self.cls != "ListParameter":
            return None
        if "value_type" in self.kwargs:
            return self.kwargs["value_type"]
        return self.args[0] if self.args else ParamDecl("Parameter", [], {})

    @property
    def must_exist(self):
        if "must_exist" in self.kwargs:
            return self.kwargs["must_exist"]
        return self.args[0] if self.args else True

    def __repr__(self):
        return "%s(%s)" % (self.cls, ", ".join([repr(a) for a in self.args] + ["%s=%r" % kv for kv in self.kwargs.items()]))


def parse_value(node):
    if isinstance(node, ast.Constant):
        return node.value
    if isinstance(node, ast.Call):
        name = node.func.attr if isinstance(node.func, ast.Attribute) else getattr(node.func, "id", None)
        if name and name.endswith("Parameter"):
            return ParamDecl(name, [parse_value(a) for a in node.args], {k.arg: parse_value(k.value) for k in node.keywords})
    if isinstance(node, ast.Dict):
        return {parse_value(k): parse_value(v) for k, v in zip(node.keys, node.values)}
    if isinstance(node, (ast.Name, ast.Attribute)):
        return ("name", ast.unparse(node))
    raise ValueError("unsupported declaration expression: %s" % ast.unparse(node))


class CommandDecl(object):
    def __init__(self, repo, ci):
        self.ci = ci
        self.name = ci.name
        c, e = repo.find_class_attr(ci, "inputs")
        self.inputs = parse_value(e) if e is not None else {}
        c, e = repo.find_class_attr(ci, "output")
        self.output = parse_value(e) if e is not None else None
        c, e = repo.find_class_attr(ci, "is_fuzzy")
        self.is_fuzzy = parse_value(e) if e is not None else False
        c, e = repo.find_class_attr(ci, "name")
        self.command_name = parse_value(e) if e is not None and isinstance(e, ast.Constant) else ci.name
        c, e = repo.find_class_attr(ci, "allow_extra_inputs")
        self.allow_extra_inputs = parse_value(e) if e is not None else False
        # the metaclass adds Metadata to every command
        self.inputs = dict(self.inputs)
        self.inputs.setdefault("Metadata", ParamDecl("TupleParameter", [], {"required": False}))


def command_classes(repo, relpaths=None):
    out = []
    for ci in repo.all_classes():
        if relpaths is not None and ci.module.relpath not in relpaths:
            continue
        if ci.name == "Command":
            continue
        if repo.is_subclass(ci, "Command"):
            out.append(ci)
    return out
