"""Contract API: recursive spec functions, loop contracts, function contracts (sidecar side)."""
import z3

from . import smt
from .smt import Cell, Shape, DT, INT, FLT, BOOLDT
from .values import (
    Unsupported, Sym, Ref, TupleV, Raised, PyList, SeqV, PyDict, Obj, ArrState, ClassV, is_num, num_term, isint_of,
)

CONTRACTS = {}  # key -> contract object (has .apply and .verify)
LOOPS = {}  # (key, kind, ordinal) -> LoopContract
LEMMAS = []  # (name, props, fn)


def contract(key):
    def deco(cls):
        obj = cls() if isinstance(cls, type) else cls
        obj.key = key
        CONTRACTS[key] = obj
        return cls

    return deco


def loop(key, kind, ordinal):
    def deco(cls):
        obj = cls() if isinstance(cls, type) else cls
        LOOPS[(key, kind, ordinal)] = obj
        return cls

    return deco


def lemma(name, props):
    def deco(fn):
        LEMMAS.append((name, props, fn))
        return fn

    return deco


# --------------------------------------------------------------------------- recursive spec functions
class RecFun(object):
    """F(j, c) with F(0,c) = base(c), F(j,c) = step(F(j-1,c), j, c) for j >= 1.

    Uninterpreted for the solver; the definitional equation is supplied (one unfolding) at every
    (j, c) the VC mentions.  Sound: each instance is a consequence of the definition."""

    def __init__(self, name, base, step, sort=None, with_cell=True):
        self.name = name
        self.base = base
        self.step = step
        self.with_cell = with_cell
        sort = sort if sort is not None else z3.RealSort()
        if with_cell:
            self.f = smt.fresh_fun(name, z3.IntSort(), Cell, sort)
        else:
            self.f = smt.fresh_fun(name, z3.IntSort(), sort)
        self.requests = {}
        self._in_facts = False

    def at(self, j, c=None):
        if isinstance(j, int):
            j = z3.IntVal(j)
        j = z3.simplify(j)
        if not self._in_facts:
            key = (j.sexpr(), c.sexpr() if c is not None else None)
            self.requests[key] = (j, c)
        return self.f(j, c) if self.with_cell else self.f(j)

    def facts(self):
        self._in_facts = True
        try:
            out = []
            for (j, c) in list(self.requests.values()):
                app = self.f(j, c) if self.with_cell else self.f(j)
                prev = self.f(j - 1, c) if self.with_cell else self.f(j - 1)
                b = self.base(c) if self.with_cell else self.base()
                s = self.step(prev, j, c) if self.with_cell else self.step(prev, j)
                out.append(z3.Implies(j == 0, app == b))
                out.append(z3.Implies(j >= 1, app == s))
                # second unfolding (needed by preservation goals that mention j and j+1)
                prev2 = self.f(j - 2, c) if self.with_cell else self.f(j - 2)
                s2 = self.step(prev2, j - 1, c) if self.with_cell else self.step(prev2, j - 1)
                out.append(z3.Implies(j - 1 == 0, prev == b))
                out.append(z3.Implies(j - 1 >= 1, prev == s2))
            return out
        finally:
            self._in_facts = False


# --------------------------------------------------------------------------- loop contracts
class LoopCtx(object):
    def __init__(self, eng, pre, st, j, seq, mode, label):
        self.eng, self.pre, self.st, self.j, self.seq, self.mode, self.label = eng, pre, st, j, seq, mode, label
        self.covered = set()
        self.alias = {}

    def a(self, name):
        """the current name of the local the contract calls `name` (see Engine.loop_alias)"""
        return self.alias.get(name, name)

    def bound(self, name):
        if name not in self.st.env:
            raise Unsupported("the loop invariant at %s names the local %r, which this loop does not bind (renamed or restructured code)" % (self.label, name))

    def var(self, name):
        return self.st.env.get(self.a(name))

    def prevar(self, name):
        return self.pre.env.get(self.a(name))

    def temps(self, *names):
        for n in names:
            n = self.a(n)
            self.covered.add(n)
            if self.mode == "abstract":
                self.st.env.pop(n, None)

    def keep(self, *names):
        """variables the body must leave bound to the very same value"""
        for n in names:
            n = self.a(n)
            self.covered.add(n)
            if self.mode == "check":
                a, b = self.pre.env.get(n), self.st.env.get(n)
                same = (a is b) or (isinstance(a, Ref) and isinstance(b, Ref) and a == b)
                self.eng.oblige(self.st, "%s/keep:%s" % (self.label, n), z3.BoolVal(bool(same)), kind="invariant")
            else:
                self.st.env[n] = self.pre.env.get(n)

    def fact(self, name, f):
        """ground invariant fact"""
        if self.mode == "check":
            self.eng.oblige(self.st, "%s/%s" % (self.label, name), f, kind="invariant")
        else:
            self.st.assume(f)

    def forall_k(self, name, closure):
        """position-quantified invariant fact: forall k. closure(k)"""
        if self.mode == "check":
            k = self.st.add_k("k_inv")
            self.eng.oblige(self.st, "%s/%s" % (self.label, name), closure(k), kind="invariant")
        else:
            self.st.assume_all_k(closure)
            if smt.QUANT["on"]:
                kq = z3.Int("inv_k")
                self.st.assume(z3.ForAll([kq], closure(kq)))

    def num(self, name, term, isint=False):
        name = self.a(name)
        self.covered.add(name)
        if self.mode == "check":
            self.bound(name)
            v = self.st.env.get(name)
            ok = is_num(v)
            self.eng.oblige(self.st, "%s/num:%s" % (self.label, name), (num_term(v) == term) if ok else z3.BoolVal(False), kind="invariant")
        else:
            self.st.env[name] = Sym("num", term, isint)

    def arr(self, name, kind, dtype, shape, miss, val, fresh=True, where=None):
        """`name` holds an array with exactly this abstract state at valid cells (payload unspecified)."""
        name = self.a(name)
        self.covered.add(name)
        eng, st = self.eng, self.st
        if self.mode == "check":
            self.bound(name)
            v = st.env.get(name)
            if not (isinstance(v, Ref) and isinstance(st.get(v), ArrState)):
                eng.oblige(st, "%s/arr:%s:is-array" % (self.label, name), z3.BoolVal(False), kind="invariant")
                return
            s = st.get(v)
            c = st.cells[0]
            eng.oblige(st, "%s/arr:%s:kind" % (self.label, name), z3.BoolVal(s.kind == kind), kind="invariant")
            if fresh:
                eng.oblige(st, "%s/arr:%s:fresh" % (self.label, name), z3.BoolVal(st.is_fresh(v)), kind="invariant")
            eng.oblige(st, "%s/arr:%s:dtype" % (self.label, name), s.dtype == dtype, kind="invariant")
            eng.oblige(st, "%s/arr:%s:shape" % (self.label, name), s.shape == shape, kind="invariant")
            eng.oblige(st, "%s/arr:%s:miss" % (self.label, name), s.miss(c) == miss(c), kind="invariant")
            guard = z3.Not(miss(c)) if where is None else where(c)
            eng.oblige(st, "%s/arr:%s:val" % (self.label, name), z3.Implies(guard, s.val(c) == val(c)), kind="invariant")
        else:
            junk = eng.fresh_valfun("havoc")
            if where is None:
                new = ArrState(kind, dtype, shape, lambda c: z3.If(miss(c), junk(c), val(c)), miss)
            else:
                new = ArrState(kind, dtype, shape, lambda c: z3.If(where(c), val(c), junk(c)), miss)
            st.env[name] = st.alloc(new, fresh=fresh)


class LoopContract(object):
    """Subclass and implement inv(I). `modifies` lists every local the body may rebind or mutate."""

    def inv(self, I):
        raise NotImplementedError

    def check(self, eng, pre, st, j, seq, label):
        I = LoopCtx(eng, pre, st, j, seq, "check", label)
        I.alias = getattr(self, "_alias", None) or {}
        self.inv(I)
        self._coverage(eng, pre, st, I, label)

    def abstract(self, eng, pre, st, j, seq):
        I = LoopCtx(eng, pre, st, j, seq, "abstract", "abstract")
        I.alias = getattr(self, "_alias", None) or {}
        self.inv(I)

    def _coverage(self, eng, pre, st, I, label):
        # every local rebound by the body must be named by the invariant (else the rule is unsound)
        for n, v in st.env.items():
            if n.startswith("__"):
                continue
            if n in I.covered:
                continue
            old = pre.env.get(n, _MISSING)
            same = (old is v) or (isinstance(old, Ref) and isinstance(v, Ref) and old == v and not _mutated(st, pre, v)) \
                or (not isinstance(v, Ref) and _same_scalar(old, v))
            if not same:
                raise Unsupported("loop invariant at %s does not cover local %r" % (label, n))


_MISSING = object()


def _mutated(st, pre, ref):
    try:
        return st.get(ref) is not pre.get(ref)
    except KeyError:
        return True


def _same_scalar(a, b):
    if a is b:
        return True
    if isinstance(a, Sym) and isinstance(b, Sym):
        return a.kind == b.kind and a.t.eq(b.t)
    try:
        return type(a) is type(b) and a == b
    except Exception:
        return False
