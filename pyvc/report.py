"""Verdicts, replay files, known findings, evidence (DESIGN section 5 and 8)."""
import hashlib
import json
import os
import re
import sys
import time

HERE = os.path.dirname(os.path.dirname(os.path.abspath(__file__)))
EVIDENCE_DIR = os.path.join(HERE, "evidence")
REPLAY_DIR = os.path.join(HERE, "replays")
KNOWN = os.path.join(HERE, "known_findings.json")
LEDGER = os.path.join(HERE, "baseline", "obligations.json")

A_GLOBAL = [
    "pyvc (this VC generator, its numpy/builtin theories and the concretiser) and z3 5.1 / cvc5 are trusted",
    "A-REAL: float64/int64 arithmetic treated as real/mathematical integer arithmetic (no NaN, inf, rounding, overflow)",
    "A-PY3: six.PY3 is true, true division; A-STATIC: no monkey-patching, attribute lookup follows the extracted class table",
    "A-GEN: generators are treated as the finite sequence they yield; A-REC: Python's recursion limit is not modelled",
]


def slug(s):
    return re.sub(r"[^A-Za-z0-9_.-]+", "_", s)[:150]


class Report(object):
    def __init__(self, prop, tier, seed, level, checker_cmd):
        self.prop, self.tier, self.seed, self.level, self.checker_cmd = prop, tier, seed, level, checker_cmd
        self.t0 = time.time()
        self.obligations = {}  # name -> dict
        self.violations = []  # dict(obligation, detail, case, confirmed, how)
        self.undecided = []  # dict(obligation, reason)
        self.errors = []  # checker errors
        self.functions = []
        self.assumptions = list(A_GLOBAL)
        self.trusted = []
        self.bounded = None
        self.samples = []
        self.extra = {}
        self.solver_time = 0.0
        self.backends = {}
        self.explanation = None
        self.rerun_witness = None  # callable(witness) -> list of violated clause names, or None if not reproducible
        self.ledger_promote = False  # quantified-heap properties: a ledger obligation that is no longer discharged is reported

    # ------------------------------------------------------------ collecting
    def add_vc(self, name, status, function=None, clause=None, backend=None, time_s=0.0, detail=None):
        o = self.obligations.setdefault(name, {"name": name, "function": function, "clause": clause, "vcs": 0, "discharged_vcs": 0,
                                               "status": "discharged", "backends": {}, "time_s": 0.0, "fails": []})
        o["vcs"] += 1
        o["time_s"] += time_s or 0.0
        self.solver_time += time_s or 0.0
        if backend:
            o["backends"][backend] = o["backends"].get(backend, 0) + 1
            self.backends[backend] = self.backends.get(backend, 0) + 1
        if status == "unsat":
            o["discharged_vcs"] += 1
        else:
            o["fails"].append({"status": status, "detail": detail})
            if status == "sat":
                o["status"] = "refuted"
            elif o["status"] != "refuted":
                o["status"] = "undecided"
        return o

    # ------------------------------------------------------------ known findings
    def load_known(self):
        if not os.path.exists(KNOWN):
            return []
        return [k for k in json.load(open(KNOWN)).get("findings", []) if k.get("property") == self.prop]

    # ------------------------------------------------------------ finishing
    def write_replay(self, v):
        d = os.path.join(REPLAY_DIR, self.prop)
        os.makedirs(d, exist_ok=True)
        path = os.path.join(d, slug(v["obligation"]) + ".json")
        body = {"property": self.prop, "obligation": v["obligation"], "function": v.get("function"), "how": v.get("how"),
                "detail": v.get("detail"), "confirmed_on_real_code": bool(v.get("confirmed")), "concrete_input": v.get("case"),
                "real_outcome": v.get("real"), "expected": v.get("expected"), "violated_clauses": v.get("violated"),
                "solver_output": v.get("solver_output"), "witness": v.get("witness"),
                "replay_cmd": "./check %s --replay %s" % (self.prop, os.path.relpath(path, HERE))}
        with open(path, "w") as f:
            json.dump(body, f, indent=1, default=str)
        return os.path.relpath(path, HERE)

    def load_ledger(self):
        if not os.path.exists(LEDGER):
            return None
        return json.load(open(LEDGER)).get(self.prop)

    def finish(self, record_ledger=False):
        if record_ledger:
            os.makedirs(os.path.dirname(LEDGER), exist_ok=True)
            led = json.load(open(LEDGER)) if os.path.exists(LEDGER) else {}
            led[self.prop] = sorted(o["name"] for o in self.obligations.values() if o["status"] == "discharged")
            json.dump(led, open(LEDGER, "w"), indent=0, sort_keys=True)
        ledger = self.load_ledger()
        self.extra["ledger"] = None if ledger is None else {"recorded": len(ledger), "missing_now": sorted(set(ledger) - set(self.obligations))[:40]}
        if self.ledger_promote and ledger is not None:
            # an obligation that was discharged on the unchanged tree and is not discharged now is reported as a violation
            # (no counter-example: the solver's reason is attached) - see DESIGN 5.1
            still = []
            for u in self.undecided:
                if u["obligation"] in ledger:
                    self.violations.append({"obligation": u["obligation"], "how": "ledger regression (was discharged on the unchanged tree)",
                                            "solver_output": u.get("reason"), "confirmed": False})
                else:
                    still.append(u)
            self.undecided = still
        known = self.load_known()
        lines = []
        real_violations = []
        acknowledged = []
        for v in self.violations:
            matched = None
            for k in known:
                if k.get("status") != "known":
                    continue
                if k.get("id"):
                    # findings with an id are matched by the signature the check computed for this very violation
                    if v.get("known_id") != k["id"]:
                        continue
                elif k.get("obligation") != v["obligation"]:
                    continue
                # the listed witness must still fail in the listed way on the current tree
                still = None
                if self.rerun_witness is not None:
                    try:
                        still = self.rerun_witness(k.get("witness"))
                    except Exception as e:
                        still = None
                        self.errors.append("known-finding witness could not be re-run: %s" % e)
                if still and (not k.get("observed_clause") or k["observed_clause"] in still):
                    # and the violation found now must be that finding, not a different one
                    if v.get("violated") is None or not k.get("observed_clause") or k["observed_clause"] in (v.get("violated") or []) \
                            or not v.get("confirmed"):
                        matched = k
                        break
            if matched is not None:
                acknowledged.append((v, matched))
            else:
                real_violations.append(v)
        seen = set()
        for v, k in acknowledged:
            key = (k.get("id") or k.get("obligation"), json.dumps(k.get("witness"), sort_keys=True, default=str))
            if key in seen:
                continue
            seen.add(key)
            lines.append("KNOWN-FINDING: property=%s %s: %s" % (self.prop, k.get("obligation"), k.get("what_fails", k.get("observed", ""))))
        seen = set()
        for v in real_violations:
            if v["obligation"] in seen:
                continue
            seen.add(v["obligation"])
            path = self.write_replay(v)
            suffix = "" if v.get("confirmed") else " no-failing-input-found"
            lines.append("VIOLATION property=%s replay=%s obligation=%s%s" % (self.prop, path, v["obligation"], suffix))
        for u in self.undecided:
            lines.append("UNDECIDED property=%s obligation=%s reason=%s" % (self.prop, u["obligation"], str(u.get("reason"))[:200]))
        for e in self.errors:
            lines.append("CHECKER-ERROR property=%s %s" % (self.prop, str(e)[:400]))
        n_obl = len(self.obligations)
        n_dis = sum(1 for o in self.obligations.values() if o["status"] == "discharged")
        if n_obl == 0:
            self.errors.append("vacuity: zero obligations generated")
            lines.append("CHECKER-ERROR property=%s vacuity: zero obligations generated" % self.prop)
        if real_violations:
            code = 1
        elif self.errors:
            code = 3
        elif self.undecided:
            code = 2
        else:
            code = 0
        self.write_evidence(n_obl, n_dis, len(real_violations), [k for _, k in acknowledged])
        for ln in lines:
            print(ln)
        print("%s %s: %d obligations (%d VCs), %d discharged, %d violations, %d known findings, %d undecided, %d checker errors; %.1fs"
              % (self.prop, self.tier, n_obl, sum(o["vcs"] for o in self.obligations.values()), n_dis, len(real_violations),
                 len(acknowledged), len(self.undecided), len(self.errors), time.time() - self.t0))
        return code

    def write_evidence(self, n_obl, n_dis, n_viol, known):
        os.makedirs(EVIDENCE_DIR, exist_ok=True)
        cov = {
            "obligations": n_obl,
            "discharged": n_dis,
            "vcs": sum(o["vcs"] for o in self.obligations.values()),
            "checker_cmd": self.checker_cmd,
            "trusted_base": sorted(set(self.trusted)),
            "functions_under_contract": self.functions,
            "by_backend": self.backends,
            "solver_time_s": round(self.solver_time, 3),
            "undecided": [u["obligation"] for u in self.undecided],
            "known_findings": [k.get("obligation") for k in known],
            "not_discharged": sorted(o["name"] for o in self.obligations.values() if o["status"] != "discharged"),
            "samples": self.samples[:8],
        }
        if self.bounded is not None:
            cov["bounded"] = self.bounded
            cov["evaluations"] = self.bounded.get("evaluations", 0)
            cov["distinct_nontrivial"] = self.bounded.get("distinct_nontrivial", 0)
            cov["rule"] = self.bounded.get("rule", "")
        if self.explanation:
            cov["explanation"] = self.explanation
        cov.update(self.extra)
        ev = {
            "property_id": self.prop,
            "tier": self.tier,
            "seed": self.seed,
            "level": self.level,
            "coverage": cov,
            "assumptions": self.assumptions,
            "wall_s": round(time.time() - self.t0, 2),
            "violations": n_viol,
        }
        with open(os.path.join(EVIDENCE_DIR, "%s.json" % self.prop), "w") as f:
            json.dump(ev, f, indent=1, default=str)
