"""B-PARSE / B-LINES: abstract programs, renderings with known line numbers, comparison with the real parser's tree
(bounded stand-in for the PLY engines; labelled bounded, never counted as proved)."""
import itertools
import json
import os
import random
import subprocess
import tempfile

from . import replay

RUNNER = os.path.join(replay.HERE, "runner", "run_parse.py")


def run_real(cases, repo_root="/repo", timeout=900):
    d = replay.workdir()
    fin = tempfile.NamedTemporaryFile("w", suffix=".sin.json", dir=d, delete=False)
    json.dump(cases, fin)
    fin.close()
    fout = fin.name.replace(".sin.json", ".sout.json")
    try:
        p = subprocess.run([replay.VENV_PY, RUNNER, fin.name, fout, repo_root], capture_output=True, text=True, timeout=timeout)
        if p.returncode != 0 or not os.path.exists(fout):
            raise RuntimeError("runner failed: %s %s" % (p.stdout[-500:], p.stderr[-1500:]))
        return json.load(open(fout))
    finally:
        for f in (fin.name, fout):
            try:
                os.unlink(f)
            except OSError:
                pass


# --------------------------------------------------------------------------- value alphabet
INTS = ["0", "7", "-3", "+5", "12", "007"]
FLOATS = ["1.5", "-0.25", ".5", "5.", "1.3e9", "1.0E-3", "+2.50"]
PLAINS = ["Foo", "/Path/To/123.txt", "A+/-B", "This is a string.", "two words", "007abc", "1.50x", "x1.5", "data_2.csv", "C:\\path\\to\\thing",
          "a.b.c", "9lives now", "-dash start", "True", "e5",
          # several words, the last one a number, after text that is not a bare identifier (one unquoted token on the pinned tree)
          "/data/run 5", "v. 2.5", "50% of 10", "rev. B 12"]
QSTRS = ["plain text", "", "with, delims: = ( ) [ ] #", 'say "hi"', "it's", "tab\there", "line\nbreak", "back\\slash", "caf\u00e9", "\u4e2d\u6587",
         "/Path/To/123.txt", "C:\\temp\\new.csv", " padded ", "ends with quote\"", "A+, \n", "\\", "emoji \U0001F600",
         # escapes together with characters outside Latin-1 (the decoding path of t_STRING sees both)
         "\u0394 area\n(km\u00b2)", "\u4e2d\u6587\\path", "say \"\u03a9\"", "\U0001F600\ttab",
         # raw carriage returns inside the quotes (written as they are, not escaped): content, not layout
         "raw\rcr", "raw\r\ncrlf", "\r"]


def esc(content, q):
    out = []
    for c in content:
        if c == "\\":
            out.append("\\\\")
        elif c == q:
            out.append("\\" + q)
        elif c == "\n":
            out.append("\\n")
        elif c == "\t":
            out.append("\\t")
        else:
            out.append(c)
    return q + "".join(out) + q


def parse_num(text):
    if any(c in text for c in ".eE"):
        return {"t": "float", "v": repr(float(text))}
    return {"t": "int", "v": int(text)}


class Renderer(object):
    """emits tokens with a layout policy and records the line on which each node starts"""

    def __init__(self, rnd, layout):
        self.rnd, self.layout = rnd, layout
        self.out = []
        self.line = 1
        self.nl = "\r\n" if layout.get("crlf") else ("\r" if layout.get("cr") else "\n")

    def emit(self, text):
        import re as _re

        self.out.append(text)
        self.line += len(_re.findall(r"\r\n|\r|\n", text))  # CR LF, a lone CR and a lone LF are one line break each

    def gap(self, allow_newline=True, must_space=False):
        style = self.layout["gaps"]
        if style == "tight":
            if must_space:
                self.emit(" ")
            return
        if style == "spaced":
            self.emit(" ")
            return
        r = self.rnd.random()
        if allow_newline and r < self.layout.get("p_newline", 0.3):
            if self.layout.get("comments") and self.rnd.random() < 0.4:
                self.emit(" # trailing, comment: with = delimiters")
            self.emit(self.nl)
            if self.layout.get("comments") and self.rnd.random() < 0.3:
                self.emit("    # a comment line" + self.nl)
            if self.rnd.random() < 0.3:
                self.emit(self.nl)
            self.emit(" " * self.rnd.choice([0, 2, 4]))
        elif r < 0.7 or must_space:
            self.emit(" " * self.rnd.choice([1, 1, 2]))
        elif self.rnd.random() < 0.2:
            self.emit("\t")

    def tok(self, text, must_space_before=False):
        self.gap(must_space=must_space_before)
        start = self.line
        self.emit(text)
        return start


def render_value(R, v):
    """returns expected tree node for value v (an ExpressionNode) rendered at the current position"""
    kind = v[0]
    if kind in ("int", "float"):
        ln = R.tok(v[1])
        return {"t": "expr", "lineno": ln, "value": parse_num(v[1])}
    if kind == "qstr":
        q = v[2] if len(v) > 2 else '"'
        ln = R.tok(esc(v[1], q))
        return {"t": "expr", "lineno": ln, "value": {"t": "str", "v": v[1]}}
    if kind == "plain":
        R.gap()
        ln = R.line
        R.emit(v[1])
        return {"t": "expr", "lineno": ln, "value": {"t": "str", "v": v[1]}}
    if kind == "list":
        ln = R.tok("[")
        items = []
        for i, x in enumerate(v[1]):
            items.append(render_value(R, x))
            if i < len(v[1]) - 1 or R.layout.get("trailing_commas"):
                R.tok(",")
        R.tok("]")
        return {"t": "expr", "lineno": ln, "value": {"t": "list", "items": items}}
    if kind == "tuple":
        ln = R.tok("[")
        items = []
        for i, (k, x) in enumerate(v[1]):
            if k[0] == "qstr":
                kl = R.tok(esc(k[1], '"'))
            else:
                R.gap()
                kl = R.line
                R.emit(k[1])
            R.tok(":")
            xv = render_value(R, x)
            items.append([k[1], {"t": "expr", "lineno": kl, "value": xv["value"]}])
            if i < len(v[1]) - 1 or R.layout.get("trailing_commas"):
                R.tok(",")
        R.tok("]")
        return {"t": "expr", "lineno": ln, "value": {"t": "dict", "items": items}}
    raise ValueError(kind)


def render_program(prog, rnd, layout):
    R = Renderer(rnd, layout)
    cmds = []
    first = True
    for (res, name, args) in prog:
        if not first:
            R.emit(R.nl)
            if layout.get("blank_lines") and rnd.random() < 0.5:
                R.emit(R.nl * rnd.choice([1, 2]))
            if layout.get("comments") and rnd.random() < 0.4:
                R.emit("# between commands" + R.nl)
        first = False
        start = R.line
        if res is not None:
            R.emit(res)
            R.tok("=")
            R.tok(name, must_space_before=False)
        else:
            R.emit(name)
        R.tok("(")
        eargs = []
        for i, (an, av) in enumerate(args):
            aln = R.tok(an)
            R.tok("=")
            ev = render_value(R, av)
            eargs.append({"t": "argument", "name": an, "lineno": aln, "value": ev})
            if i < len(args) - 1 or (layout.get("trailing_commas") and args):
                R.tok(",")
        R.tok(")")
        cmds.append({"t": "command", "result_name": res, "command": name, "lineno": start, "arguments": eargs})
    version = 2 if any(c[0] is None for c in prog) else 3
    return "".join(R.out), {"t": "program", "version": version, "commands": cmds}


LAYOUTS = [
    {"name": "tight", "gaps": "tight"},
    {"name": "spaced", "gaps": "spaced"},
    {"name": "multi-line", "gaps": "random", "p_newline": 0.45, "blank_lines": True},
    {"name": "comments", "gaps": "random", "p_newline": 0.4, "comments": True, "blank_lines": True},
    {"name": "trailing-commas", "gaps": "random", "p_newline": 0.2, "trailing_commas": True},
    {"name": "crlf", "gaps": "random", "p_newline": 0.4, "crlf": True, "comments": True, "blank_lines": True},
    {"name": "cr", "gaps": "random", "p_newline": 0.4, "cr": True, "comments": True, "blank_lines": True},
]


def gen_value(rnd, depth, in_list=False):
    r = rnd.random()
    if depth > 0 and r < 0.2:
        return ("list", [gen_value(rnd, depth - 1, True) for _ in range(rnd.choice([0, 1, 2, 3]))])
    if depth == 0 and in_list and r < 0.3:
        return ("int", rnd.choice(INTS))
    if depth > 0 and r < 0.3 and not in_list:
        n = rnd.choice([1, 2])
        keys = rnd.sample(["A", "Key", "long key", "k2"], n)
        return ("tuple", [((("qstr", k) if (" " in k or rnd.random() < 0.5) else ("plain", k)),
                           rnd.choice([("qstr", rnd.choice(QSTRS[:4])), ("int", rnd.choice(INTS)), ("float", rnd.choice(FLOATS[:3])), ("plain", rnd.choice(PLAINS[:3]))]))
                          for k in keys])
    if r < 0.45:
        return ("int", rnd.choice(INTS))
    if r < 0.6:
        return ("float", rnd.choice(FLOATS))
    if r < 0.8:
        return ("qstr", rnd.choice(QSTRS), rnd.choice(['"', "'"]))
    # inside a list `name: value` is a key-value pair, so an unquoted string with a colon is only well-formed as a direct argument
    return ("plain", rnd.choice([x for x in PLAINS if not (in_list and ":" in x)]))


def gen_program(rnd, max_cmds, max_args, depth, v2=False):
    prog = []
    for i in range(rnd.randint(1, max_cmds)):
        args = [("Arg%d" % j if rnd.random() < 0.7 else rnd.choice(["InFieldName", "Weights", "Metadata"]) + str(j), gen_value(rnd, depth))
                for j in range(rnd.randint(0, max_args))]
        res = None if (v2 and rnd.random() < 0.5) else "Res_%d" % i
        prog.append((res, rnd.choice(["Copy", "Sum", "EEMSRead", "READ", "Cmd_1"]), args))
    return prog


def systematic_programs():
    """one single-argument program per alphabet value and per delimiter context (list / tuple)"""
    out = []
    for x in INTS:
        out.append([("R", "Cmd", [("A", ("int", x))])])
    for x in FLOATS:
        out.append([("R", "Cmd", [("A", ("float", x))])])
    for x in PLAINS:
        out.append([("R", "Cmd", [("A", ("plain", x))])])
        out.append([("R", "Cmd", [("A", ("plain", x)), ("B", ("int", "1"))])])
        if ":" not in x:
            out.append([("R", "Cmd", [("A", ("list", [("plain", x), ("int", "2")]))])])
    for x in QSTRS:
        for q in ('"', "'"):
            out.append([("R", "Cmd", [("A", ("qstr", x, q))])])
        out.append([("R", "Cmd", [("A", ("tuple", [(("qstr", "k"), ("qstr", x))]))])])
    out.append([("R", "Cmd", [])])
    out.append([(None, "READ", [("InFileName", ("plain", "data.csv")), ("InFieldName", ("plain", "Elev"))])])
    out.append([("A", "Cmd", [("L", ("list", [("list", [("int", "1"), ("list", [])]), ("qstr", "x")]))]), ("B", "Cmd", [("X", ("plain", "A"))])])
    return out


def plains_of(prog):
    out = []

    def rec(v):
        if v[0] == "plain":
            out.append(v[1])
        elif v[0] == "list":
            for x in v[1]:
                rec(x)
        elif v[0] == "tuple":
            for k, x in v[1]:
                rec(k)
                rec(x)

    for (_, _, args) in prog:
        for (_, v) in args:
            rec(v)
    return out


def cases(tier, seed=0):
    rnd = random.Random(31337 + seed)
    out = []
    progs = systematic_programs()
    n_random = 120 if tier == "quick" else 1200
    for _ in range(n_random):
        progs.append(gen_program(rnd, 3, 3, 2 if tier == "quick" else 3, v2=rnd.random() < 0.15))
    for prog in progs:
        lays = LAYOUTS if tier != "quick" else [LAYOUTS[0], rnd.choice(LAYOUTS[1:]), rnd.choice(LAYOUTS[2:])]
        for lay in lays:
            src, exp = render_program(prog, rnd, lay)
            out.append({"sources": [src], "expected": [exp], "layout": lay["name"], "same_parser": False, "plains": plains_of(prog)})
    # histories on one Parser object (C11): the same text parsed again must carry the same line numbers
    for prog in progs[: (30 if tier == "quick" else 200)]:
        lay = rnd.choice(LAYOUTS[2:])
        s1, e1 = render_program(prog, rnd, lay)
        prog2 = gen_program(rnd, 2, 2, 1)
        s2, e2 = render_program(prog2, rnd, rnd.choice(LAYOUTS))
        out.append({"sources": [s2, s1, s1], "expected": [e2, e1, e1], "layout": "history:" + lay["name"], "same_parser": True, "plains": plains_of(prog) + plains_of(prog2)})
    return out


# --------------------------------------------------------------------------- comparison
def diff(exp, got, path="", out=None):
    """list of (clause, where, detail): clause 'value' (C10) or 'lineno' (C11)"""
    out = [] if out is None else out
    if got is None or exp.get("t") != got.get("t"):
        out.append(("value", path, "expected %s, parser returned %s" % (json.dumps(exp)[:80], json.dumps(got)[:80])))
        return out
    t = exp["t"]
    if t in ("command", "argument", "expr"):
        if exp["lineno"] != got.get("lineno"):
            out.append(("lineno", path + "/" + t, "starts on line %s, node carries %s" % (exp["lineno"], got.get("lineno"))))
    if t == "program":
        if exp["version"] != got["version"]:
            out.append(("value", path + "/version", "expected %s got %s" % (exp["version"], got["version"])))
        if len(exp["commands"]) != len(got["commands"]):
            out.append(("value", path + "/commands", "expected %d commands, got %d" % (len(exp["commands"]), len(got["commands"]))))
            return out
        for i, (a, b) in enumerate(zip(exp["commands"], got["commands"])):
            diff(a, b, path + "/cmd%d" % i, out)
    elif t == "command":
        for k in ("result_name", "command"):
            if exp[k] != got[k]:
                out.append(("value", path + "/" + k, "expected %r got %r" % (exp[k], got[k])))
        if len(exp["arguments"]) != len(got["arguments"]):
            out.append(("value", path + "/arguments", "expected %d arguments, got %d" % (len(exp["arguments"]), len(got["arguments"]))))
            return out
        for i, (a, b) in enumerate(zip(exp["arguments"], got["arguments"])):
            diff(a, b, path + "/arg%d" % i, out)
    elif t == "argument":
        if exp["name"] != got["name"]:
            out.append(("value", path + "/name", "expected %r got %r" % (exp["name"], got["name"])))
        diff(exp["value"], got["value"], path + "/value", out)
    elif t == "expr":
        diff(exp["value"], got["value"], path, out)
    elif t == "list":
        if len(exp["items"]) != len(got["items"]):
            out.append(("value", path, "list of %d items parsed as %d items" % (len(exp["items"]), len(got["items"]))))
            return out
        for i, (a, b) in enumerate(zip(exp["items"], got["items"])):
            diff(a, b, path + "[%d]" % i, out)
    elif t == "dict":
        ek = [k for k, _ in exp["items"]]
        gk = [k for k, _ in got["items"]]
        if sorted(ek) != sorted(gk):
            out.append(("value", path, "tuple keys %r parsed as %r" % (ek, gk)))
            return out
        gd = dict((k, v) for k, v in got["items"])
        for k, v in exp["items"]:
            diff(v, gd[k], path + "{%s}" % k, out)
    else:
        if exp.get("v") != got.get("v"):
            out.append(("value", path, "written %r, parsed %r" % (exp.get("v"), got.get("v"))))
    return out


def judge(case, outs):
    bad = []
    for i, (exp, o) in enumerate(zip(case["expected"], outs)):
        tag = "parse#%d" % (i + 1) if len(case["expected"]) > 1 else "parse"
        if o["outcome"] != "ok":
            cl = "value" if o.get("is_syntax") else "raises_only"
            bad.append((cl, tag, "well-formed text rejected with %s: %s" % (o.get("exc_class"), o.get("msg", "")[:100])))
            continue
        for d in diff(exp, o["tree"]):
            bad.append((d[0], tag + d[1], d[2]))
    return bad


# --------------------------------------------------------------------------- corruptions: malformed text is rejected with SyntaxError
def corruption_cases(tier, seed=0):
    rnd = random.Random(777 + seed)
    base = ['A = Copy(\n    InFieldName = B,\n    Weights = [1, 2.5, "x"]\n)', 'R = Sum(InFieldNames = [A, B], Metadata = ["k": "v", j: 2])',
            'READ(InFileName = data.csv, InFieldName = Elev)\nB = FuzzyNot(InFieldName = A)']
    out = []
    for src in base:
        muts = []
        for ch in "()[]=,":
            idxs = [i for i, c in enumerate(src) if c == ch]
            for i in idxs[: (2 if tier == "quick" else 10)]:
                muts.append(("delete %r at %d" % (ch, i), src[:i] + src[i + 1:]))
                muts.append(("duplicate %r at %d" % (ch, i), src[:i] + ch + src[i:]))
        muts.append(("unterminated string", src.replace('"x"', '"x') if '"x"' in src else src + ' "open'))
        muts.append(("stray character", src.replace("=", "= $", 1)))
        muts.append(("dangling backslash in string", src.replace('"x"', '"x\\"') if '"x"' in src else src.replace('"v"', '"v\\"')))
        muts.append(("bad escape in string", src.replace('"x"', '"\\xZZ"') if '"x"' in src else src.replace('"v"', '"\\xZZ"')))
        muts.append(("truncated", src[: len(src) // 2]))
        muts.append(("empty", ""))
        for name, m in muts:
            out.append({"sources": [m], "corruption": name, "same_parser": False})
    return out


def judge_corruption(case, outs):
    o = outs[0]
    if o["outcome"] == "raise" and not o.get("is_syntax"):
        return [("raises_only", case["corruption"], "malformed text raised %s instead of SyntaxError: %s" % (o.get("exc_class"), o.get("msg", "")[:80]))]
    always_bad = ("unterminated string", "truncated", "empty")
    unbalanced = case["corruption"].startswith(("delete '('", "delete ')'", "delete '['", "delete ']'", "duplicate '('", "duplicate ')'",
                                               "duplicate '['", "duplicate ']'"))
    if (case["corruption"] in always_bad or unbalanced) and o["outcome"] == "ok":
        return [("value", case["corruption"], "malformed text was accepted")]
    return []
