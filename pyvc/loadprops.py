"""C12 / C13 / C11 (load path): Program.add_command and Program.from_source under contract."""
import ast

import z3

from . import smt, spec as S
from . import heapprops  # noqa: F401 (dict / heap hooks of the dynamic fragment)
from .dyn import Val, dyn, FLD, IS_COMMAND, IS_ARGUMENT, IS_PARAM, DHAS_, DGET, DKEYS, CMD_HAS, CMD_GET, make_symmap, hashable, pystr
from .engine import Engine
from .heapprops import FrameLoop, assigned_names, _ordered
from .state import State
from .values import Unsupported, Sym, Ref, PyList, SeqV, PyDict, Bag, Obj, ClassV, Raised, ExcSym, TupleV, BuiltinV, FuncV

PRG = "mpilot/program.py"
ADD = PRG + "::Program.add_command"
FROM = PRG + "::Program.from_source"
I_ = z3.IntSort()
IS_CMDCLASS = z3.Function("is_command_class", I_, z3.BoolSort())
NEWCMD = z3.Function("new_command", I_, I_)  # the instance created by calling a command class (fresh per call site id)


class SymSet(object):
    """a set described by its membership predicate"""

    def __init__(self, mem, what="set"):
        self.mem = mem
        self.what = what


def install(eng):
    from .models import ModelMixin
    from .builtins_model import BuiltinMixin
    from .exprs import ExprMixin

    if getattr(ModelMixin, "_symset_patch", False):
        return
    orig_set = BuiltinMixin.bi_set
    orig_getattr = ModelMixin.get_attr
    orig_truth = ExprMixin.truth
    orig_call = ExprMixin.call
    orig_setitem = ModelMixin.set_item

    def bi_set(self, st, args, kw):
        if args and isinstance(args[0], Ref) and isinstance(st.get(args[0]), PyList) and st.get(args[0]).seq is not None \
                and "keys_of" in st.get(args[0]).seq.meta:
            did = st.get(args[0]).seq.meta["keys_of"]
            yield st, st.alloc(Obj(ClassV("SymSet"), {"set": SymSet(lambda k, did=did: DHAS_(did, k), "keys")}))
            return
        for r in orig_set(self, st, args, kw):
            yield r

    def get_attr(self, st, o, name):
        if isinstance(o, Ref) and isinstance(st.store.get(o.oid), Obj) and st.get(o).cls.name == "SymSet":
            if name == "difference":
                yield st, BuiltinV("symset.difference", self_val=o)
                return
            raise Unsupported("set method %s" % name)
        for r in orig_getattr(self, st, o, name):
            yield r

    def bi_symset_difference(self, st, args, kw):
        a = st.get(args[0]).fields["set"]
        other = args[1]
        if isinstance(other, Ref) and isinstance(st.get(other), PyList) and st.get(other).seq is not None and "keys_of" in st.get(other).seq.meta:
            did2 = st.get(other).seq.meta["keys_of"]
            yield st, st.alloc(Obj(ClassV("SymSet"), {"set": SymSet(lambda k, a=a, did2=did2: z3.And(a.mem(k), z3.Not(DHAS_(did2, k))), "difference")}))
            return
        raise Unsupported("set.difference with this argument")

    def truth(self, st, v):
        if isinstance(v, Ref) and isinstance(st.store.get(v.oid), Obj) and st.get(v).cls.name == "SymSet":
            ss = st.get(v).fields["set"]
            ne = smt.fresh("set_nonempty", z3.BoolSort())
            w = smt.fresh("set_witness", Val)
            k = z3.Const("set_k", Val)
            # non-empty: a witness member;  empty: no value is a member
            st.assume(z3.Implies(ne, ss.mem(w)))
            st.assume(z3.Implies(z3.Not(ne), z3.ForAll([k], z3.Not(ss.mem(k)))))
            st.ghost.setdefault("set_witness", {})[v.oid] = (ne, w, ss)
            yield st, ne
            return
        for r in orig_truth(self, st, v):
            yield r

    def call(self, st, f, args, kwargs, node=None):
        if isinstance(f, Sym) and f.kind == "dyn" and getattr(self, "load_mode", False):
            ref = Val.ref(f.t)
            if self.entails(st, z3.And(Val.is_O(f.t), IS_CMDCLASS(ref))):
                # contract of Command.__init__ through a concrete command class: a new, unfinished Command carrying its arguments
                site = smt.fresh("new_command_site", I_)
                c = NEWCMD(site)
                names = ["result_name", "arguments"]
                vals = dict(zip(names, args))
                vals.update(kwargs)
                facts = [IS_COMMAND(c)]
                for fld in ("result_name", "arguments", "program", "lineno"):
                    if fld in vals:
                        try:
                            facts.append(FLD(fld)(c) == self.to_dyn(st, vals[fld]))
                        except Unsupported:
                            pass
                st.assume(z3.And(*facts))
                st.ghost.setdefault("new_commands", []).append((c, vals))
                yield st, dyn(Val.O(c))
                return
        for r in orig_call(self, st, f, args, kwargs, node):
            yield r

    def set_item(self, st, o, idx, v):
        if isinstance(o, Ref) and isinstance(st.store.get(o.oid), Obj) and st.get(o).cls.name == "SymMap":
            st.log.append(("map-store", st.get(o).fields["kind"], idx, v))
            yield st, None
            return
        for r in orig_setitem(self, st, o, idx, v):
            yield r

    BuiltinMixin.bi_set = bi_set
    BuiltinMixin.bi_symset_difference = bi_symset_difference
    ModelMixin.get_attr = get_attr
    ExprMixin.truth = truth
    ExprMixin.call = call
    ModelMixin.set_item = set_item
    ModelMixin._symset_patch = True


class AddLoop(S.LoopContract):
    """after j arguments: every one of them is a declared input (or extra inputs are allowed); command_args collects them"""

    def inv(self, I):
        eng, st = I.eng, I.st
        I.temps("name", "value")
        I.covered.add("command_args")
        hx = eng.lx
        j = I.j
        keys = DKEYS(hx["args_did"])
        ok = lambda k: z3.Or(DHAS_(hx["inputs_did"], keys[k]), eng.dyn_truthy(hx["allow_extra"]))
        I.forall_k("every argument so far is declared", lambda k: z3.Implies(z3.And(k >= 0, k < j), ok(k)))
        if I.mode == "abstract":
            st.env["command_args"] = st.alloc(Bag("command_args"))


def _exc_fields(st, exc):
    return st.get(exc).fields if isinstance(exc, Ref) else {}


def verify_add_command(repo):
    smt.QUANT["on"] = True
    eng = Engine(repo, dict(S.CONTRACTS), dict(S.LOOPS))
    install(eng)
    eng.load_mode = True
    eng.heap_mode = True
    recs = eng.results
    fi = repo.func(ADD)
    eng.current = fi
    eng.inline_ok = {"mpilot/arguments.py::Argument.__init__", "mpilot/arguments.py::ListArgument.__init__"}
    eng.loop_contracts[(fi.key, "for", 0)] = AddLoop()
    st = State()
    st.add_cell("c")
    st.kterms.append(z3.IntVal(0))
    prog_ref = st.alloc(Obj(ClassV("Program", repo.modules[PRG].classes["Program"]), {}), fresh=False)
    prog_term = Val.O(z3.IntVal(-prog_ref.oid))
    st.store[prog_ref.oid] = Obj(ClassV("Program", repo.modules[PRG].classes["Program"]), {"commands": make_symmap(st, "commands", prog_term)})
    cc = smt.fresh("command_cls", I_)
    rn = smt.fresh("result_name", Val)
    args = smt.fresh("arguments", Val)
    lineno = dyn(smt.fresh("lineno", Val))
    req, inputs = FLD("required_inputs")(cc), FLD("inputs")(cc)
    st.assume(z3.And(IS_CMDCLASS(cc), Val.is_D(req), Val.is_D(inputs), Val.is_D(args), Val.is_S(rn), Val.is_S(FLD("name")(cc))))
    # arguments maps names (strings) to values: the keys of a dict are hashable
    k0 = z3.Int("ak")
    keys = DKEYS(Val.did(args))
    st.assume(z3.ForAll([k0], z3.Implies(z3.And(k0 >= 0, k0 < z3.Length(keys)), z3.And(Val.is_S(keys[k0]), DHAS_(Val.did(args), keys[k0])))))
    kv = z3.Const("akv", Val)
    IDX = z3.Function("key_index", I_, Val, I_)
    ad = Val.did(args)
    st.assume(z3.ForAll([kv], z3.Implies(DHAS_(ad, kv), z3.And(IDX(ad, kv) >= 0, IDX(ad, kv) < z3.Length(keys), keys[IDX(ad, kv)] == kv))))
    eng.lx = {"args_did": Val.did(args), "inputs_did": Val.did(inputs), "allow_extra": FLD("allow_extra_inputs")(cc)}
    label = fi.key
    missing = lambda k: z3.And(DHAS_(Val.did(req), k), z3.Not(DHAS_(Val.did(args), k)))
    undeclared = lambda k: z3.And(DHAS_(Val.did(args), k), z3.Not(DHAS_(Val.did(inputs), k)))
    allow = eng.dyn_truthy(FLD("allow_extra_inputs")(cc))
    dup = CMD_HAS(prog_term, Val.sval(rn))
    kq = z3.Const("q", Val)
    m = lambda c: {"clause": c}
    npaths = 0
    try:
        outs = list(eng.run_function(fi, st, {"self": prog_ref, "command_cls": dyn(Val.O(cc)), "result_name": dyn(rn), "arguments": dyn(args), "lineno": lineno}, cls=fi.cls))
    except Unsupported as e:
        recs.append({"name": label + "/supported", "status": "unknown", "backend": "engine", "time_s": 0, "function": fi.key, "clause": "wf", "reason": "unsupported: %s" % e})
        smt.QUANT["on"] = False
        return recs, [fi.describe()]
    for s1, out in outs:
        npaths += 1
        if out[0] == "raise":
            exc = out[1]
            nm = "<sym>" if isinstance(exc, ExcSym) else s1.get(exc).cls.name
            f = _exc_fields(s1, exc)
            same_line = f.get("lineno") is lineno
            if nm == "DuplicateResult":
                eng.oblige(s1, label + "/raises DuplicateResult => the result name is already used", dup, kind="raises", meta=m("wf"), assume_after=False)
                eng.oblige(s1, label + "/DuplicateResult names the result and carries the command's line",
                           z3.And(z3.BoolVal(bool(same_line)), eng.to_dyn(s1, f.get("result")) == rn), kind="raises", meta=m("lineno"), assume_after=False)
            elif nm == "MissingParameters":
                eng.oblige(s1, label + "/raises MissingParameters => some required parameter is absent (and the name is free)",
                           z3.And(z3.Not(dup), z3.Exists([kq], missing(kq))), kind="raises", meta=m("wf"), assume_after=False)
                eng.oblige(s1, label + "/MissingParameters carries the command's line", z3.BoolVal(bool(same_line)), kind="raises", meta=m("lineno"), assume_after=False)
                ps = f.get("parameters")
                okp = isinstance(ps, Ref) and isinstance(s1.get(ps), Obj) and s1.get(ps).cls.name == "SymSet"
                if okp:
                    mem = s1.get(ps).fields["set"].mem
                    eng.oblige(s1, label + "/MissingParameters lists exactly the absent required parameters", z3.ForAll([kq], mem(kq) == missing(kq)), kind="raises",
                               meta=m("wf"), assume_after=False)
                else:
                    recs.append({"name": label + "/MissingParameters lists exactly the absent required parameters", "status": "sat", "backend": "engine", "time_s": 0,
                                 "function": fi.key, "clause": "wf"})
            elif nm == "NoSuchParameter":
                pn = f.get("parameter")
                pt = eng.to_dyn(s1, pn) if pn is not None else None
                eng.oblige(s1, label + "/raises NoSuchParameter => that argument is undeclared and extra inputs are not allowed",
                           z3.And(z3.Not(dup), z3.Not(z3.Exists([kq], missing(kq))), z3.Not(allow), undeclared(pt)) if pt is not None else z3.BoolVal(False),
                           kind="raises", meta=m("wf"), assume_after=False)
                # the line of the offending argument when it is an Argument object, else none
                val = DGET(Val.did(args), pt)
                want = z3.If(z3.And(Val.is_O(val), IS_ARGUMENT(Val.ref(val))), FLD("lineno")(Val.ref(val)), Val.N)
                ln = f.get("lineno")
                eng.oblige(s1, label + "/NoSuchParameter carries the line of the offending argument", (eng.to_dyn(s1, ln) == want), kind="raises", meta=m("lineno"), assume_after=False)
            else:
                eng.oblige(s1, label + "/raises_only(%s)" % nm, z3.BoolVal(False), kind="raises", meta=m("raises_only"), assume_after=False)
            continue
        # accepted
        eng.oblige(s1, label + "/accepted => result name free, nothing required is absent, nothing undeclared unless allowed",
                   z3.And(z3.Not(dup), z3.Not(z3.Exists([kq], missing(kq))), z3.Or(allow, z3.Not(z3.Exists([kq], undeclared(kq))))), kind="ensures", meta=m("wf"), assume_after=False)
        stores = [ev for ev in s1.log if ev[0] == "map-store" and ev[1] == "commands"]
        okst = len(stores) == 1
        recs.append({"name": label + "/accepted => exactly one command is stored", "status": "unsat" if okst else "sat", "backend": "engine", "time_s": 0,
                     "function": fi.key, "clause": "wf"})
        if okst:
            _, _, key, val = stores[0]
            vt = eng.to_dyn(s1, val)
            c = Val.ref(vt)
            eng.oblige(s1, label + "/the command is stored under its result name, knows its program and line",
                       z3.And(eng.to_dyn(s1, key) == rn, IS_COMMAND(c), FLD("result_name")(c) == rn, FLD("lineno")(c) == lineno.t, FLD("program")(c) == prog_term),
                       kind="ensures", meta=m("wf"), assume_after=False)
    recs.append({"name": label + "/paths", "status": "unsat" if npaths else "sat", "backend": "engine", "time_s": 0, "function": fi.key, "clause": "cover", "kind": "cover"})
    smt.QUANT["on"] = False
    return recs, [fi.describe()]
