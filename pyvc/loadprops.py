"""C12 / C13 / C11 (load path): Program.add_command and Program.from_source under contract."""
import ast

import z3

from . import smt, spec as S
from . import heapprops  # noqa: F401 (dict / heap hooks of the dynamic fragment)
from .dyn import Val, dyn, FLD, IS_COMMAND, IS_ARGUMENT, IS_PARAM, DHAS_, DGET, DKEYS, CMD_HAS, CMD_GET, make_symmap, hashable, pystr
from .engine import Engine
from .heapprops import FrameLoop, assigned_names, _ordered
from .state import State
from .values import Unsupported, Sym, Ref, PyList, SeqV, PyDict, Bag, Obj, ClassV, Raised, ExcSym, TupleV, BuiltinV, FuncV

PRG = "mpilot/program.py"
ADD = PRG + "::Program.add_command"
FROM = PRG + "::Program.from_source"
I_ = z3.IntSort()
IS_CMDCLASS = z3.Function("is_command_class", I_, z3.BoolSort())
NEWCMD = z3.Function("new_command", I_, I_)  # the instance created by calling a command class (fresh per call site id)


class SymSet(object):
    """a set described by its membership predicate"""

    def __init__(self, mem, what="set"):
        self.mem = mem
        self.what = what


def install(eng):
    from .models import ModelMixin
    from .builtins_model import BuiltinMixin
    from .exprs import ExprMixin

    if getattr(ModelMixin, "_symset_patch", False):
        return
    orig_set = BuiltinMixin.bi_set
    orig_getattr = ModelMixin.get_attr
    orig_truth = ExprMixin.truth
    orig_call = ExprMixin.call
    orig_setitem = ModelMixin.set_item

    def bi_set(self, st, args, kw):
        if args and isinstance(args[0], Ref) and isinstance(st.get(args[0]), PyList) and st.get(args[0]).seq is not None \
                and "keys_of" in st.get(args[0]).seq.meta:
            did = st.get(args[0]).seq.meta["keys_of"]
            yield st, st.alloc(Obj(ClassV("SymSet"), {"set": SymSet(lambda k, did=did: DHAS_(did, k), "keys")}))
            return
        for r in orig_set(self, st, args, kw):
            yield r

    def get_attr(self, st, o, name):
        if isinstance(o, Ref) and isinstance(st.store.get(o.oid), Obj) and st.get(o).cls.name == "SymSet":
            if name == "difference":
                yield st, BuiltinV("symset.difference", self_val=o)
                return
            raise Unsupported("set method %s" % name)
        for r in orig_getattr(self, st, o, name):
            yield r

    def bi_symset_difference(self, st, args, kw):
        a = st.get(args[0]).fields["set"]
        other = args[1]
        if isinstance(other, Ref) and isinstance(st.get(other), PyList) and st.get(other).seq is not None and "keys_of" in st.get(other).seq.meta:
            did2 = st.get(other).seq.meta["keys_of"]
            yield st, st.alloc(Obj(ClassV("SymSet"), {"set": SymSet(lambda k, a=a, did2=did2: z3.And(a.mem(k), z3.Not(DHAS_(did2, k))), "difference")}))
            return
        raise Unsupported("set.difference with this argument")

    def truth(self, st, v):
        if isinstance(v, Ref) and isinstance(st.store.get(v.oid), Obj) and st.get(v).cls.name == "SymSet":
            ss = st.get(v).fields["set"]
            ne = smt.fresh("set_nonempty", z3.BoolSort())
            w = smt.fresh("set_witness", Val)
            k = z3.Const("set_k", Val)
            # non-empty: a witness member;  empty: no value is a member
            st.assume(z3.Implies(ne, ss.mem(w)))
            st.assume(z3.Implies(z3.Not(ne), z3.ForAll([k], z3.Not(ss.mem(k)))))
            st.ghost.setdefault("set_witness", {})[v.oid] = (ne, w, ss)
            yield st, ne
            return
        for r in orig_truth(self, st, v):
            yield r

    def call(self, st, f, args, kwargs, node=None):
        if isinstance(f, Sym) and f.kind == "dyn" and getattr(self, "load_mode", False):
            ref = Val.ref(f.t)
            if self.entails(st, z3.And(Val.is_O(f.t), IS_CMDCLASS(ref))):
                # contract of Command.__init__ through a concrete command class: a new, unfinished Command carrying its arguments
                site = smt.fresh("new_command_site", I_)
                c = NEWCMD(site)
                names = ["result_name", "arguments"]
                vals = dict(zip(names, args))
                vals.update(kwargs)
                facts = [IS_COMMAND(c)]
                for fld in ("result_name", "arguments", "program", "lineno"):
                    if fld in vals:
                        try:
                            facts.append(FLD(fld)(c) == self.to_dyn(st, vals[fld]))
                        except Unsupported:
                            pass
                st.assume(z3.And(*facts))
                st.ghost.setdefault("new_commands", []).append((c, vals))
                yield st, dyn(Val.O(c))
                return
        for r in orig_call(self, st, f, args, kwargs, node):
            yield r

    def set_item(self, st, o, idx, v):
        if isinstance(o, Ref) and isinstance(st.store.get(o.oid), Obj) and st.get(o).cls.name == "SymMap":
            st.log.append(("map-store", st.get(o).fields["kind"], idx, v))
            yield st, None
            return
        for r in orig_setitem(self, st, o, idx, v):
            yield r

    BuiltinMixin.bi_set = bi_set
    BuiltinMixin.bi_symset_difference = bi_symset_difference
    ModelMixin.get_attr = get_attr
    ExprMixin.truth = truth
    ExprMixin.call = call
    ModelMixin.set_item = set_item
    ModelMixin._symset_patch = True


class AddLoop(S.LoopContract):
    """after j arguments: every one of them is a declared input (or extra inputs are allowed); command_args collects them"""

    def inv(self, I):
        eng, st = I.eng, I.st
        I.temps("name", "value")
        acc = I.a("command_args")
        I.covered.add(acc)
        hx = eng.lx
        j = I.j
        keys = DKEYS(hx["args_did"])
        ok = lambda k: z3.Or(DHAS_(hx["inputs_did"], keys[k]), eng.dyn_truthy(hx["allow_extra"]))
        I.forall_k("every argument so far is declared", lambda k: z3.Implies(z3.And(k >= 0, k < j), ok(k)))
        if I.mode == "abstract":
            st.env[acc] = st.alloc(Bag("command_args"))


def _exc_fields(st, exc):
    return st.get(exc).fields if isinstance(exc, Ref) else {}


def verify_add_command(repo):
    smt.QUANT["on"] = True
    eng = Engine(repo, dict(S.CONTRACTS), dict(S.LOOPS))
    install(eng)
    eng.load_mode = True
    eng.heap_mode = True
    recs = eng.results
    fi = repo.func(ADD)
    eng.current = fi
    eng.inline_ok = {"mpilot/arguments.py::Argument.__init__", "mpilot/arguments.py::ListArgument.__init__"}
    eng.loop_contracts[(fi.key, "for", 0)] = AddLoop()
    st = State()
    st.add_cell("c")
    st.kterms.append(z3.IntVal(0))
    prog_ref = st.alloc(Obj(ClassV("Program", repo.modules[PRG].classes["Program"]), {}), fresh=False)
    prog_term = Val.O(z3.IntVal(-prog_ref.oid))
    st.store[prog_ref.oid] = Obj(ClassV("Program", repo.modules[PRG].classes["Program"]), {"commands": make_symmap(st, "commands", prog_term)})
    cc = smt.fresh("command_cls", I_)
    rn = smt.fresh("result_name", Val)
    args = smt.fresh("arguments", Val)
    lineno = dyn(smt.fresh("lineno", Val))
    req, inputs = FLD("required_inputs")(cc), FLD("inputs")(cc)
    st.assume(z3.And(IS_CMDCLASS(cc), Val.is_D(req), Val.is_D(inputs), Val.is_D(args), Val.is_S(rn), Val.is_S(FLD("name")(cc))))
    # arguments maps names (strings) to values: the keys of a dict are hashable
    k0 = z3.Int("ak")
    keys = DKEYS(Val.did(args))
    st.assume(z3.ForAll([k0], z3.Implies(z3.And(k0 >= 0, k0 < z3.Length(keys)), z3.And(Val.is_S(keys[k0]), DHAS_(Val.did(args), keys[k0])))))
    kv = z3.Const("akv", Val)
    IDX = z3.Function("key_index", I_, Val, I_)
    ad = Val.did(args)
    st.assume(z3.ForAll([kv], z3.Implies(DHAS_(ad, kv), z3.And(IDX(ad, kv) >= 0, IDX(ad, kv) < z3.Length(keys), keys[IDX(ad, kv)] == kv))))
    eng.lx = {"args_did": Val.did(args), "inputs_did": Val.did(inputs), "allow_extra": FLD("allow_extra_inputs")(cc)}
    label = fi.key
    missing = lambda k: z3.And(DHAS_(Val.did(req), k), z3.Not(DHAS_(Val.did(args), k)))
    undeclared = lambda k: z3.And(DHAS_(Val.did(args), k), z3.Not(DHAS_(Val.did(inputs), k)))
    allow = eng.dyn_truthy(FLD("allow_extra_inputs")(cc))
    dup = CMD_HAS(prog_term, Val.sval(rn))
    kq = z3.Const("q", Val)
    m = lambda c: {"clause": c}
    npaths = 0
    try:
        outs = list(eng.run_function(fi, st, {"self": prog_ref, "command_cls": dyn(Val.O(cc)), "result_name": dyn(rn), "arguments": dyn(args), "lineno": lineno}, cls=fi.cls))
    except Unsupported as e:
        recs.append({"name": label + "/supported", "status": "unknown", "backend": "engine", "time_s": 0, "function": fi.key, "clause": "supported", "reason": "unsupported: %s" % e})
        smt.QUANT["on"] = False
        return recs, [fi.describe()]
    for s1, out in outs:
        npaths += 1
        if out[0] == "raise":
            exc = out[1]
            nm = "<sym>" if isinstance(exc, ExcSym) else s1.get(exc).cls.name
            f = _exc_fields(s1, exc)
            same_line = f.get("lineno") is lineno
            if nm == "DuplicateResult":
                eng.oblige(s1, label + "/raises DuplicateResult => the result name is already used", dup, kind="raises", meta=m("wf"), assume_after=False)
                eng.oblige(s1, label + "/DuplicateResult names the result and carries the command's line",
                           z3.And(z3.BoolVal(bool(same_line)), eng.to_dyn(s1, f.get("result")) == rn), kind="raises", meta=m("lineno"), assume_after=False)
            elif nm == "MissingParameters":
                eng.oblige(s1, label + "/raises MissingParameters => some required parameter is absent (and the name is free)",
                           z3.And(z3.Not(dup), z3.Exists([kq], missing(kq))), kind="raises", meta=m("wf"), assume_after=False)
                eng.oblige(s1, label + "/MissingParameters carries the command's line", z3.BoolVal(bool(same_line)), kind="raises", meta=m("lineno"), assume_after=False)
                ps = f.get("parameters")
                okp = isinstance(ps, Ref) and isinstance(s1.get(ps), Obj) and s1.get(ps).cls.name == "SymSet"
                if okp:
                    mem = s1.get(ps).fields["set"].mem
                    eng.oblige(s1, label + "/MissingParameters lists exactly the absent required parameters", z3.ForAll([kq], mem(kq) == missing(kq)), kind="raises",
                               meta=m("wf"), assume_after=False)
                else:
                    recs.append({"name": label + "/MissingParameters lists exactly the absent required parameters", "status": "sat", "backend": "engine", "time_s": 0,
                                 "function": fi.key, "clause": "wf"})
            elif nm == "NoSuchParameter":
                pn = f.get("parameter")
                pt = eng.to_dyn(s1, pn) if pn is not None else None
                eng.oblige(s1, label + "/raises NoSuchParameter => that argument is undeclared and extra inputs are not allowed",
                           z3.And(z3.Not(dup), z3.Not(z3.Exists([kq], missing(kq))), z3.Not(allow), undeclared(pt)) if pt is not None else z3.BoolVal(False),
                           kind="raises", meta=m("wf"), assume_after=False)
                # the line of the offending argument when it is an Argument object, else none
                val = DGET(Val.did(args), pt)
                want = z3.If(z3.And(Val.is_O(val), IS_ARGUMENT(Val.ref(val))), FLD("lineno")(Val.ref(val)), Val.N)
                ln = f.get("lineno")
                eng.oblige(s1, label + "/NoSuchParameter carries the line of the offending argument", (eng.to_dyn(s1, ln) == want), kind="raises", meta=m("lineno"), assume_after=False)
            else:
                eng.oblige(s1, label + "/raises_only(%s)" % nm, z3.BoolVal(False), kind="raises", meta=m("raises_only"), assume_after=False)
            continue
        # accepted
        eng.oblige(s1, label + "/accepted => result name free, nothing required is absent, nothing undeclared unless allowed",
                   z3.And(z3.Not(dup), z3.Not(z3.Exists([kq], missing(kq))), z3.Or(allow, z3.Not(z3.Exists([kq], undeclared(kq))))), kind="ensures", meta=m("wf"), assume_after=False)
        stores = [ev for ev in s1.log if ev[0] == "map-store" and ev[1] == "commands"]
        okst = len(stores) == 1
        recs.append({"name": label + "/accepted => exactly one command is stored", "status": "unsat" if okst else "sat", "backend": "engine", "time_s": 0,
                     "function": fi.key, "clause": "wf"})
        if okst:
            _, _, key, val = stores[0]
            vt = eng.to_dyn(s1, val)
            c = Val.ref(vt)
            eng.oblige(s1, label + "/the command is stored under its result name and knows its program",
                       z3.And(eng.to_dyn(s1, key) == rn, IS_COMMAND(c), FLD("result_name")(c) == rn, FLD("program")(c) == prog_term),
                       kind="ensures", meta=m("wf"), assume_after=False)
            eng.oblige(s1, label + "/the command carries the line handed to add_command", FLD("lineno")(c) == lineno.t, kind="ensures", meta=m("lineno"), assume_after=False)
    recs.append({"name": label + "/paths", "status": "unsat" if npaths else "sat", "backend": "engine", "time_s": 0, "function": fi.key, "clause": "cover", "kind": "cover"})
    smt.QUANT["on"] = False
    return recs, [fi.describe()]


# =========================================================================== Program.from_source
LIB_HAS = z3.Function("library_has", Val, Val, z3.BoolSort())
LIB_GET = z3.Function("library_get", Val, Val, I_)


class ProgramInitContract(object):
    """Program.__init__ (its lookup logic is C19): a program with no commands and a command library; may raise MPilotError"""

    def apply(self, eng, st, f, args, kwargs):
        ref = f.self_val
        o = st.get(ref)
        term = Val.O(z3.IntVal(-ref.oid))
        o2 = Obj(o.cls, dict(o.fields))
        o2.fields["commands"] = make_symmap(st, "commands", term)
        o2.fields["working_dir"] = kwargs.get("working_dir")
        o2.fields["command_library"] = st.alloc(Obj(ClassV("LibMap"), {"owner": term}), fresh=False)
        st.set(ref, o2)
        eng.lx["prog_term"] = term
        s2 = st.fork()  # (fork before yielding: the consumer keeps mutating the yielded state)
        yield st, None
        yield s2, Raised(ExcSym("MPilotError"))


class NoopInit(object):
    def apply(self, eng, st, f, args, kwargs):
        yield st, None


class ParseContract(object):
    """Parser.parse (C10): a ProgramNode whose nodes have the shapes the grammar actions build, or SyntaxError / ProgramError"""

    def apply(self, eng, st, f, args, kwargs):
        pn = smt.fresh("program_node", I_)
        cmds = FLD("commands")(pn)
        st2 = st.fork()
        st2.assume(z3.And(Val.is_L(cmds), z3.Or(FLD("version")(pn) == Val.I(2), FLD("version")(pn) == Val.I(3))))
        st2.ghost["node_lists"] = [Val.items(cmds)]
        st2.ghost["parsed_commands"] = cmds
        node_shape_facts(st2, Val.items(cmds))
        yield st2, dyn(Val.O(pn))
        s3 = st.fork()
        yield s3, Raised(s3.alloc(Obj(ClassV("SyntaxError"), {})))
        s4 = st.fork()
        yield s4, Raised(ExcSym("ProgramError"))


class ConvertContract(object):
    """convert_eems2_commands (C16): one converted node per node, or ProgramError"""

    def apply(self, eng, st, f, args, kwargs):
        parsed = st.ghost.get("parsed_commands")
        if parsed is not None and getattr(eng, "from_source_site", False):
            # C16: an EEMS 2.0 file is converted as a whole - the converter is handed every parsed command node, in order
            eng.oblige(st, eng.current.key + "/the converter receives the whole list of parsed command nodes", eng.to_dyn(st, args[0]) == parsed, kind="call",
                       meta={"clause": "convert"}, assume_after=False)
        out = smt.fresh("converted_nodes", Val)
        s2 = st.fork()
        s2.assume(Val.is_L(out))
        node_shape_facts(s2, Val.items(out))
        s2.ghost["node_lists"] = list(s2.ghost.get("node_lists", [])) + [Val.items(out)]
        yield s2, dyn(out)
        s3 = st.fork()
        yield s3, Raised(ExcSym("ProgramError"))


class AddCommandContract(object):
    """Program.add_command (verified above): stores the command or raises DuplicateResult / MissingParameters / NoSuchParameter"""

    def apply(self, eng, st, f, args, kwargs):
        st.log.append(("add_command", args))
        roles = eng.lx.get("roles", {})
        node = st.env.get(roles.get("node", "node"))
        argsvar = roles.get("arguments", "arguments")
        if getattr(eng, "from_source_site", False) and node is None:
            raise Unsupported("from_source: add_command is not called inside the loop over the command nodes")
        if node is not None and getattr(eng, "from_source_site", False):
            # what from_source must hand over: the library's class for the node's command name, the node's result name and line
            nd = Val.ref(eng.to_dyn(st, node))
            lib = eng.lx["prog_term"]
            ln = args[3] if len(args) > 3 else kwargs.get("lineno")
            m = {"clause": "wf"}
            eng.oblige(st, eng.current.key + "/add_command receives the library class of the node's command name",
                       eng.to_dyn(st, args[0]) == Val.O(LIB_GET(lib, FLD("command")(nd))), kind="call", meta=m, assume_after=False)
            eng.oblige(st, eng.current.key + "/add_command receives the node's result name", eng.to_dyn(st, args[1]) == FLD("result_name")(nd), kind="call", meta=m,
                       assume_after=False)
            eng.oblige(st, eng.current.key + "/add_command receives the node's line", z3.BoolVal(False) if ln is None else eng.to_dyn(st, ln) == FLD("lineno")(nd), kind="call",
                       meta={"clause": "lineno"}, assume_after=False)
            eng.oblige(st, eng.current.key + "/add_command receives the arguments built for this node", z3.BoolVal(args[2] is st.env.get(argsvar) or (
                isinstance(args[2], Ref) and isinstance(st.env.get(argsvar), Ref) and args[2].oid == st.env[argsvar].oid)), kind="call", meta=m, assume_after=False)
        forks = [(nm, st.fork()) for nm in ("DuplicateResult", "MissingParameters", "NoSuchParameter")]
        yield st, None
        for nm, s2 in forks:
            ln = args[3] if len(args) > 3 else kwargs.get("lineno")
            yield s2, Raised(s2.alloc(Obj(eng.lookup_class(nm), {"lineno": ln})))


class ResolveListContract(object):
    """nested resolve_list(name, expression_node): a ListArgument for that name carrying the node's line and element lines. Pure."""

    def apply(self, eng, st, f, args, kwargs):
        name, node = args
        la = smt.fresh("list_argument", I_)
        st.assume(z3.And(IS_ARGUMENT(la), FLD("name")(la) == eng.to_dyn(st, name), FLD("lineno")(la) == FLD("lineno")(Val.ref(eng.to_dyn(st, node)))))
        yield st, dyn(Val.O(la))


def node_shape_facts(st, items, converted=False):
    """postconditions of the grammar actions (C10) for a list of CommandNodes: quantified over positions.
    converted=True: nodes built by convert_eems2_commands (C16): the result name is the node's own name or the *value* of its
    NewFieldName / InFieldName argument (text is guaranteed by the converter's contract, checked under C16)"""
    k, i = z3.Ints("nk ni")
    nd = Val.ref(items[k])
    args = Val.items(FLD("arguments")(nd))
    an = Val.ref(args[i])
    ev = FLD("value")(an)
    st.assume(z3.ForAll([k], z3.Implies(z3.And(k >= 0, k < z3.Length(items)), z3.And(
        Val.is_O(items[k]), Val.is_L(FLD("arguments")(nd)), Val.is_S(FLD("command")(nd)),
        z3.Or(Val.is_N(FLD("result_name")(nd)), Val.is_S(FLD("result_name")(nd)))))))
    st.assume(z3.ForAll([k, i], z3.Implies(z3.And(k >= 0, k < z3.Length(items), i >= 0, i < z3.Length(args)), z3.And(
        Val.is_O(args[i]), Val.is_S(FLD("name")(an)), Val.is_O(ev)))))
    kv = z3.Const("nkv", Val)
    from .dyn import DGET
    inner = FLD("value")(Val.ref(ev))
    # p_dict / p_dict_items: the values of a dict expression are ExpressionNodes
    st.assume(z3.ForAll([k, i, kv], z3.Implies(z3.And(k >= 0, k < z3.Length(items), i >= 0, i < z3.Length(args), Val.is_D(inner)),
                                               Val.is_O(DGET(Val.did(inner), kv)))))


class FromOuterLoop(S.LoopContract):
    """after j nodes: each of them names a command of the library (else CommandDoesNotExist was raised)"""

    def __init__(self, locals_):
        self.locals = locals_

    def inv(self, I):
        eng, st = I.eng, I.st
        for n in self.locals:
            I.covered.add(n)
            if I.mode == "abstract" and n in st.env:
                cur = st.env[n]
                st.env[n] = st.alloc(Bag(n)) if (isinstance(cur, Ref) and isinstance(st.get(cur), (PyList, PyDict, Bag))) else dyn(smt.fresh("local_" + n, Val))
        items = st.ghost.get("loop_nodes")
        if items is None:
            return
        j = I.j
        lib = eng.lx["prog_term"]
        I.forall_k("every node so far names a library command", lambda k: z3.Implies(z3.And(k >= 0, k < j), LIB_HAS(lib, FLD("command")(Val.ref(items[k])))))


def install_from_source(eng):
    from .models import ModelMixin

    orig_getattr = ModelMixin.get_attr

    if not getattr(ModelMixin, "_libmap_patch", False):
        def get_attr(self, st, o, name):
            if isinstance(o, Ref) and isinstance(st.store.get(o.oid), Obj) and st.get(o).cls.name == "LibMap" and name == "get":
                yield st, BuiltinV("libmap.get", self_val=o)
                return
            for r in orig_getattr(self, st, o, name):
                yield r

        def bi_libmap_get(self, st, args, kw):
            owner = st.get(args[0]).fields["owner"]
            key = self.to_dyn(st, args[1])
            c = LIB_GET(owner, key)
            st.assume(z3.Implies(LIB_HAS(owner, key), IS_CMDCLASS(c)))
            yield st, dyn(z3.If(LIB_HAS(owner, key), Val.O(c), Val.N))

        def bi_any(self, st, args, kw):
            (it,) = args
            # any(...) of an already evaluated sequence/generator: an undetermined truth value (the element test was evaluated for effects/raises)
            yield st, Sym("bool", smt.fresh("any", z3.BoolSort()))

        def bi_collections_OrderedDict(self, st, args, kw):
            yield st, st.alloc(PyDict({}))

        orig_set_item = ModelMixin.set_item

        def set_item(self, st, o, idx, v):
            roles = getattr(self, "lx", {}).get("roles", {}) if getattr(self, "from_source_site", False) else {}
            argsvar, anvar = roles.get("arguments", "arguments"), roles.get("argument_node", "argument_node")
            if getattr(self, "from_source_site", False) and isinstance(o, Ref) and isinstance(st.env.get(argsvar), Ref) and o.oid == st.env[argsvar].oid \
                    and st.env.get(anvar) is not None:
                an = Val.ref(self.to_dyn(st, st.env[anvar]))
                key = self.current.key
                if isinstance(v, Ref) and isinstance(st.store.get(v.oid), Obj):
                    ob = st.get(v)
                    isarg = ob.cls.name in ("Argument", "ListArgument")
                    nm = self.to_dyn(st, ob.fields.get("name")) if "name" in ob.fields else None
                    ln = self.to_dyn(st, ob.fields.get("lineno")) if "lineno" in ob.fields else None
                    val = ob.fields.get("value")
                else:
                    t = self.to_dyn(st, v)
                    isarg = self.entails(st, z3.And(Val.is_O(t), IS_ARGUMENT(Val.ref(t))))
                    nm, ln, val = FLD("name")(Val.ref(t)), FLD("lineno")(Val.ref(t)), None
                self.oblige(st, key + "/every stored argument is an Argument", z3.BoolVal(bool(isarg)), kind="store", meta={"clause": "wf"}, assume_after=False)
                self.oblige(st, key + "/stored under the argument node's name", self.to_dyn(st, idx) == FLD("name")(an), kind="store", meta={"clause": "wf"}, assume_after=False)
                self.oblige(st, key + "/the Argument carries the argument node's name", z3.BoolVal(False) if nm is None else nm == FLD("name")(an), kind="store",
                            meta={"clause": "wf"}, assume_after=False)
                self.oblige(st, key + "/the Argument carries the line of the argument or of its value expression", z3.BoolVal(False) if ln is None else z3.Or(ln == FLD("lineno")(an), ln == FLD("lineno")(Val.ref(FLD("value")(an)))), kind="store",
                            meta={"clause": "lineno"}, assume_after=False)
                if val is not None and not (isinstance(val, Ref) and isinstance(st.store.get(val.oid), (Bag, Obj))):
                    # scalar branch: the parsed value itself
                    self.oblige(st, key + "/a scalar Argument carries the parsed value", self.to_dyn(st, val) == FLD("value")(Val.ref(FLD("value")(an))), kind="store",
                                meta={"clause": "wf"}, assume_after=False)
            for r in orig_set_item(self, st, o, idx, v):
                yield r

        ModelMixin.set_item = set_item
        ModelMixin.get_attr = get_attr
        ModelMixin.bi_libmap_get = bi_libmap_get
        ModelMixin.bi_any = bi_any
        ModelMixin.bi_collections_OrderedDict = bi_collections_OrderedDict
        ModelMixin._libmap_patch = True


def verify_from_source(repo):
    smt.QUANT["on"] = True
    eng = Engine(repo, {}, dict(S.LOOPS))
    install(eng)
    install_from_source(eng)
    from . import parseprops

    parseprops.install_action_models(eng, {})
    eng.load_mode = True
    eng.heap_mode = True
    eng.from_source_site = True
    eng.lx = {}
    recs = eng.results
    fi = repo.func(FROM)
    eng.current = fi
    eng.inline_ok = {"mpilot/arguments.py::Argument.__init__", "mpilot/arguments.py::ListArgument.__init__", PRG + "::Program.find_command_class"}
    eng.contracts = {
        PRG + "::Program.__init__": ProgramInitContract(),
        "mpilot/parser/parser.py::Parser.__init__": NoopInit(),
        "mpilot/parser/parser.py::Parser.parse": ParseContract(),
        "mpilot/utils.py::convert_eems2_commands": ConvertContract(),
        ADD: AddCommandContract(),
        FROM + ".resolve_list": ResolveListContract(),
    }
    loops = [n for n in _ordered(fi.node) if isinstance(n, (ast.For, ast.While))]
    # the locals the obligations talk about, by role: the outer loop's node, the inner loop's argument node, the dict handed to add_command
    roles = {}
    if len(loops) >= 2 and isinstance(loops[0].target, ast.Name) and isinstance(loops[1].target, ast.Name):
        roles["node"], roles["argument_node"] = loops[0].target.id, loops[1].target.id
        calls = [c for c in ast.walk(loops[0]) if isinstance(c, ast.Call) and isinstance(c.func, ast.Attribute) and c.func.attr == "add_command"]
        if len(calls) == 1 and len(calls[0].args) >= 3 and isinstance(calls[0].args[2], ast.Name):
            roles["arguments"] = calls[0].args[2].id
    if len(roles) != 3:
        raise Unsupported("from_source does not have the shape `for node: ... for argument_node: ... add_command(cls, name, arguments, line)`")
    eng.lx["roles"] = roles
    for i, n in enumerate(loops):
        if i == 0:
            eng.loop_contracts[(fi.key, "for", i)] = FromOuterLoop(sorted(assigned_names(n)))
        else:
            eng.loop_contracts[(fi.key, "for", i)] = FrameLoop(sorted(assigned_names(n)))
    st = State()
    st.add_cell("c")
    st.kterms.append(z3.IntVal(0))
    src = Sym("str", smt.fresh("source", z3.StringSort()))
    cls = ClassV("Program", repo.modules[PRG].classes["Program"])

    # remember the node list the main loop iterates over, and give it the parser's shape facts
    orig_as_seq = eng.as_sequence

    def as_sequence(s, v):
        for s2, seq in orig_as_seq(s, v):
            if isinstance(seq, SeqV) and seq.tag == "dynlist" and "as_seq" in seq.meta and any(z3.simplify(seq.meta["as_seq"]).eq(z3.simplify(t)) for t in s2.ghost.get("node_lists", [])):
                s2.ghost["loop_nodes"] = seq.meta["as_seq"]
            yield s2, seq

    eng.as_sequence = as_sequence
    label = fi.key
    npaths = 0
    try:
        outs = list(eng.run_function(fi, st, {"cls": cls, "source": src, "libraries": dyn(smt.fresh("libraries", Val)), "working_dir": dyn(smt.fresh("wd", Val))}, cls=fi.cls))
    except Unsupported as e:
        recs.append({"name": label + "/supported", "status": "unknown", "backend": "engine", "time_s": 0, "function": fi.key, "clause": "wf", "reason": "unsupported: %s" % e})
        smt.QUANT["on"] = False
        return recs, [fi.describe()]
    for s1, out in outs:
        npaths += 1
        m = lambda c: {"clause": c}
        if out[0] == "raise":
            exc = out[1]
            if isinstance(exc, ExcSym):
                ok = eng.class_is_subclass(ClassV(exc.base, eng.find_exc_class(exc.base)), "MPilotError")
                recs.append({"name": label + "/raises_only(SyntaxError, MPilotError):<%s>" % exc.base, "status": "unsat" if ok else "sat", "backend": "engine", "time_s": 0,
                             "function": fi.key, "clause": "raises_only"})
                continue
            o = s1.get(exc)
            nm = o.cls.name
            ok = nm == "SyntaxError" or eng.class_is_subclass(o.cls, "MPilotError")
            if not ok:
                eng.oblige(s1, label + "/raises_only(SyntaxError, MPilotError):%s" % nm, z3.BoolVal(False), kind="raises", meta=m("raises_only"), assume_after=False)
            else:
                recs.append({"name": label + "/raises_only(SyntaxError, MPilotError):%s" % nm, "status": "unsat", "backend": "engine", "time_s": 0, "function": fi.key,
                             "clause": "raises_only"})
            if nm == "CommandDoesNotExist":
                items = s1.ghost.get("loop_nodes")
                lib = eng.lx["prog_term"]
                nmv, ln = o.fields.get("name"), o.fields.get("lineno")
                ks = s1.all_kterms()
                goal = z3.Or(*[z3.And(k >= 0, k < z3.Length(items), z3.Not(LIB_HAS(lib, FLD("command")(Val.ref(items[k])))),
                                      eng.to_dyn(s1, nmv) == FLD("command")(Val.ref(items[k])), eng.to_dyn(s1, ln) == FLD("lineno")(Val.ref(items[k]))) for k in ks]) \
                    if items is not None else z3.BoolVal(False)
                eng.oblige(s1, label + "/CommandDoesNotExist names a node whose command is not in the library, with that node's line", goal, kind="raises",
                           meta=m("wf"), assume_after=False)
            continue
        items = s1.ghost.get("loop_nodes")
        if items is not None:
            k = s1.add_k("k_post")
            eng.oblige(s1, label + "/accepted => every command name is in the selected libraries",
                       z3.Implies(z3.And(k >= 0, k < z3.Length(items)), LIB_HAS(eng.lx["prog_term"], FLD("command")(Val.ref(items[k])))), kind="ensures", meta=m("wf"), assume_after=False)
    recs.append({"name": label + "/paths", "status": "unsat" if npaths else "sat", "backend": "engine", "time_s": 0, "function": fi.key, "clause": "cover", "kind": "cover"})
    smt.QUANT["on"] = False
    return recs, [fi.describe()]


def verify_resolve_list(repo):
    """body of the nested resolve_list against ResolveListContract (recursive calls use the contract)"""
    smt.QUANT["on"] = True
    eng = Engine(repo, {}, dict(S.LOOPS))
    install(eng)
    install_from_source(eng)
    eng.load_mode = True
    eng.heap_mode = True
    eng.lx = {}
    recs = eng.results
    fi = repo.func(FROM + ".resolve_list")
    eng.current = fi
    eng.inline_ok = {"mpilot/arguments.py::Argument.__init__", "mpilot/arguments.py::ListArgument.__init__"}
    eng.contracts = {FROM + ".resolve_list": ResolveListContract()}
    st = State()
    st.add_cell("c")
    st.kterms.append(z3.IntVal(0))
    name = dyn(smt.fresh("name", Val))
    nodeid = smt.fresh("expression_node", I_)
    node = dyn(Val.O(nodeid))
    elems = Val.items(FLD("value")(nodeid))
    k = z3.Int("rk")
    st.assume(z3.And(Val.is_S(name.t), Val.is_L(FLD("value")(nodeid))))
    st.assume(z3.ForAll([k], z3.Implies(z3.And(k >= 0, k < z3.Length(elems)), Val.is_O(elems[k]))))
    label = fi.key
    m = lambda c: {"clause": c}
    try:
        outs = list(eng.run_function(fi, st, {"name": name, "expression_node": node, "resolve_list": FuncV(fi, env={})}, cls=None))
    except Unsupported as e:
        recs.append({"name": label + "/supported", "status": "unknown", "backend": "engine", "time_s": 0, "function": fi.key, "clause": "wf", "reason": "unsupported: %s" % e})
        smt.QUANT["on"] = False
        return recs, [fi.describe()]
    n = 0
    for s1, out in outs:
        n += 1
        if out[0] == "raise":
            eng.oblige(s1, label + "/never raises on a parsed list expression", z3.BoolVal(False), kind="raises", meta=m("raises_only"), assume_after=False)
            continue
        v = out[1]
        ob = s1.get(v) if isinstance(v, Ref) and isinstance(s1.store.get(v.oid), Obj) else None
        eng.oblige(s1, label + "/returns a ListArgument", z3.BoolVal(ob is not None and ob.cls.name == "ListArgument"), kind="ensures", meta=m("wf"), assume_after=False)
        if ob is None:
            continue
        eng.oblige(s1, label + "/for the given name", eng.to_dyn(s1, ob.fields["name"]) == name.t, kind="ensures", meta=m("wf"), assume_after=False)
        eng.oblige(s1, label + "/with the list expression's line", eng.to_dyn(s1, ob.fields["lineno"]) == FLD("lineno")(nodeid), kind="ensures", meta=m("lineno"), assume_after=False)
        ll = ob.fields.get("list_linenos")
        lo = s1.get(ll) if isinstance(ll, Ref) else None
        seq = getattr(lo, "seq", None)
        kk = s1.add_k("k_ll")
        if seq is not None:
            eng.oblige(s1, label + "/and one line per element, the element's own", z3.And(seq.n == z3.Length(elems), z3.Implies(z3.And(kk >= 0, kk < seq.n),
                       eng.to_dyn(s1, seq.get(kk)) == FLD("lineno")(Val.ref(elems[kk])))), kind="ensures", meta=m("lineno"), assume_after=False)
        else:
            eng.oblige(s1, label + "/and one line per element, the element's own", z3.BoolVal(False), kind="ensures", meta=m("lineno"), assume_after=False)
    recs.append({"name": label + "/paths", "status": "unsat" if n else "sat", "backend": "engine", "time_s": 0, "function": fi.key, "clause": "cover", "kind": "cover"})
    smt.QUANT["on"] = False
    return recs, [fi.describe()]


# =========================================================================== mpilot.cli.mpilot.main
CLI = "mpilot/cli/mpilot.py::main"


class FromSourceContract(object):
    """Program.from_source (verified above): a Program, or SyntaxError, or an MPilotError; a ProgramError's line is None or a line of
    the source (C11: 1 <= lineno <= number of lines)"""

    def apply(self, eng, st, f, args, kwargs):
        st.log.append(("from_source", args, kwargs))
        s2, s3, s4 = st.fork(), st.fork(), st.fork()
        prog = st.alloc(Obj(ClassV("Program", eng.repo.modules[PRG].classes["Program"]), {}))
        yield st, prog
        yield s2, Raised(s2.alloc(Obj(ClassV("SyntaxError"), {})))
        yield s3, Raised(mp_error(eng, s3))
        yield s4, Raised(mp_error(eng, s4, True))


class ProgramRunContract(object):
    """Program.run (C01/C13): returns None or raises an MPilotError (same line discipline)"""

    def apply(self, eng, st, f, args, kwargs):
        st.log.append(("program-run",))
        s3, s4 = st.fork(), st.fork()
        yield st, None
        yield s3, Raised(mp_error(eng, s3))
        yield s4, Raised(mp_error(eng, s4, True))


def mp_error(eng, st, with_line=None):
    st.log.append(("mp-error",))
    if with_line is None:
        return ExcSym("MPilotError", fields={"lineno": None})
    ln = smt.fresh("error_lineno", I_)
    nlines = eng.lx["nlines"]
    st.assume(z3.And(ln >= 1, ln <= nlines))
    eng.lx["err_lineno"] = ln
    return ExcSym("MPilotError", fields={"lineno": Sym("num", z3.ToReal(ln), True)})


def install_cli(eng):
    from .models import ModelMixin

    if getattr(ModelMixin, "_cli_patch", False):
        return

    def bi_sys_stderr_write(self, st, args, kw):
        if not self.is_str(args[-1]):
            yield self.raise_(st, "TypeError", "write() argument must be str")
            return
        st.log.append(("stderr", args[-1]))
        yield st, None

    def bi_sys_exit(self, st, args, kw):
        st.log.append(("exit", args[0] if args else None, dict(st.env)))
        yield st, Raised(st.alloc(Obj(ClassV("SystemExit"), {"code": args[0] if args else None})))

    def bi_file_readlines(self, st, args, kw):
        n = smt.fresh("nlines", I_)
        st.assume(n >= 0)
        LINE = z3.Function("file_line", I_, z3.StringSort())
        self.lx["raw_nlines"] = n
        st.assume(n == self.lx["nlines"])  # the source handed to from_source is "\n".join of exactly these lines
        yield st, st.alloc(PyList(seq=SeqV(n, lambda k: Sym("str", LINE(k)), tag="lines")))

    def _minmax(self, st, args, is_max):
        from .values import is_num, num_term, isint_of
        if len(args) != 2 or not all(is_num(a) for a in args):
            raise Unsupported("max/min of non-numbers")
        a, b = args
        c = (num_term(a) >= num_term(b)) if is_max else (num_term(a) <= num_term(b))
        yield st, self.ite_value(c, a, b)

    def bi_max(self, st, args, kw):
        for r in _minmax(self, st, args, True):
            yield r

    def bi_min(self, st, args, kw):
        for r in _minmax(self, st, args, False):
            yield r

    ModelMixin.bi_max = bi_max
    ModelMixin.bi_min = bi_min
    ModelMixin.bi_sys_stderr_write = bi_sys_stderr_write
    ModelMixin.bi_sys_exit = bi_sys_exit
    ModelMixin.bi_file_readlines = bi_file_readlines
    ModelMixin._cli_patch = True


def verify_cli(repo):
    """cli.main: every path that catches an MPilotError writes the message to stderr, marks lines[lineno-1] and leaves through sys.exit
    with a non-zero status; nothing but SystemExit / SyntaxError escapes"""
    smt.QUANT["on"] = False
    eng = Engine(repo, {}, dict(S.LOOPS))
    install(eng)
    install_cli(eng)
    from . import serprops  # noqa: F401  (installs the exact model of str.format with plain `{}` fields)

    eng.precise_format = True
    eng.lx = {"nlines": z3.Int("source_nlines")}
    recs = eng.results
    fi = repo.func(CLI)
    eng.current = fi
    eng.contracts = {FROM: FromSourceContract(), PRG + "::Program.run": ProgramRunContract()}
    st = State()
    st.add_cell("c")
    st.kterms.append(z3.IntVal(0))
    label = fi.key
    m = lambda c: {"clause": c}
    # locals by role: the caught exception and the list of lines read from the file
    handlers = [h for h in ast.walk(fi.node) if isinstance(h, ast.ExceptHandler) and h.name]
    reads = [a.targets[0].id for a in ast.walk(fi.node) if isinstance(a, ast.Assign) and len(a.targets) == 1 and isinstance(a.targets[0], ast.Name)
             and any(isinstance(c, ast.Call) and isinstance(c.func, ast.Attribute) and c.func.attr == "readlines" for c in ast.walk(a.value))]
    if len(handlers) != 1 or len(reads) != 1:
        recs.append({"name": label + "/supported", "status": "unknown", "backend": "engine", "time_s": 0, "function": fi.key, "clause": "cli",
                     "reason": "unsupported: main does not have one named exception handler and one list read with readlines()"})
        return recs, [fi.describe()]
    exc_var, lines_var = handlers[0].name, reads[0]
    args = {"library": Sym("str", smt.fresh("library", z3.StringSort())), "path": Sym("str", smt.fresh("path", z3.StringSort())),
            "libraries": TupleV([])}
    try:
        outs = list(eng.run_function(fi, st, args, cls=None))
    except Unsupported as e:
        recs.append({"name": label + "/supported", "status": "unknown", "backend": "engine", "time_s": 0, "function": fi.key, "clause": "cli", "reason": "unsupported: %s" % e})
        return recs, [fi.describe()]
    n = 0
    for s1, out in outs:
        n += 1
        caught = any(ev[0] == "stderr" and isinstance(ev[1], (str, Sym)) for ev in s1.log) and any(ev[0] in ("from_source",) for ev in s1.log)
        if out[0] == "raise":
            exc = out[1]
            if isinstance(exc, ExcSym):
                eng.oblige(s1, label + "/no MPilotError leaves main un-reported", z3.BoolVal(False), kind="raises", meta=m("cli"), assume_after=False)
                continue
            o = s1.get(exc)
            if o.cls.name == "SystemExit":
                envx = ([ev[2] for ev in s1.log if ev[0] == "exit"] or [{}])[-1]
                ex = envx.get(exc_var)
                if isinstance(ex, ExcSym) and isinstance(ex.fields.get("lineno"), Sym):
                    # C11: the marked line is the line the error carries
                    isa = ex.is_a.get("ProgramError")
                    ln = z3.ToInt(ex.fields["lineno"].t)
                    lines = envx.get(lines_var)
                    seq = eng.list_seq(s1.get(lines)) if isinstance(lines, Ref) else None
                    evs = [ev[1] for ev in s1.log if ev[0] == "stderr"]
                    if seq is None:
                        goal = z3.BoolVal(False)
                    else:
                        want = z3.Concat(z3.StringVal("--> "), eng.str_term(seq.get(z3.simplify(ln - 1))))
                        goal = z3.Or(*[eng.str_term(e) == want for e in evs]) if evs else z3.BoolVal(False)
                    eng.oblige(s1, label + "/the line marked with --> is line `lineno` of the file", goal if isa is None else z3.Implies(isa, goal), kind="ensures",
                               meta=m("lineno"), assume_after=False)
                code = o.fields.get("code")
                nz = (isinstance(code, int) and code != 0)
                eng.oblige(s1, label + "/exit status is non-zero", z3.BoolVal(bool(nz)), kind="ensures", meta=m("cli"), assume_after=False)
                errs = [ev for ev in s1.log if ev[0] == "stderr"]
                eng.oblige(s1, label + "/something is written to standard error before exiting", z3.BoolVal(bool(errs)), kind="ensures", meta=m("cli"), assume_after=False)
            elif o.cls.name == "SyntaxError":
                recs.append({"name": label + "/raises_only(SystemExit, SyntaxError):SyntaxError", "status": "unsat", "backend": "engine", "time_s": 0, "function": fi.key, "clause": "raises_only"})
            else:
                eng.oblige(s1, label + "/raises_only(SystemExit, SyntaxError):%s" % o.cls.name, z3.BoolVal(False), kind="raises", meta=dict(m("raises_only"), exc_msg=str(o.fields.get("args"))[:100]),
                           assume_after=False)
        else:
            ran = any(ev[0] == "program-run" for ev in s1.log)
            failed = any(ev[0] == "mp-error" for ev in s1.log)
            eng.oblige(s1, label + "/returns normally only after the program ran", z3.BoolVal(ran), kind="ensures", meta=m("cli"), assume_after=False)
            eng.oblige(s1, label + "/never returns normally (status 0) after an MPilotError", z3.BoolVal(not failed), kind="ensures", meta=m("cli"), assume_after=False)
    recs.append({"name": label + "/paths", "status": "unsat" if n else "sat", "backend": "engine", "time_s": 0, "function": fi.key, "clause": "cover", "kind": "cover"})
    return recs, [fi.describe()]


def verify_find_command_class(repo):
    """Program.find_command_class(name) = command_library.get(name): the class the program's own table holds for exactly that name, else None;
    nothing else (in particular not the process-wide registry) is consulted (C19: resolution depends only on the requested libraries)"""
    smt.QUANT["on"] = False
    eng = Engine(repo, {}, dict(S.LOOPS))
    install(eng)
    install_from_source(eng)
    eng.load_mode = True
    eng.lx = {}
    key = PRG + "::Program.find_command_class"
    fi = repo.func(key)
    eng.current = fi
    recs = eng.results
    st = State()
    st.add_cell("c")
    st.kterms.append(z3.IntVal(0))
    owner = Val.O(z3.IntVal(-1))
    lib = st.alloc(Obj(ClassV("LibMap"), {"owner": owner}), fresh=False)
    prog = st.alloc(Obj(ClassV("Program", repo.modules[PRG].classes["Program"]), {"command_library": lib}), fresh=False)
    name = dyn(smt.fresh("name", Val))
    st.assume(Val.is_S(name.t))
    label = key
    try:
        outs = list(eng.run_function(fi, st, {"self": prog, "name": name}, cls=fi.cls))
    except Unsupported as e:
        recs.append({"name": label + "/supported", "status": "unknown", "backend": "engine", "time_s": 0, "function": fi.key, "clause": "lookup", "reason": "unsupported: %s" % e})
        return recs, [fi.describe()]
    n = 0
    for s1, out in outs:
        n += 1
        if out[0] == "raise":
            eng.oblige(s1, label + "/never raises for a text name", z3.BoolVal(False), kind="raises", meta={"clause": "lookup"}, assume_after=False)
            continue
        r = out[1]
        want = z3.If(LIB_HAS(owner, name.t), Val.O(LIB_GET(owner, name.t)), Val.N)
        eng.oblige(s1, label + "/returns the program's own table entry for exactly this name, else None", (eng.to_dyn(s1, r) == want), kind="ensures",
                   meta={"clause": "lookup"}, assume_after=False)
    recs.append({"name": label + "/paths", "status": "unsat" if n else "sat", "backend": "engine", "time_s": 0, "function": fi.key, "clause": "cover", "kind": "cover"})
    return recs, [fi.describe()]


def verify_command_init(repo):
    """Command.__init__: the new command stores its result name, arguments, program and line as given, starts unfinished and not running, and
    gets a table of argument lines of its *own* (an object allocated by this call and stored on the instance - not a class-level or shared
    table) whose k-th entry maps the k-th argument's name to that argument's line, for a list of arguments of any length."""
    smt.QUANT["on"] = False
    eng = Engine(repo, {}, dict(S.LOOPS))
    install(eng)
    eng.load_mode = True
    eng.lx = {}
    key = "mpilot/commands.py::Command.__init__"
    if not repo.has_func(key):
        return [{"name": key + "/supported", "status": "unknown", "backend": "engine", "time_s": 0, "function": key, "clause": "lineno", "reason": "function not found"}], []
    fi = repo.func(key)
    eng.current = fi
    recs = eng.results
    st = State()
    st.add_cell("c")
    st.kterms.append(z3.IntVal(0))
    ci = repo.modules["mpilot/commands.py"].classes["Command"]
    selfv = st.alloc(Obj(ClassV("Command", ci), {}), fresh=False)
    args = smt.fresh("arguments", Val)
    st.assume(Val.is_L(args))
    items = Val.items(args)
    st.assume_all_k(lambda k: z3.Implies(z3.And(k >= 0, k < z3.Length(items)), Val.is_O(items[k])))
    arglist = dyn(args)
    rn = Sym("str", smt.fresh("result_name", z3.StringSort()))
    prog = dyn(smt.fresh("program", Val))
    ln = dyn(smt.fresh("lineno", Val))
    label = key
    try:
        outs = list(eng.run_function(fi, st, {"self": selfv, "result_name": rn, "arguments": arglist, "program": prog, "lineno": ln}, cls=fi.cls))
    except Unsupported as e:
        recs.append({"name": label + "/supported", "status": "unknown", "backend": "engine", "time_s": 0, "function": fi.key, "clause": "lineno", "reason": "unsupported: %s" % e})
        return recs, [fi.describe()]
    n = 0

    def rec(name, ok, why=""):
        recs.append({"name": label + "/" + name, "status": "unsat" if ok else "sat", "backend": "structural", "time_s": 0, "function": fi.key, "clause": "lineno", "goal": why})

    for s1, out in outs:
        n += 1
        if out[0] == "raise":
            eng.oblige(s1, label + "/never raises for a list of argument objects", z3.BoolVal(False), kind="raises", meta={"clause": "raises_only"}, assume_after=False)
            continue
        o = s1.get(selfv)
        f = o.fields
        rec("the command stores the line it was given", f.get("lineno") is ln, str(f.get("lineno")))
        rec("the command stores the result name, arguments and program it was given", f.get("result_name") is rn and f.get("arguments") is arglist and f.get("program") is prog)
        rec("a new command is neither finished nor running", f.get("is_finished") is False and f.get("is_running") is False)
        tab = f.get("argument_lines")
        d = s1.get(tab) if isinstance(tab, Ref) else None
        own = d is not None and s1.is_fresh(tab) and ((isinstance(d, Obj) and d.cls.name == "SymDict") or isinstance(d, PyDict))
        rec("the table of argument lines is the command's own (allocated by this call, stored on the instance)", own, "argument_lines = %r" % (tab,))
        if own and isinstance(d, Obj):
            k = s1.add_k("ka")
            rng = z3.And(k >= 0, k < z3.Length(items))
            eng.oblige(s1, label + "/the table has one entry per argument", d.fields["n"] == z3.Length(items), kind="ensures", meta={"clause": "lineno"}, assume_after=False)
            from .dyn import FLD

            eng.oblige(s1, label + "/entry k maps the k-th argument's name to the k-th argument's line",
                       z3.Implies(rng, z3.And(d.fields["key"](k) == FLD("name")(Val.ref(items[k])), d.fields["val"](k) == FLD("lineno")(Val.ref(items[k])))),
                       kind="ensures", meta={"clause": "lineno"}, assume_after=False)
    recs.append({"name": label + "/paths", "status": "unsat" if n else "sat", "backend": "engine", "time_s": 0, "function": fi.key, "clause": "cover", "kind": "cover"})
    return recs, [fi.describe()]
