"""Bounded multi-command models for C02 (labelled bounded): random typed DAGs over the built-in data commands, every node's
reference value obtained by evaluating that command's CommandSpec (the contract) on the reference values of its
dependencies, compared with the real results of Program.from_source(text).run() for several orders of the same commands."""
import json
import random
from concurrent.futures import ProcessPoolExecutor

from . import cmdprops, loadcases, registry
from .decl import CommandDecl, ParamDecl
from .extract import Repo

MISSING = -9999


def fmt(v):
    if isinstance(v, bool):
        return "True" if v else "False"
    if isinstance(v, (int, float)):
        return repr(v)
    if isinstance(v, list):
        return "[" + ", ".join(fmt(x) for x in v) + "]"
    return str(v)


def _gen_model(args):
    root, seed, size = args
    rnd = random.Random(seed)
    repo = Repo(root)
    SPECS, classes = registry.load(repo)
    nrows = rnd.choice([3, 4, 5])
    cols = []
    for ci in range(3):
        dt = rnd.choice(["int", "float", "float"])
        pool = [-2, 0, 1, 2, 3, 5] if dt == "int" else [-1.5, 0.0, 0.5, 1.0, 2.5, 4.0]
        data = [rnd.choice(pool) for _ in range(nrows)]
        if len(set(data)) < 2:
            data[0], data[-1] = pool[0], pool[-1]
        mask = [rnd.random() < 0.2 for _ in range(nrows)]
        if sum(1 for m in mask if not m) < 2 or len(set(v for v, m in zip(data, mask) if not m)) < 2:
            mask = [False] * nrows
        cols.append({"name": "col%d" % ci, "dtype": dt, "data": data, "mask": mask})
    header = ",".join(c["name"] for c in cols)
    rows = []
    for i in range(nrows):
        rows.append(",".join(str(MISSING) if c["mask"][i] else repr(c["data"][i]) for c in cols))
    csv = header + "\n" + "\n".join(rows) + "\n"
    nodes = []  # dict(name, cls, args_text{param: text}, ref{dtype,mask,value}|None, fuzzy, deps)
    for i, c in enumerate(cols):
        as_int = c["dtype"] == "int" and rnd.random() < 0.6
        args = {"InFileName": "input.csv", "InFieldName": c["name"], "MissingVal": str(MISSING)}
        if as_int:
            args["DataType"] = "Integer"
        ref = {"dtype": "int" if as_int else "float", "mask": list(c["mask"]), "value": [None if m else (int(v) if as_int else float(v)) for v, m in zip(c["data"], c["mask"])]}
        nodes.append({"name": "R%d" % i, "cls": "EEMSRead", "args": args, "ref": ref, "fuzzy": False, "deps": [], "usable": True})
    names = list(cmdprops.ALL_DATA)
    tries = 0
    while len(nodes) < 3 + size and tries < size * 8:
        tries += 1
        have_fuzzy = [n for n in nodes if n["usable"] and n["fuzzy"]]
        have_plain = [n for n in nodes if n["usable"] and not n["fuzzy"]]
        # bias towards making fuzzy producers early, so that fuzzy operators become possible
        if not have_fuzzy and rnd.random() < 0.6:
            name = rnd.choice(["CvtToFuzzy", "CvtToFuzzyCurve", "CvtToFuzzyCat", "CvtToBinary", "CvtToFuzzyZScore"])
        else:
            name = rnd.choice(names)
        decl = CommandDecl(repo, classes[name])
        tmpl = rnd.choice(cmdprops.battery(repo, classes, name, "quick", seed=seed + tries)[:8])
        case = {"module": classes[name].module.dotted, "class": name, "inputs": {}, "params": dict(tmpl["params"]), "shape": [nrows]}
        args, deps, ok = {}, [], True
        for pname, p in decl.inputs.items():
            if pname == "Metadata":
                continue

            def pick(fz):
                pool = have_fuzzy if fz is True else (have_plain if fz is False else have_plain + have_fuzzy)
                return rnd.choice(pool) if pool else None

            def as_input(n):
                r = n["ref"]
                return {"dtype": r["dtype"], "data": [(0 if v is None else v) for v in r["value"]], "mask": list(r["mask"]), "fuzzy": n["fuzzy"]}

            if p.cls == "ResultParameter":
                n = pick(p.is_fuzzy)
                if n is None:
                    ok = False
                    break
                case["inputs"][pname] = dict(as_input(n), kind="single")
                args[pname] = n["name"]
                deps.append(n["name"])
            elif p.cls == "ListParameter" and isinstance(p.value_type, ParamDecl) and p.value_type.cls == "ResultParameter":
                k = len(tmpl["inputs"][pname]["items"])
                items = [pick(p.value_type.is_fuzzy) for _ in range(k)]
                if any(n is None for n in items):
                    ok = False
                    break
                case["inputs"][pname] = {"kind": "list", "items": [as_input(n) for n in items]}
                args[pname] = "[" + ", ".join(n["name"] for n in items) + "]"
                deps += [n["name"] for n in items]
            elif pname in case["params"]:
                args[pname] = fmt(case["params"][pname])
        if not ok:
            continue
        e = cmdprops._expect_one((name, root, case))
        if "error" in e or not e.get("admissible") or e.get("exc") or e.get("result") is None or e.get("inconsistent") or e.get("may_raise"):
            continue
        res = e["result"]
        usable = res["value"] is not None and res["dtype"] is not None
        if usable:
            vals = [v for v, m in zip(res["value"], res["miss"]) if not m]
            # results too close to a branch point of a later command would make the comparison depend on rounding
            if any(v is not None and abs(v) > 1e6 for v in vals):
                continue
        ref = {"dtype": res["dtype"], "mask": [bool(m) for m in res["miss"]], "value": res["value"]}
        if rnd.random() < 0.3:
            args["Metadata"] = "[Note: n%d, Source: model]" % len(nodes)
        nodes.append({"name": "N%d" % len(nodes), "cls": name, "args": args, "ref": ref, "fuzzy": bool(decl.is_fuzzy), "deps": deps, "usable": usable,
                      "value_specified": res["value"] is not None})
    return {"csv": csv, "nodes": nodes, "nrows": nrows, "seed": seed}


def render(nodes, order, multiline=False):
    lines = []
    for i in order:
        n = nodes[i]
        items = list(n["args"].items())
        if multiline:
            lines.append("%s = %s(" % (n["name"], n["cls"]))
            for j, (k, v) in enumerate(items):
                lines.append("    %s = %s%s" % (k, v, "," if j < len(items) - 1 else ""))
            lines.append(")")
        else:
            lines.append("%s = %s(%s)" % (n["name"], n["cls"], ", ".join("%s = %s" % kv for kv in items)))
    return "\n".join(lines) + "\n"


def models(root, tier, seed=0):
    count, size = (10, 6) if tier == "quick" else (48, 8)
    with ProcessPoolExecutor(max_workers=16) as ex:
        ms = list(ex.map(_gen_model, [(root, 7919 * seed + 31 * i + 1, size) for i in range(count)]))
    return ms


def cases_for(model, rnd):
    """several orders of the same commands (file order must not matter; forward references allowed)"""
    n = len(model["nodes"])
    orders = [list(range(n)), list(reversed(range(n)))]
    o = list(range(n))
    rnd.shuffle(o)
    orders.append(o)
    out = []
    for k, order in enumerate(orders):
        src = render(model["nodes"], order, multiline=(k == 2))
        out.append({"source": src, "files": {"input.csv": model["csv"]}, "dump_results": True, "order": order, "label": ["file-order", "reversed", "shuffled"][k]})
    # metadata must be inert: the same model with every Metadata argument removed
    stripped = [dict(nd, args={k: v for k, v in nd["args"].items() if k != "Metadata"}) for nd in model["nodes"]]
    if any("Metadata" in nd["args"] for nd in model["nodes"]):
        out.append({"source": render(stripped, orders[0]), "files": {"input.csv": model["csv"]}, "dump_results": True, "order": orders[0], "label": "no-metadata"})
    # an extra consumer of every intermediate result must not change anything
    extra = list(model["nodes"]) + [{"name": "X%d" % i, "cls": "Copy", "args": {"InFieldName": nd["name"]}} for i, nd in enumerate(model["nodes"])
                                    if nd["cls"] != "EEMSRead" or True]
    eo = list(range(len(extra)))
    rnd.shuffle(eo)
    out.append({"source": render(extra, eo), "files": {"input.csv": model["csv"]}, "dump_results": True, "order": eo, "label": "extra-consumers"})
    return out


def close(a, b):
    if isinstance(a, str) or isinstance(b, str) or a is None or b is None:
        return a == b
    return abs(a - b) <= 1e-9 * max(1.0, abs(a), abs(b))


def judge(model, case, o):
    if "harness_error" in o:
        return [("harness-error", o["harness_error"][-300:])]
    bad = []
    if o["stage"] != "ok":
        e = o["exc"]
        return [("evaluates", "a well-typed model was rejected at %s (%s order) with %s: %s" % (o["stage"], case["label"], e["cls"], e["msg"][:200]))]
    for nd in model["nodes"]:
        r = o["results"].get(nd["name"])
        ref = nd["ref"]
        if r is None:
            bad.append(("evaluates", "%s has no result" % nd["name"]))
            continue
        where = "%s = %s (%s order)" % (nd["name"], nd["cls"], case["label"])
        if r.get("kind") != "MA":
            bad.append(("composable", "%s: result is %s, not a masked array" % (where, r.get("kind"))))
            continue
        if ref["dtype"] is not None and r["dtype"] != ref["dtype"]:
            bad.append(("value", "%s: element type %s, reference %s" % (where, r["dtype"], ref["dtype"])))
        if [bool(m) for m in r["mask"]] != ref["mask"]:
            bad.append(("value", "%s: missing cells %s, reference %s" % (where, r["mask"], ref["mask"])))
            continue
        if ref["value"] is not None:
            for i, (v, ev, m) in enumerate(zip(r["data"], ref["value"], ref["mask"])):
                if not m and not close(v, ev):
                    bad.append(("value", "%s: cell %d is %r, the evaluation of the graph gives %r" % (where, i, v, ev)))
                    break
    ex = o.get("executed", [])
    if len(ex) != len(set(ex)):
        bad.append(("once", "a command executed more than once: %s" % ex))
    return bad


def judge_orders(model, cases, outs):
    """results must be identical across the orders (also for commands whose value the contract leaves unspecified)"""
    bad = []
    base = None
    for c, o in zip(cases, outs):
        if o.get("stage") != "ok" or "results" not in o:
            continue
        cur = {nd["name"]: o["results"].get(nd["name"]) for nd in model["nodes"]}
        if base is None:
            base = (c["label"], cur)
            continue
        for k, r in cur.items():
            b = base[1][k]
            if r is None or b is None:
                continue
            same = r.get("kind") == b.get("kind") and r.get("dtype") == b.get("dtype") and r.get("mask") == b.get("mask") and all(
                mk or close(x, y) for x, y, mk in zip(r.get("data", []), b.get("data", []), r.get("mask", [])))
            if not same:
                bad.append(("order", "%s differs between the %s and %s variants" % (k, base[0], c["label"])))
    return bad
