"""Bounded whole-model cases for C12 / C13 (labelled bounded): single faults injected into valid EEMS models built from
the real declaration tables, argument-kind confusion over the command x parameter matrix, CSV content faults, CLI runs."""
import json
import os
import subprocess
import tempfile
from concurrent.futures import ThreadPoolExecutor

from . import replay, decl

RUNNER = os.path.join(replay.HERE, "runner", "run_load.py")

CSV = "a,b,c\n1,2,3\n4,5,6\n7,8,9\n2,9,4\n"
LIB_FILES = ("mpilot/libraries/eems/basic.py", "mpilot/libraries/eems/fuzzy.py", "mpilot/libraries/eems/csv/io.py")


def run_real(cases, repo_root="/repo", timeout=1800, workers=8):
    """runs the cases in `workers` runner processes (each case has its own scratch directory)"""
    if not cases:
        return []
    chunks = [cases[i::workers] for i in range(workers)]
    d = replay.workdir()

    def one(chunk):
        if not chunk:
            return []
        fin = tempfile.NamedTemporaryFile("w", suffix=".lin.json", dir=d, delete=False)
        json.dump(chunk, fin)
        fin.close()
        fout = fin.name.replace(".lin.json", ".lout.json")
        try:
            p = subprocess.run([replay.VENV_PY, RUNNER, fin.name, fout, repo_root], capture_output=True, text=True, timeout=timeout)
            if p.returncode != 0 or not os.path.exists(fout):
                raise RuntimeError("runner failed: %s %s" % (p.stdout[-500:], p.stderr[-1500:]))
            return json.load(open(fout))
        finally:
            for f in (fin.name, fout):
                try:
                    os.unlink(f)
                except OSError:
                    pass

    with ThreadPoolExecutor(max_workers=workers) as ex:
        res = list(ex.map(one, chunks))
    outs = [None] * len(cases)
    for w, r in enumerate(res):
        for i, o in enumerate(r):
            outs[w + i * workers] = o
    return outs


# --------------------------------------------------------------------------- valid values from the declarations
SPECIAL = {
    "Direction": "HighToLow", "TruestOrFalsest": "Truest", "NumberToConsider": "1", "TrueThreshold": "10", "FalseThreshold": "0",
    "TrueThresholdZScore": "1", "FalseThresholdZScore": "-1", "StartVal": "0", "EndVal": "10", "Threshold": "4", "DefaultNormalValue": "0.5",
    "DefaultFuzzyValue": "0", "Weights": "[0.5, 0.5]", "RawValues": "[1, 9]", "ZScoreValues": "[-1, 1]", "InFieldName@csv": "a",
    "NewFieldName": "renamed", "MissingVal": "-9999", "DataType": "Float", "ReturnType": "Float", "IgnoreZeros": "False",
}


def valid_text(cname, pname, pd, fuzzy_cmd):
    if pd.cls == "ResultParameter":
        return "F1" if pd.is_fuzzy is True else "R1"
    if pd.cls == "ListParameter":
        vt = pd.value_type
        if vt.cls == "ResultParameter":
            return "[F1, F2]" if vt.is_fuzzy is True else "[R1, R2]"
        if pname in SPECIAL:
            return SPECIAL[pname]
        if pname in ("NormalValues", "FuzzyValues"):
            if "MeanToMid" in cname:
                return "[-1, -0.5, 0, 0.5, 1]" if pname == "FuzzyValues" else "[0, 0.25, 0.5, 0.75, 1]"
            return "[-1, 1]" if pname == "FuzzyValues" else "[0, 1]"
        return "[1, 2]"
    if pd.cls == "PathParameter":
        return "input.csv" if pd.must_exist else "out_%s.csv" % cname
    if cname == "EEMSRead" and pname == "InFieldName":
        return "a"
    if pname in SPECIAL:
        return SPECIAL[pname]
    return {"NumberParameter": "0.5", "BooleanParameter": "True", "StringParameter": "text", "DataTypeParameter": "Float",
            "TupleParameter": "[k: v]", "DataParameter": "R1"}.get(pd.cls, "1")


def wrong_texts(pname, pd):
    """(label, text, kind) — values of the wrong kind for a declared parameter; kind says what is wrong"""
    out = []
    if pd.cls == "ResultParameter":
        out += [("number-for-result", "5", "kind"), ("unknown-result", "Nope", "reference"), ("list-for-result", "[R1]", "kind")]
        if pd.is_fuzzy is True:
            out.append(("nonfuzzy-for-fuzzy", "R1", "fuzziness"))
        elif pd.is_fuzzy is False:
            out.append(("fuzzy-for-nonfuzzy", "F1", "fuzziness"))
        if pd.output_type is not None:
            out.append(("nondata-result", "PV", "output-kind"))
    elif pd.cls == "ListParameter":
        vt = pd.value_type
        if vt.cls == "ResultParameter":
            ok = "F1" if vt.is_fuzzy is True else "R1"
            out += [("scalar-for-list", "5", "kind"), ("number-in-result-list", "[%s, 5]" % ok, "kind"), ("unknown-in-list", "[%s, Nope]" % ok, "reference")]
            if vt.is_fuzzy is True:
                out.append(("nonfuzzy-in-fuzzy-list", "[F1, R1]", "fuzziness"))
            elif vt.is_fuzzy is False:
                out.append(("fuzzy-in-nonfuzzy-list", "[R1, F1]", "fuzziness"))
            if vt.output_type is not None:
                out.append(("nondata-in-list", "[%s, PV]" % ok, "output-kind"))
        else:
            out += [("word-in-number-list", "[1, abc]", "kind"), ("nested-list-in-number-list", "[1, [2]]", "kind")]
    elif pd.cls == "NumberParameter":
        out += [("word-for-number", "abc", "kind"), ("list-for-number", "[1, 2]", "kind")]
    elif pd.cls == "BooleanParameter":
        out += [("word-for-boolean", "maybe", "kind"), ("list-for-boolean", "[True]", "kind")]
    elif pd.cls == "PathParameter":
        # (string and path parameters stringify whatever they are given: every value has the declared kind, see C20)
        if pd.must_exist:
            out.append(("missing-file", "no_such_file.csv", "reference"))
    elif pd.cls == "DataTypeParameter":
        out += [("unknown-datatype", "Complex", "kind"), ("list-for-datatype", "[Float]", "kind")]
    elif pd.cls == "TupleParameter":
        out += [("number-for-tuple", "5", "kind"), ("zero-for-tuple", "0", "kind"), ("empty-text-for-tuple", '""', "kind"), ("word-for-tuple", "abc", "kind")]
    return out


def library_decls(repo):
    out = []
    for ci in decl.command_classes(repo, LIB_FILES):
        d = decl.CommandDecl(repo, ci)
        out.append(d)
    return out


PRELUDE = [
    "R1 = EEMSRead(InFileName = input.csv, InFieldName = a)",
    "R2 = EEMSRead(InFileName = input.csv, InFieldName = b)",
    "F1 = CvtToFuzzy(InFieldName = R1, TrueThreshold = 10, FalseThreshold = 0)",
    "F2 = CvtToFuzzy(InFieldName = R2, TrueThreshold = 10, FalseThreshold = 0)",
    "PV = PrintVars(InFieldNames = [R1])",
    "CANARY = EEMSWrite(OutFileName = canary.csv, OutFieldNames = [R1])",
]


def model(d, values, extra_lines=(), result="T", position="last"):
    """the model text and {param: line}; each argument on its own line"""
    lines = list(PRELUDE) if position == "last" else []
    start = len(lines) + 1
    lines.append("%s = %s(" % (result, d.command_name))
    arg_line = {}
    items = list(values.items())
    for i, (k, v) in enumerate(items):
        lines.append("    %s = %s%s" % (k, v, "," if i < len(items) - 1 else ""))
        arg_line[k] = len(lines)
    lines.append(")")
    if position == "first":
        lines += PRELUDE
    lines += list(extra_lines)
    return "\n".join(lines) + "\n", start, arg_line


def fault_cases(repo, tier="quick"):
    """single faults in otherwise valid models over every command x parameter of the CSV libraries"""
    cases = []
    for d in library_decls(repo):
        params = dict(d.inputs)
        valid = {k: valid_text(d.command_name, k, v, d.is_fuzzy) for k, v in params.items()}
        if d.command_name == "EEMSRead":
            valid.pop("ReturnType", None)
            valid.pop("NewFieldName", None)
        base = {"files": {"input.csv": CSV}, "command": d.command_name}
        for pos in (("last", "first") if tier == "thorough" else ("last",)):
            src, start, al = model(d, valid, position=pos)
            cases.append(dict(base, source=src, expect="accept", label="valid", position=pos, cmd_line=start))
            for pname, pd in params.items():
                if pname not in valid:
                    continue
                for label, text, kind in wrong_texts(pname, pd):
                    vals = dict(valid)
                    vals[pname] = text
                    src, start, al = model(d, vals, position=pos)
                    cases.append(dict(base, source=src, expect="reject", label=label, fault_kind=kind, param=pname, value=text, line=al[pname],
                                      cmd_line=start, position=pos, names=[pname, text.strip("[]").split(", ")[-1], "T", d.command_name]))
                if pd.required:
                    vals = {k: v for k, v in valid.items() if k != pname}
                    src, start, al = model(d, vals, position=pos)
                    cases.append(dict(base, source=src, expect="reject", label="missing-required", fault_kind="missing", param=pname, line=start,
                                      cmd_line=start, exc="MissingParameters", position=pos, names=[pname]))
            if not d.allow_extra_inputs:
                vals = dict(valid)
                vals["Bogus"] = "1"
                src, start, al = model(d, vals, position=pos)
                cases.append(dict(base, source=src, expect="reject", label="undeclared-parameter", fault_kind="undeclared", param="Bogus", line=al["Bogus"],
                                  cmd_line=start, exc="NoSuchParameter", position=pos, names=["Bogus"]))
            src, start, al = model(d, valid, result="R1", position=pos)
            dup_line = start if pos == "last" else 1 + len(valid) + 2  # the second definition of R1 is the offending one
            cases.append(dict(base, source=src, expect="reject", label="duplicate-result", fault_kind="duplicate", line=dup_line if pos == "last" else None,
                              cmd_line=start, exc="DuplicateResult", position=pos, names=["R1"]))
        src, start, al = model(d, valid)
        src2 = src.replace("T = %s(" % d.command_name, "T = %sX(" % d.command_name)
        cases.append(dict(base, source=src2, expect="reject", label="unknown-command", fault_kind="unknown-command", line=start, cmd_line=start,
                          exc="CommandDoesNotExist", names=[d.command_name + "X"]))
    return cases


def judge_fault(case, o):
    """list of (tag, detail) for what the property forbids"""
    bad = []
    if "harness_error" in o:
        return [("harness-error", o["harness_error"][-300:])]
    e = o.get("exc")
    if case["expect"] == "accept":
        if o["stage"] != "ok":
            bad.append(("accept", "a well-formed model was rejected at %s with %s: %s" % (o["stage"], e["cls"], e["msg"][:150])))
        return bad
    if o["stage"] == "ok":
        bad.append(("reject", "a model with fault %r was accepted and ran" % case["label"]))
        return bad
    if not e["is_mpilot"]:
        bad.append(("raises_only", "%s escaped (%s)" % (e["cls"], e["msg"][:150])))
    elif not e["is_program_error"]:
        bad.append(("specific-error", "%s is not a program error" % e["cls"]))
    if case.get("exc") and e["cls"] != case["exc"]:
        bad.append(("specific-error", "expected %s, got %s" % (case["exc"], e["cls"])))
    if e["cls"] == "UnexpectedError":
        bad.append(("specific-error", "the fault surfaced as UnexpectedError: %s" % e["msg"][:150]))
    if o.get("executed"):
        bad.append(("before-side-effects", "commands executed before the rejection: %s" % o["executed"][:5]))
    if o.get("files"):
        bad.append(("before-side-effects", "files written by a rejected model: %s" % o["files"][:5]))
    if e["is_mpilot"] and case.get("line") is not None:
        if e.get("lineno") not in (case["line"], case.get("cmd_line")):
            bad.append(("lineno", "error line %r, fault on line %r (command starts on %r)" % (e.get("lineno"), case["line"], case.get("cmd_line"))))
    if e["is_mpilot"] and case.get("names"):
        hay = e["msg"] + " " + json.dumps(e["attrs"])
        if not any(n and n in hay for n in case["names"]):
            bad.append(("names-offender", "message %r names none of %s" % (e["msg"][:120], case["names"])))
    return bad


# --------------------------------------------------------------------------- C13: what escapes
WILD = ["5", "-3.5", "1e999", "abc", "\"quoted text\"", "[1, 2]", "[]", "[[1], [2]]", "[a: 1]", "True", "None", "R1", "[R1, R2]", "F1", "Nope", "input.csv", "0",
        "[1, abc]", "-1", "Float", "\"\"", "inf", "-inf", "nan", "Infinity", "1e-999", "0x10", "1_000",
        "\"\u0394 line\\nbreak\"", "\"\u4e2d\\\"\u6587\"", "\"caf\u00e9\\t\""]


# always tried where a path is declared: an embedded NUL, an over-long name, directories, a home shortcut, a lone backslash, a dangling relative climb
PATH_WILD = ["\"a\x00b.csv\"", "\"" + "x" * 300 + ".csv\"", "\".\"", "\"/\"", "\"~\"", "\"\\\\\"", "\"../../../../../../../../nowhere/x.csv\"", "\"input.csv/\""]


def confusion_cases(repo, tier="quick", seed=0):
    """every command x parameter x a value alphabet of every kind; whatever happens, only SyntaxError / MPilotError may escape"""
    import random

    rnd = random.Random(seed)
    cases = []
    for d in library_decls(repo):
        params = {k: v for k, v in d.inputs.items()}
        valid = {k: valid_text(d.command_name, k, v, d.is_fuzzy) for k, v in params.items() if k != "Metadata"}
        if d.command_name == "EEMSRead":
            valid.pop("ReturnType", None)
            valid.pop("NewFieldName", None)
        for pname in list(valid) + ["Metadata"]:
            vals_all = WILD if tier == "thorough" else rnd.sample(WILD, 9)
            if pname != "Metadata" and getattr(params[pname], "cls", None) == "PathParameter":
                vals_all = list(vals_all) + PATH_WILD
            for text in vals_all:
                vals = dict(valid)
                vals[pname] = text
                src, start, al = model(d, vals)
                cases.append({"files": {"input.csv": CSV}, "command": d.command_name, "source": src, "label": "confusion", "param": pname, "value": text,
                              "line": al[pname], "cmd_line": start})
    return cases


def v2_confusion_cases():
    """EEMS 2.0 forms (no result name: it is taken from NewFieldName / InFieldName) with every kind of value where a name is expected"""
    cases = []
    forms = [
        "READ(InFileName = input.csv, InFieldName = %s)",
        "READ(InFileName = input.csv, InFieldName = a, NewFieldName = %s)",
        "R1 = EEMSRead(InFileName = input.csv, InFieldName = a)\nCVTTOFUZZY(InFieldName = %s, TrueThreshold = 10, FalseThreshold = 0)",
        "R1 = EEMSRead(InFileName = input.csv, InFieldName = a)\nSUM(InFieldNames = [R1, R1], NewFieldName = %s)",
        "R1 = EEMSRead(InFileName = input.csv, InFieldName = a)\nCOPYFIELD(InFieldName = R1, NewFieldName = %s, OutFileName = %s)",
    ]
    for f in forms:
        for text in WILD:
            src = (f % ((text,) * f.count("%s"))) + "\n"
            cases.append({"files": {"input.csv": CSV}, "source": src, "label": "v2-confusion", "value": text})
    return cases


CSV_FAULTS = {
    "empty-file": "",
    "header-only": "a,b,c\n",
    "ragged-short-row": "a,b,c\n1,2,3\n4,5\n7,8,9\n",
    "ragged-long-row": "a,b,c\n1,2,3\n4,5,6,7\n7,8,9\n",
    "non-numeric-cell": "a,b,c\n1,2,3\nx,5,6\n7,8,9\n",
    "empty-cell": "a,b,c\n1,2,3\n,5,6\n7,8,9\n",
    "missing-column": "b,c\n2,3\n5,6\n",
    "blank-lines": "a,b,c\n1,2,3\n\n4,5,6\n",
    "crlf": "a,b,c\r\n1,2,3\r\n4,5,6\r\n",
    "quoted-cells": "a,b,c\n\"1\",\"2\",\"3\"\n4,5,6\n",
    "float-in-int": "a,b,c\n1.5,2,3\n4,5,6\n",
    "nan-inf": "a,b,c\nnan,inf,3\n4,-inf,6\n",
    "duplicate-header": "a,a,c\n1,2,3\n4,5,6\n",
    "space-padded": "a, b, c\n1, 2, 3\n4, 5, 6\n",
    "bom": "﻿a,b,c\n1,2,3\n4,5,6\n",
    "one-column-no-newline": "a\n1\n2",
    "huge-number": "a,b,c\n1e400,2,3\n4,5,6\n",
}

CSV_MODELS = [
    "R1 = EEMSRead(InFileName = input.csv, InFieldName = a)\nS = Sum(InFieldNames = [R1, R1])\nW = EEMSWrite(OutFileName = out.csv, OutFieldNames = [S])\n",
    "R1 = EEMSRead(InFileName = input.csv, InFieldName = a, DataType = Integer)\nR2 = EEMSRead(InFileName = input.csv, InFieldName = b, MissingVal = 5)\n"
    "D = AMinusB(A = R1, B = R2)\nF = CvtToFuzzy(InFieldName = D)\nW = EEMSWrite(OutFileName = out.csv, OutFieldNames = [D, F])\n",
    "R1 = EEMSRead(InFileName = input.csv, InFieldName = a)\nZ = NormalizeZScore(InFieldName = R1)\nQ = ADividedByB(A = R1, B = Z)\n"
    "W = EEMSWrite(OutFileName = out.csv, OutFieldNames = [Q])\n",
]


def data_cases():
    cases = []
    for name, content in CSV_FAULTS.items():
        for i, src in enumerate(CSV_MODELS):
            cases.append({"files": {"input.csv": content}, "source": src, "label": "csv:" + name, "model": i})
    return cases


def judge_escape(case, o):
    if "harness_error" in o:
        return [("harness-error", o["harness_error"][-300:])]
    e = o.get("exc")
    if e is None:
        return []
    bad = []
    if not (e["is_mpilot"] or e["is_syntax"]):
        bad.append(("raises_only", "%s escaped from %s: %s" % (e["cls"], o["stage"], e["msg"][:200])))
    if e["msg"].startswith("<__str__ raised"):
        bad.append(("str", e["msg"]))
    return bad


# --------------------------------------------------------------------------- CLI
def cli_cases(repo):
    """(case, expectation) for the command-line tool: which exit status, what on stderr, which line is marked"""
    cases = []
    good = "\n".join(PRELUDE[:2]) + "\nS = Sum(InFieldNames = [R1, R2])\nW = EEMSWrite(OutFileName = out.csv, OutFieldNames = [S])\n"
    cases.append({"mode": "cli", "files": {"input.csv": CSV}, "source": good, "label": "valid", "expect_exit0": True})
    lines = ["# a comment", "", "R1 = EEMSRead(InFileName = input.csv, InFieldName = a)", "", "# another", "S = Sum(", "    InFieldNames = [R1, Nope]", ")", "",
             "W = EEMSWrite(OutFileName = out.csv, OutFieldNames = [S])"]
    cases.append({"mode": "cli", "files": {"input.csv": CSV}, "source": "\n".join(lines) + "\n", "label": "unknown-reference", "mark": [lines[6], lines[5]]})
    l2 = list(lines)
    l2[6] = "    InFieldNames = [R1, R1]"
    l2[5] = "S = Summ("
    cases.append({"mode": "cli", "files": {"input.csv": CSV}, "source": "\n".join(l2) + "\n", "label": "unknown-command", "mark": [l2[5]]})
    l3 = list(lines)
    l3[6] = "    InFieldNames = [R1, R1]"
    l3[9] = "R1 = EEMSWrite(OutFileName = out.csv, OutFieldNames = [S])"
    cases.append({"mode": "cli", "files": {"input.csv": CSV}, "source": "\n".join(l3), "label": "duplicate-on-last-line-no-newline", "mark": [l3[9]]})
    l4 = ["R1 = EEMSRead(InFileName = input.csv, InFieldName = a)"]
    cases.append({"mode": "cli", "files": {"input.csv": "b\n1\n"}, "source": l4[0] + "\n", "label": "run-time-data-error"})  # (a data error raised inside execute carries no line: C11 speaks of load-time and validation errors)
    l5 = ["R1 = EEMSRead(InFileName = input.csv, InFieldName = a, MissingVal = abc)"]
    cases.append({"mode": "cli", "files": {"input.csv": CSV}, "source": l5[0], "label": "bad-number-single-line", "mark": [l5[0]]})
    l6 = list(lines)
    l6[6] = "    InFieldNames = [R1, R1]"
    l6.insert(8, "X = Sum(InFieldNames = [R1, R1], Bogus = 1)")
    cases.append({"mode": "cli", "files": {"input.csv": CSV}, "source": "\r\n".join(l6) + "\r\n", "label": "crlf-undeclared", "mark": [l6[8]]})
    # characters that str.splitlines() treats as line boundaries but the lexer does not (form feed, vertical tab, U+2028, NEL ...)
    l8 = ["# section one \x0c continued", "R1 = EEMSRead(InFileName = input.csv, InFieldName = a)", "# note: \x0b tab \u2028 sep \x85 nel \x1c fs",
          "S = Sum(InFieldNames = [R1, R1], Metadata = [note: \"a \x0b b\"])", "", "T = Summ(InFieldNames = [S, S])"]
    cases.append({"mode": "cli", "files": {"input.csv": CSV}, "source": "\n".join(l8) + "\n", "label": "odd-separators-before-error", "mark": [l8[5]]})
    cases.append({"mode": "cli", "files": {}, "source": "", "no_file": True, "label": "no-such-file", "stderr_has": ["Problem", "Solution"]})
    cases.append({"mode": "cli", "files": {"input.csv": CSV}, "source": "R1 = EEMSRead(InFileName = input.csv, InFieldName = a\n", "label": "syntax-error",
                  "syntax": True})
    cases.append({"mode": "cli", "files": {"input.csv": CSV}, "source": "", "label": "empty-file", "any_ok": True})
    l7 = ["R1 = EEMSRead(InFileName = input.csv, InFieldName = a)", "Z = ADividedByB(A = R1, B = R1)", "F = FuzzyNot(InFieldName = Z)"]
    cases.append({"mode": "cli", "files": {"input.csv": CSV}, "source": "\n".join(l7) + "\n", "label": "fuzziness", "mark": [l7[2]]})
    return cases


def judge_cli(case, o):
    if "harness_error" in o:
        return [("harness-error", o["harness_error"][-300:])]
    bad = []
    err = o["stderr"]
    if case.get("expect_exit0"):
        if o["exit"] != 0:
            bad.append(("cli", "valid model: exit %s, stderr %r" % (o["exit"], err[-200:])))
        return bad
    if case.get("any_ok"):
        if "Traceback" in err and "SyntaxError" not in err and "mpilot.exceptions" not in err:
            bad.append(("raises_only", "traceback on stderr: %r" % err[-300:]))
        return bad
    if case.get("syntax"):
        if o["exit"] == 0:
            bad.append(("cli", "syntax error but exit 0"))
        if "Traceback" in err and "SyntaxError" not in err:
            bad.append(("raises_only", "not a syntax error: %r" % err[-300:]))
        return bad
    if o["exit"] == 0:
        bad.append(("cli", "MPilot error but exit status 0"))
    if "Traceback" in err:
        bad.append(("raises_only", "traceback instead of a report: %r" % err[-400:]))
    if "Problem" not in err or "Solution" not in err:
        bad.append(("cli", "no problem/solution message on stderr: %r" % err[-300:]))
    if case.get("mark"):
        marked = [l[4:] for l in err.replace("\r", "").split("\n") if l.startswith("--> ")]
        if not marked:
            bad.append(("lineno", "no line marked on stderr: %r" % err[-300:]))
        elif marked[0] not in case["mark"]:
            bad.append(("lineno", "marked %r, the fault is on %r" % (marked[0], case["mark"][0])))
    return bad


# --------------------------------------------------------------------------- C11: errors that point at a command as a whole
def cmdline_cases():
    """run-time errors raised for a command as a whole (bad thresholds, mismatched lists, empty inputs, cycles, mixed shapes):
    the line they carry is the line on which that command starts, however many lines its arguments take"""
    pre = ["# header comment", "R1 = EEMSRead(InFileName = input.csv, InFieldName = a)", "", "R2 = EEMSRead(", "    InFileName = input.csv,", "    InFieldName = b", ")"]
    bodies = {
        "equal-thresholds": (["F = CvtToFuzzy(", "    InFieldName = R1,", "    TrueThreshold = 3,", "    FalseThreshold = 3,", "    Metadata = [note: x]", ")"], "InvalidThresholds"),
        "mismatched-lists": (["N = NormalizeCat(", "    InFieldName = R1,", "    RawValues = [1, 2, 3],", "    NormalValues = [0, 1],", "    DefaultNormalValue = 0", ")"], None),
        "empty-inputs": (["S = Sum(", "    InFieldNames = [],", "    Metadata = [note: x]", ")"], "EmptyInputs"),
        "mismatched-weights": (["W = WeightedSum(", "    InFieldNames = [R1, R2],", "    Weights = [1, 2, 3]", ")"], None),
        # (these two carry the line of one argument, looked up in the command's own table of argument lines)
        "duplicate-raw-values": (["N = NormalizeCat(", "    InFieldName = R1,", "    RawValues = [1, 1],", "    NormalValues = [0, 1],", "    DefaultNormalValue = 0", ")"], "DuplicateRawValues"),
        "duplicate-raw-values-fz": (["N = CvtToFuzzyCat(", "    InFieldName = R1,", "    RawValues = [2, 2],", "    FuzzyValues = [0, 1],", "    DefaultFuzzyValue = 0", ")"], "DuplicateRawValues"),
    }
    # a valid twin of the faulty command further down (same class, same argument names, other lines): a command's lines are its own
    twins = {
        "equal-thresholds": ["F2 = CvtToFuzzy(", "    InFieldName = R2,", "", "    TrueThreshold = 5,", "    FalseThreshold = 1,", "    Metadata = [note: y]", ")"],
        "mismatched-lists": ["N2 = NormalizeCat(", "    InFieldName = R2,", "", "    RawValues = [1, 2],", "    NormalValues = [0, 1],", "    DefaultNormalValue = 0", ")"],
        "empty-inputs": ["S2 = Sum(", "", "    InFieldNames = [R1, R2],", "    Metadata = [note: y]", ")"],
        "mismatched-weights": ["W2 = WeightedSum(", "", "    InFieldNames = [R1, R2],", "    Weights = [1, 2]", ")"],
        "duplicate-raw-values": ["N2 = NormalizeCat(", "    InFieldName = R2,", "", "", "    RawValues = [1, 2],", "    NormalValues = [0, 1],", "    DefaultNormalValue = 0", ")"],
        "duplicate-raw-values-fz": ["N2 = CvtToFuzzyCat(", "    InFieldName = R2,", "", "", "    RawValues = [1, 2],", "    FuzzyValues = [0, 1],", "    DefaultFuzzyValue = 0", ")"],
    }
    cases = []
    for label, (body, exc) in bodies.items():
        lines = pre + [""] + body + ["", "OUT = EEMSWrite(OutFileName = out.csv, OutFieldNames = [R1])"]
        start = len(pre) + 2
        cases.append({"files": {"input.csv": CSV}, "source": "\n".join(lines) + "\n", "label": "command-line:" + label, "cmd_lines": [start], "exc": exc,
                      "arg_lines": list(range(start, start + len(body)))})
        lines2 = pre + [""] + body + [""] + twins[label] + ["", "OUT = EEMSWrite(OutFileName = out.csv, OutFieldNames = [R1])"]
        cases.append({"files": {"input.csv": CSV}, "source": "\n".join(lines2) + "\n", "label": "command-line:" + label + "+twin", "cmd_lines": [start], "exc": exc,
                      "arg_lines": list(range(start, start + len(body)))})
    # a cycle: the error names a command on the cycle
    cyc = ["A = Copy(", "    InFieldName = B", ")", "", "B = Copy(", "    InFieldName = A,", "    Metadata = [note: x]", ")"]
    cases.append({"files": {"input.csv": CSV}, "source": "\n".join(pre + [""] + cyc) + "\n", "label": "command-line:cycle", "cmd_lines": [len(pre) + 2, len(pre) + 6],
                  "exc": "RecursiveModelStructure", "arg_lines": []})
    # mixed shapes need columns of different length: two files
    mixed = ["Q1 = EEMSRead(InFileName = input.csv, InFieldName = a)", "Q2 = EEMSRead(InFileName = short.csv, InFieldName = a)", "", "D = AMinusB(", "    A = Q1,", "    B = Q2,",
             "    Metadata = [note: x]", ")"]
    cases.append({"files": {"input.csv": CSV, "short.csv": "a\n1\n2\n"}, "source": "\n".join(mixed) + "\n", "label": "command-line:mixed-shapes", "cmd_lines": [4],
                  "exc": "MixedArrayShapes", "arg_lines": [5, 6, 7, 8]})
    return cases + [dict(c, mode="cli", mark_lines=c["cmd_lines"] + (c["arg_lines"] if c.get("exc") == "DuplicateRawValues" else [])) for c in cases]


def judge_cmdline(case, o):
    if "harness_error" in o:
        return [("harness-error", o["harness_error"][-300:])]
    bad = []
    if case.get("mode") == "cli":
        err = o["stderr"].replace("\r", "")
        marked = [l[4:] for l in err.split("\n") if l.startswith("--> ")]
        src = case["source"].split("\n")
        want = [src[i - 1] for i in case["mark_lines"]]
        if marked and marked[0] not in want:
            bad.append(("lineno", "the command-line tool marks %r; the failing command starts with %r" % (marked[0], want[0])))
        return bad
    e = o.get("exc")
    if e is None:
        return [("lineno", "the model was expected to fail (%s)" % case["label"])]
    if case.get("exc") and e["cls"] != case["exc"]:
        return []  # another error got there first: nothing to compare
    if e.get("lineno") is None:
        return []  # no line claimed is not a wrong line
    if e["lineno"] not in case["cmd_lines"] and e["lineno"] not in case.get("arg_lines", []):
        bad.append(("lineno", "%s carries line %r; the command starts on line %s" % (e["cls"], e["lineno"], case["cmd_lines"])))
    elif e["lineno"] not in case["cmd_lines"] and case.get("exc") in ("InvalidThresholds", "EmptyInputs", "RecursiveModelStructure", "MixedArrayShapes"):
        bad.append(("lineno", "%s is raised for the command as a whole but carries line %r (the command starts on line %s)" % (e["cls"], e["lineno"], case["cmd_lines"])))
    return bad


# --------------------------------------------------------------------------- C14: cyclic models over the real libraries
def cyclic_model_cases(tier="quick"):
    """reference cycles built from real commands (Copy, Sum, AMinusB, FuzzyNot ...), with and without acyclic sources, tails and
    consumers whose parameters restrict fuzziness; every textual order (quick: up to 6 per graph)"""
    import itertools

    R = "R = EEMSRead(InFileName = input.csv, InFieldName = a)"
    graphs = {
        "copy-self": ["A = Copy(InFieldName = A)"],
        "copy-2cycle": ["A = Copy(InFieldName = B)", "B = Copy(InFieldName = A)"],
        "copy-3cycle": ["A = Copy(InFieldName = B)", "B = Copy(InFieldName = C)", "C = Copy(InFieldName = A)"],
        "copy-cycle+typed-consumer": ["A = Copy(InFieldName = B)", "B = Copy(InFieldName = A)", "S = Sum(InFieldNames = [A, A])"],
        "copy-cycle+nonfuzzy-consumer": ["A = Copy(InFieldName = B)", "B = Copy(InFieldName = A)", "D = AMinusB(A = A, B = B)"],
        "copy-self+cvt": ["A = Copy(InFieldName = A)", "F = CvtToFuzzy(InFieldName = A)"],
        "sum-list-cycle": [R, "A = Sum(InFieldNames = [R, B])", "B = Copy(InFieldName = A)"],
        "diff-cycle-with-source": [R, "D = AMinusB(A = R, B = K)", "K = Copy(InFieldName = D)"],
        "cycle-with-tail-and-writer": [R, "A = Copy(InFieldName = B)", "B = AMinusB(A = A, B = R)", "W = EEMSWrite(OutFileName = out.csv, OutFieldNames = [B])"],
        "cycle-apart-from-valid-chain": [R, "S = Copy(InFieldName = R)", "A = Copy(InFieldName = B)", "B = Copy(InFieldName = A)"],
        "fuzzy-cycle": [R, "F = CvtToFuzzy(InFieldName = R)", "X = FuzzyOr(InFieldNames = [F, Y])", "Y = FuzzyNot(InFieldName = X)"],
        "printvars-cycle": ["P = PrintVars(InFieldNames = [Q])", "Q = PrintVars(InFieldNames = [P])"],
        "printvars-self": ["P = PrintVars(InFieldNames = [P])"],
        # the closing edge carries no numeric weight in the result: it is a reference all the same
        "weight-zero-self": [R, "A = WeightedSum(InFieldNames = [R, A], Weights = [1, 0])"],
        "weight-zero-2cycle": [R, "A = WeightedSum(InFieldNames = [R, B], Weights = [1, 0.0])", "B = Copy(InFieldName = A)"],
        "weighted-mean-zero": [R, "A = WeightedMean(InFieldNames = [R, B], Weights = [2, 0])", "B = Copy(InFieldName = A)"],
        "fuzzy-weight-zero": [R, "F = CvtToFuzzy(InFieldName = R)", "X = FuzzyWeightedUnion(InFieldNames = [F, Y], Weights = [1, 0])", "Y = FuzzyNot(InFieldName = X)"],
        "select-one-of-two": [R, "F = CvtToFuzzy(InFieldName = R)", "X = FuzzySelectedUnion(InFieldNames = [F, Y], TruestOrFalsest = Truest, NumberToConsider = 1)", "Y = FuzzyNot(InFieldName = X)"],
    }
    cases = []
    for name, lines in graphs.items():
        perms = list(itertools.permutations(range(len(lines))))
        if tier == "quick" and len(perms) > 6:
            perms = perms[:2] + perms[len(perms) // 2:len(perms) // 2 + 2] + perms[-2:]
        for p in perms:
            cases.append({"files": {"input.csv": CSV}, "source": "\n".join(lines[i] for i in p) + "\n", "label": "cyclic:" + name})
    return cases


def judge_cyclic(case, o):
    if "harness_error" in o:
        return [("harness-error", o["harness_error"][-300:])]
    e = o.get("exc")
    if o["stage"] == "ok":
        return [("all-finished", "a cyclic model ran to a normal end (executed %s)" % o.get("executed"))]
    if o["stage"] == "load":
        return [("reentrancy", "a cyclic model was rejected at load time with %s" % e["cls"])]
    if e["cls"] != "RecursiveModelStructure":
        return [("reentrancy", "a cyclic model was rejected with %s instead of RecursiveModelStructure: %s" % (e["cls"], e["msg"][:120]))]
    return []
