"""Assumed contracts of Python builtins / stdlib used by mpilot, as executor models (bi_* methods)."""
import ast

import z3

from . import smt
from .values import (
    Unsupported, Sym, Ref, TupleV, FuncV, LambdaV, BuiltinV, ClassV, ModuleV, SuperV, Raised, ExcSym,
    PyList, SeqV, PyDict, Bag, Obj, ArrState, DataView, MaskView, Idx, StackState, Slice, is_concrete, num_term, isint_of,
    is_num, zand, zor, znot,
)

# uninterpreted string functions (assumed total)
STR_LOWER = z3.Function("str_lower", z3.StringSort(), z3.StringSort())
PY_STR = z3.Function("py_str", smt.Val, z3.StringSort())
FMT = z3.Function("str_format", z3.StringSort(), z3.IntSort(), z3.StringSort())
SEQSUM = {}


class BuiltinMixin(object):
    # ------------------------------------------------------------------ len / conversions
    def bi_len(self, st, args, kw):
        (v,) = args
        if isinstance(v, TupleV):
            yield st, len(v.items)
        elif isinstance(v, str):
            yield st, len(v)
        elif isinstance(v, Sym) and v.kind == "str":
            yield st, Sym("num", z3.ToReal(z3.Length(v.t)), True)
        elif isinstance(v, Sym) and v.kind == "shape":
            yield st, Sym("num", z3.ToReal(self.rank(v.t)), True)
        elif isinstance(v, Ref):
            o = st.get(v)
            if isinstance(o, PyList):
                if o.items is not None:
                    yield st, len(o.items)
                else:
                    yield st, Sym("num", z3.ToReal(o.seq.n), True)
            elif isinstance(o, PyDict) and not o.present:
                yield st, len(o.entries)
            elif isinstance(o, Obj) and o.cls.name == "SetOf":
                yield st, o.fields["len"]
            else:
                raise Unsupported("len of %r" % o)
        elif isinstance(v, Sym) and v.kind == "dyn":
            for r in self.dyn_len(st, v):
                yield r
        else:
            yield self.raise_(st, "TypeError", "object has no len()")

    def dyn_len(self, st, v):
        raise Unsupported("len of dynamic value")

    def bi_new_float(self, st, args, kw):
        for r in self.bi_float(st, args, kw):
            yield r

    def bi_new_int(self, st, args, kw):
        for r in self.bi_int(st, args, kw):
            yield r

    def bi_new_str(self, st, args, kw):
        for r in self.bi_str(st, args, kw):
            yield r

    def bi_new_bool(self, st, args, kw):
        for r in self.bi_bool(st, args, kw):
            yield r

    def bi_new_list(self, st, args, kw):
        for r in self.bi_list(st, args, kw):
            yield r

    def bi_new_tuple(self, st, args, kw):
        if not args:
            yield st, TupleV([])
            return
        if isinstance(args[0], Sym) and args[0].kind in ("shape", "tuplen"):
            yield st, args[0]
            return
        for st1, seq in self.as_sequence(st, args[0]):
            if isinstance(seq, list):
                yield st1, TupleV(seq)
            else:
                raise Unsupported("tuple() of symbolic sequence")

    def bi_new_dict(self, st, args, kw):
        if not args and not kw:
            yield st, st.alloc(PyDict({}))
            return
        (v,) = args
        for st1, seq in self.as_sequence(st, v):
            if isinstance(seq, Raised):
                yield st1, seq
                continue
            if not isinstance(seq, list):
                raise Unsupported("dict() of symbolic sequence")
            d = {}
            for it in seq:
                k, val = self.unpack(st1, it, 2)
                if not isinstance(k, str):
                    for r in self.dyn_dict_from_pairs(st1, seq):
                        yield r
                    return
                d[k] = val
            yield st1, st1.alloc(PyDict(d))

    def dyn_dict_from_pairs(self, st, seq):
        raise Unsupported("dict() with symbolic keys")

    def bi_new_set(self, st, args, kw):
        for r in self.bi_set(st, args, kw):
            yield r

    def bi_float(self, st, args, kw):
        (v,) = args
        if isinstance(v, (bool, int, float)):
            yield st, float(v)
        elif is_num(v):
            yield st, Sym("num", num_term(v), False)
        elif isinstance(v, Sym) and v.kind == "dyn":
            for r in self.dyn_float(st, v):
                yield r
        elif self.is_str(v):
            for r in self.dyn_float(st, Sym("dyn", smt.Val.S(self.str_term(v)))):
                yield r
        else:
            yield self.raise_(st, "TypeError", "float() argument must be a string or a number")

    def bi_int(self, st, args, kw):
        (v,) = args
        if isinstance(v, (bool, int)):
            yield st, int(v)
        elif isinstance(v, float):
            yield st, int(v)
        elif is_num(v):
            ii = isint_of(v)
            t = num_term(v)
            # truncation toward zero
            tr = z3.If(t >= 0, z3.ToReal(z3.ToInt(t)), -z3.ToReal(z3.ToInt(-t)))
            yield st, Sym("num", t if ii is True else tr, True)
        elif isinstance(v, Sym) and v.kind == "dyn":
            for r in self.dyn_int(st, v):
                yield r
        elif self.is_str(v):
            for r in self.dyn_int(st, Sym("dyn", smt.Val.S(self.str_term(v)))):
                yield r
        else:
            yield self.raise_(st, "TypeError", "int() argument must be a string or a number")

    def bi_str(self, st, args, kw):
        if not args:
            yield st, ""
            return
        (v,) = args
        if isinstance(v, str):
            yield st, v
        elif isinstance(v, Sym) and v.kind == "str":
            yield st, v
        elif isinstance(v, bool) or v is None or isinstance(v, int):
            yield st, str(v)
        elif isinstance(v, Ref) and isinstance(st.get(v), Obj) and st.get(v).cls.info is not None \
                and self.repo.find_method(st.get(v).cls.info, "__str__") is not None:
            fi = self.repo.find_method(st.get(v).cls.info, "__str__")
            for r in self.call_func(st, FuncV(fi, self_val=v, cls=fi.cls), [], {}):
                yield r
        else:
            # str() of any other object is total (default __str__/__repr__): an unspecified string
            yield st, Sym("str", smt.fresh("str_of", z3.StringSort()))

    def bi_bool(self, st, args, kw):
        (v,) = args
        for st1, t in self.truth(st, v):
            if isinstance(t, (bool, Raised)):
                yield st1, t
            else:
                yield st1, Sym("bool", t)

    def bi_list(self, st, args, kw):
        if not args:
            yield st, st.alloc(PyList(items=[]))
            return
        (v,) = args
        if isinstance(v, Sym) and v.kind == "shape":
            yield st, Sym("shapelist", v.t)
            return
        for st1, seq in self.as_sequence(st, v):
            if isinstance(seq, Raised):
                yield st1, seq
            elif isinstance(seq, list):
                yield st1, st1.alloc(PyList(items=list(seq)))
            else:
                yield st1, st1.alloc(PyList(seq=seq))

    def bi_range(self, st, args, kw):
        ints = [self.concrete_int(a) for a in args]
        if all(i is not None for i in ints):
            yield st, st.alloc(PyList(items=list(range(*ints))))
            return
        if len(args) == 1:
            n = self.int_term(args[0])
            n = z3.If(n > 0, n, 0)
            yield st, st.alloc(PyList(seq=SeqV(z3.simplify(n), lambda k: Sym("num", z3.ToReal(k), True))))
            return
        raise Unsupported("range with symbolic bounds")

    def bi_enumerate(self, st, args, kw):
        (v,) = args
        for st1, seq in self.as_sequence(st, v):
            if isinstance(seq, list):
                yield st1, st1.alloc(PyList(items=[TupleV([i, x]) for i, x in enumerate(seq)]))
            else:
                yield st1, st1.alloc(PyList(seq=SeqV(seq.n, lambda k, seq=seq: TupleV(
                    [Sym("num", z3.ToReal(k), True), seq.get(k)]), meta=dict(seq.meta))))

    def bi_zip(self, st, args, kw):
        seqs = []
        s = st
        for a in args:
            rs = list(self.as_sequence(s, a))
            if len(rs) != 1:
                raise Unsupported("zip argument forks")
            s, q = rs[0]
            seqs.append(q)
        if all(isinstance(q, list) for q in seqs):
            yield s, s.alloc(PyList(items=[TupleV(t) for t in zip(*seqs)]))
            return
        qs = [q if isinstance(q, SeqV) else self.list_seq(PyList(items=q)) for q in seqs]
        n = qs[0].n
        for q in qs[1:]:
            n = z3.If(q.n < n, q.n, n)
        n = z3.simplify(n)
        yield s, s.alloc(PyList(seq=SeqV(n, lambda k, qs=qs: TupleV([q.get(k) for q in qs]), tag="zip", meta={"zipped": qs})))

    def bi_set(self, st, args, kw):
        if not args:
            yield st, st.alloc(Bag("set"))
            return
        (v,) = args
        for st1, seq in self.as_sequence(st, v):
            if isinstance(seq, list):
                seq = self.list_seq(PyList(items=seq)) if seq else SeqV(z3.IntVal(0), lambda k: None)
            try:
                self.seq_key(seq)
            except Unsupported:
                # a set of non-numeric values: content untracked
                yield st1, st1.alloc(Bag("set"))
                continue
            # len(set(xs)) == len(xs) iff the elements are pairwise distinct: DISTINCT(xs)
            dl = smt.fresh("setlen", z3.IntSort())
            dist = self.distinct_pred(seq)
            st1.assume(z3.And(dl >= 0, dl <= seq.n, z3.Implies(seq.n >= 1, dl >= 1), (dl == seq.n) == dist))
            yield st1, st1.alloc(Obj(ClassV("SetOf"), {"len": Sym("num", z3.ToReal(dl), True), "seq": seq, "dl": dl}))

    def seq_key(self, seq):
        """structural identity of a numeric (or pair) sequence: its generic element and its length"""
        k0 = z3.Int("K!generic")
        e = seq.get(k0)

        def sx(v):
            if isinstance(v, TupleV):
                return tuple(sx(i) for i in v.items)
            if is_num(v):
                return z3.simplify(num_term(v)).sexpr()
            raise Unsupported("sequence key of %r" % (v,))

        return (sx(e), z3.simplify(seq.n).sexpr())

    def distinct_pred(self, seq):
        """DIST(xs): the elements of xs are pairwise distinct (uninterpreted; facts via sorted())"""
        reg = self.__dict__.setdefault("_distinct", {})
        key = self.seq_key(seq)
        if key not in reg:
            reg[key] = smt.fresh("distinct", z3.BoolSort())
            self.__dict__.setdefault("_distinct_seqs", {})[key] = (seq, reg[key])
        return reg[key]

    def bi_sum(self, st, args, kw):
        node = kw.get("__node__")
        v = args[0]
        for st1, seq in self.as_sequence(st, v):
            if isinstance(seq, list):
                acc = args[1] if len(args) > 1 else 0

                def go(s, i, acc):
                    if i >= len(seq):
                        yield s, acc
                        return
                    for s2, r in self.binop(s, ast.Add(), acc, seq[i]):
                        if isinstance(r, Raised):
                            yield s2, r
                        else:
                            for x in go(s2, i + 1, r):
                                yield x

                for r in go(st1, 0, acc):
                    yield r
                return
            probe = seq.get(smt.fresh("k", z3.IntSort()))
            if is_num(probe):
                # numeric sequence: the (assumed) contract of sum is the spec function SEQSUM
                yield st1, self.seq_numsum(st1, seq)
                return
            # arrays: left fold of + starting from 0, under the loop contract keyed ("sum", ordinal)
            fi = self.frames[-1]
            ordn = self.loop_ordinal("sum", node)
            lc = self.loop_contracts.get((fi.key, "sum", ordn))
            if lc is None:
                raise Unsupported("sum() over arrays at %s needs a fold invariant" % fi.key)
            st1.env["$acc"] = 0

            def body(s, elem, j):
                for s2, r in self.binop(s, ast.Add(), s.env["$acc"], elem):
                    if isinstance(r, Raised):
                        yield s2, ("raise", r.exc)
                    else:
                        s2.env["$acc"] = r
                        yield s2, ("normal", None)

            for s2, out in self.iterate(st1, seq, body, lc, "%s/sum%d" % (fi.key, ordn)):
                if out[0] == "normal":
                    acc = s2.env.pop("$acc")
                    yield s2, acc
                else:
                    s2.env.pop("$acc", None)
                    yield s2, Raised(out[1])

    def seq_numsum(self, st, seq):
        """Σ of a numeric sequence as an uninterpreted spec function of the sequence (memoised per SeqV)."""
        reg = self.__dict__.setdefault("_numsum", {})
        key = self.seq_key(seq)
        if key not in reg:
            reg[key] = Sym("num", smt.fresh("seqsum", z3.RealSort()), smt.fresh("seqsum_isint", z3.BoolSort()))
            self.__dict__.setdefault("_numsum_seqs", {})[key] = (seq, reg[key])
        return reg[key]

    def bi_functools_reduce(self, st, args, kw):
        node = kw.get("__node__")
        f = args[0]
        for st1, seq in self.as_sequence(st, args[1]):
            if isinstance(seq, Raised):
                yield st1, seq
                continue
            if isinstance(seq, list):
                items = list(seq)
                if len(args) > 2:
                    acc = args[2]
                elif items:
                    acc = items.pop(0)
                else:
                    yield self.raise_(st1, "TypeError", "reduce() of empty sequence with no initial value")
                    continue

                def go(s, i, acc):
                    if i >= len(items):
                        yield s, acc
                        return
                    for s2, r in self.call(s, f, [acc, items[i]], {}):
                        if isinstance(r, Raised):
                            yield s2, r
                        else:
                            for x in go(s2, i + 1, r):
                                yield x

                for r in go(st1, 0, acc):
                    yield r
                continue
            fi = self.frames[-1]
            ordn = self.loop_ordinal("reduce", node)
            lc = self.loop_contracts.get((fi.key, "reduce", ordn))
            if lc is None:
                raise Unsupported("reduce() over a symbolic sequence at %s needs a fold invariant" % fi.key)
            if len(args) > 2:
                starts = [(st1, args[2], seq)]
            else:
                starts = []
                for s2, ne in self.branch(st1, seq.n >= 1):
                    if not ne:
                        yield self.raise_(s2, "TypeError", "reduce() of empty sequence with no initial value")
                    else:
                        starts.append((s2, seq.get(z3.IntVal(0)), self.seq_slice(seq, Slice(1, None))))
            for s2, acc0, rest in starts:
                s2.env["$acc"] = acc0

                def body(s, elem, j):
                    for s3, r in self.call(s, f, [s.env["$acc"], elem], {}):
                        if isinstance(r, Raised):
                            yield s3, ("raise", r.exc)
                        else:
                            s3.env["$acc"] = r
                            yield s3, ("normal", None)

                for s3, out in self.iterate(s2, rest, body, lc, "%s/reduce%d" % (fi.key, ordn)):
                    if out[0] == "normal":
                        yield s3, s3.env.pop("$acc")
                    else:
                        s3.env.pop("$acc", None)
                        yield s3, Raised(out[1])

    def bi_reduce(self, st, args, kw):
        for r in self.bi_functools_reduce(st, args, kw):
            yield r

    def bi_sorted(self, st, args, kw):
        (v,) = args
        for st1, seq in self.as_sequence(st, v):
            if isinstance(seq, list):
                seq = self.list_seq(PyList(items=seq))
            for r in self.sorted_seq(st1, seq):
                yield r

    def sorted_seq(self, st, seq):
        """sorted() of a sequence of numbers or (number, number) pairs: an ordered permutation (assumed)."""
        yield st, st.alloc(PyList(seq=self.sorted_pairs(seq)))

    def sorted_pairs(self, seq):
        reg = self.__dict__.setdefault("_sorted", {})
        probe = seq.get(smt.fresh("k", z3.IntSort()))
        if not (isinstance(probe, TupleV) and len(probe.items) == 2 and all(is_num(x) for x in probe.items)):
            raise Unsupported("sorted() of this sequence")
        key = self.seq_key(seq)
        if key in reg:
            return reg[key]
        P = smt.fresh_fun("sorted_p", z3.IntSort(), z3.RealSort())
        Q = smt.fresh_fun("sorted_q", z3.IntSort(), z3.RealSort())
        QI = smt.fresh_fun("sorted_qint", z3.IntSort(), z3.BoolSort())
        PI = smt.fresh_fun("sorted_pint", z3.IntSort(), z3.BoolSort())
        SIG = smt.fresh_fun("sorted_perm", z3.IntSort(), z3.IntSort())
        if "zipped" in seq.meta:
            firsts = seq.meta["zipped"][0]
        else:
            firsts = SeqV(seq.n, lambda k, seq=seq: seq.get(k).items[0])
        dist = self.distinct_pred(firsts)
        new = SeqV(seq.n, lambda k: TupleV([Sym("num", P(k), PI(k)), Sym("num", Q(k), QI(k))]), tag="sorted",
                   meta={"P": P, "Q": Q, "SIG": SIG, "src": seq, "dist": dist})
        reg[key] = new
        return new

    def sorted_facts(self, st, with_perm=False):
        """assumed contract of sorted() on pairs with distinct first components: an ordered permutation.
        The permutation link (P(k), Q(k)) = src[SIG(k)] is only supplied on request (concrete evaluation):
        spec and code share P, Q, so no proof obligation needs it."""
        out = []
        for new in self.__dict__.get("_sorted", {}).values():
            P, Q, SIG, src, dist, n = new.meta["P"], new.meta["Q"], new.meta["SIG"], new.meta["src"], new.meta["dist"], new.n
            for k in st.all_kterms():
                out.append(z3.Implies(z3.And(k >= 0, k < n - 1), z3.And(P(k) <= P(k + 1), z3.Implies(dist, P(k) < P(k + 1)))))
                out.append(z3.Implies(z3.And(k >= 1, k < n), z3.And(P(k - 1) <= P(k), z3.Implies(dist, P(k - 1) < P(k)))))
                if with_perm:
                    e = src.get(SIG(k))
                    out.append(z3.Implies(z3.And(k >= 0, k < n), z3.And(SIG(k) >= 0, SIG(k) < n, P(k) == num_term(e.items[0]), Q(k) == num_term(e.items[1]))))
        return out

    # ------------------------------------------------------------------ type tests
    def bi_isinstance(self, st, args, kw):
        v, cls = args
        yield st, self.isinstance_(st, v, cls)

    def isinstance_(self, st, v, cls):
        if isinstance(cls, TupleV):
            rs = [self.isinstance_(st, v, c) for c in cls.items]
            if all(isinstance(r, bool) for r in rs):
                return any(rs)
            return Sym("bool", zor(*[r.t if isinstance(r, Sym) else r for r in rs]))
        if not isinstance(cls, ClassV):
            raise Unsupported("isinstance with %r" % (cls,))
        n = cls.name
        if isinstance(v, ExcSym):
            m = self.exc_matches(st, v, cls)
            return m if isinstance(m, bool) else Sym("bool", m)
        if isinstance(v, Sym) and v.kind == "dyn":
            return Sym("bool", self.dyn_isinstance(st, v.t, cls))
        if isinstance(v, bool):
            return n in ("bool", "int", "Number", "object")
        if isinstance(v, int):
            return n in ("int", "Number", "object")
        if isinstance(v, float):
            return n in ("float", "Number", "object")
        if is_num(v):
            if n in ("Number", "object"):
                return True
            ii = isint_of(v)
            if n == "int":
                return ii if isinstance(ii, bool) else Sym("bool", ii)
            if n == "float":
                return (not ii) if isinstance(ii, bool) else Sym("bool", znot(ii))
            return False
        if isinstance(v, Sym) and v.kind == "bool":
            return n in ("bool", "int", "Number", "object")
        if self.is_str(v):
            return n in ("str", "object")
        if v is None:
            return n == "object"
        if isinstance(v, TupleV):
            return n in ("tuple", "object")
        if isinstance(v, Ref):
            o = st.get(v)
            if isinstance(o, PyList):
                return n in ("list", "object")
            if isinstance(o, PyDict):
                return n in ("dict", "object")
            if isinstance(o, ArrState):
                return n in ("ndarray", "object")
            if isinstance(o, Obj) and o.cls.name == "SymDict":
                return n in ("dict", "object")
            if isinstance(o, Obj):
                return self.class_is_subclass(o.cls, n)
        if isinstance(v, (ClassV,)):
            return n in ("type", "object")
        raise Unsupported("isinstance(%r, %s)" % (v, n))

    def dyn_isinstance(self, st, t, cls):
        raise Unsupported("isinstance on dynamic value")

    def bi_issubclass(self, st, args, kw):
        a, b = args
        if isinstance(b, TupleV):
            rs = []
            for c in b.items:
                rs.append(list(self.bi_issubclass(st, [a, c], {}))[0][1])
            if all(isinstance(r, bool) for r in rs):
                yield st, any(rs)
            else:
                yield st, Sym("bool", zor(*[r.t if isinstance(r, Sym) else r for r in rs]))
            return
        if isinstance(a, ClassV) and isinstance(b, ClassV):
            yield st, self.class_is_subclass(a, b.name)
            return
        for r in self.dyn_issubclass(st, a, b):
            yield r

    def dyn_issubclass(self, st, a, b):
        raise Unsupported("issubclass on %r, %r" % (a, b))

    def bi_hasattr(self, st, args, kw):
        o, name = args
        if not isinstance(name, str):
            raise Unsupported("hasattr with symbolic name")
        if isinstance(o, Sym) and o.kind == "dyn":
            for r in self.dyn_hasattr(st, o, name):
                yield r
            return
        outs = list(self.get_attr(st.fork(), o, name))
        if len(outs) == 1:
            yield st, not isinstance(outs[0][1], Raised)
            return
        raise Unsupported("hasattr forks")

    def dyn_hasattr(self, st, o, name):
        raise Unsupported("hasattr on dynamic value")

    def bi_getattr(self, st, args, kw):
        o, name = args[0], args[1]
        if not isinstance(name, str):
            raise Unsupported("getattr with symbolic name")
        if isinstance(o, Sym) and o.kind == "dyn":
            for r in self.dyn_getattr(st, o, name, args[2:] if len(args) > 2 else None):
                yield r
            return
        for st1, v in self.get_attr(st, o, name):
            if isinstance(v, Raised) and len(args) > 2:
                e = st1.get(v.exc)
                if e.cls.name == "AttributeError":
                    yield st1, args[2]
                    continue
            yield st1, v

    def dyn_getattr(self, st, o, name, default):
        raise Unsupported("getattr on dynamic value")

    def bi_super(self, st, args, kw):
        if len(args) != 2:
            raise Unsupported("zero-argument super()")
        cls, selfv = args
        if isinstance(selfv, Ref) and isinstance(st.get(selfv), Obj):
            o = st.get(selfv)
            if not self.class_is_subclass(o.cls, cls.name):
                yield self.raise_(st, "TypeError", "super(type, obj): obj must be an instance or subtype of type")
                return
            sv = SuperV(cls, selfv)
            sv.self_cls_info = o.cls.info
            yield st, sv
            return
        if isinstance(selfv, ClassV):
            sv = SuperV(cls, selfv)
            sv.self_cls_info = selfv.info
            yield st, sv
            return
        for r in self.dyn_super(st, cls, selfv):
            yield r

    def dyn_super(self, st, cls, selfv):
        raise Unsupported("super() on %r" % (selfv,))

    def bi_super___init__(self, st, args, kw):
        # object.__init__ / Exception.__init__(self, *args): stores args
        selfv = args[0]
        o = st.get(selfv)
        if isinstance(o, Obj) and self.class_is_subclass(o.cls, "BaseException"):
            o2 = Obj(o.cls, o.fields)
            o2.fields["args"] = TupleV(args[1:])
            st.set(selfv, o2)
        yield st, None

    def bi_super___str__(self, st, args, kw):
        yield st, Sym("str", smt.fresh("base_str", z3.StringSort()))

    # ------------------------------------------------------------------ lists / dicts
    def bi_list_append(self, st, args, kw):
        ref, v = args
        o = st.get(ref)
        if o.items is None:
            old = o.seq
            n = old.n
            st.set(ref, PyList(seq=SeqV(z3.simplify(n + 1), lambda k, old=old, n=n, v=v: self.ite_value(k == n, v, old.get(k)))))
            yield st, None
            return
        st.set(ref, PyList(items=o.items + [v]))
        yield st, None

    def bi_list_index(self, st, args, kw):
        raise Unsupported("list.index")

    def bi_list_copy(self, st, args, kw):
        o = st.get(args[0])
        yield st, st.alloc(PyList(items=list(o.items) if o.items is not None else None, seq=o.seq))

    def bi_bag_method(self, st, args, kw):
        # any method of an untracked local container: no effect outside it, an unconstrained result (A-LOCALS)
        yield st, st.alloc(Bag("result"))

    def bi_dict_get(self, st, args, kw):
        ref, key = args[0], args[1]
        default = args[2] if len(args) > 2 else None
        d0 = st.get(ref)
        if not isinstance(key, str) and isinstance(d0, PyDict) and not d0.present and getattr(d0, "total", None) is None \
                and st.is_fresh(ref):
            st.set(ref, Bag("dict"))
            yield st, st.alloc(Bag("dict.get"))
            return
        for r in self.dict_get(st, st.get(ref), key, default):
            yield r

    def _definite(self, st, d):
        """Fork until every key's presence is decided. yields (st, entries dict)."""
        out = [(st, {})]
        for k, v in d.entries.items():
            p = d.present.get(k, True)
            nxt = []
            for s, e in out:
                for s2, taken in self.branch(s, p):
                    e2 = dict(e)
                    if taken:
                        e2[k] = v
                    nxt.append((s2, e2))
            out = nxt
        return out

    def bi_dict_items(self, st, args, kw):
        d = st.get(args[0])
        for s, e in self._definite(st, d):
            yield s, s.alloc(PyList(items=[TupleV([k, v]) for k, v in e.items()]))

    def bi_dict_keys(self, st, args, kw):
        d = st.get(args[0])
        for s, e in self._definite(st, d):
            yield s, s.alloc(PyList(items=list(e.keys())))

    def bi_dict_values(self, st, args, kw):
        d = st.get(args[0])
        for s, e in self._definite(st, d):
            yield s, s.alloc(PyList(items=list(e.values())))

    def bi_dict_update(self, st, args, kw):
        ref, other = args
        d = st.get(ref)
        o = st.get(other)
        if not isinstance(o, PyDict):
            raise Unsupported("dict.update with non-dict")
        n = PyDict(d.entries, d.present)
        n.total = getattr(d, "total", None)
        for k, v in o.entries.items():
            p = o.present.get(k, True)
            if p is True:
                n.entries[k] = v
                n.present.pop(k, None)
            elif k in n.entries:
                # present in other -> other's value, else keep
                oldp = n.present.get(k, True)
                n.entries[k] = self.ite_value(p, v, n.entries[k])
                newp = zor(p, oldp)
                if z3.is_true(newp):
                    n.present.pop(k, None)
                else:
                    n.present[k] = newp
            else:
                n.entries[k] = v
                n.present[k] = p
        st.set(ref, n)
        yield st, None

    def bi_copy_copy(self, st, args, kw):
        (v,) = args
        if isinstance(v, Ref):
            o = st.get(v)
            if isinstance(o, PyDict):
                n = PyDict(o.entries, o.present)
                n.total = getattr(o, "total", None)
                yield st, st.alloc(n)
                return
            if isinstance(o, PyList):
                yield st, st.alloc(PyList(items=list(o.items) if o.items is not None else None, seq=o.seq))
                return
        raise Unsupported("copy.copy of %r" % (v,))

    # ------------------------------------------------------------------ strings (assumed total)
    def _unspec_str(self, st, tag):
        return Sym("str", smt.fresh(tag, z3.StringSort()))

    def bi_str_format(self, st, args, kw):
        node = kw.pop("__node__", None)
        fmt = args[0]
        rest = args[1:]
        if isinstance(fmt, str):
            import string

            slots = 0
            for lit, field, spec, conv in string.Formatter().parse(fmt):
                if field is not None:
                    if field == "" or field.isdigit():
                        idx = slots if field == "" else int(field)
                        slots = max(slots, idx + 1)
            sym_len = [a for a in rest if isinstance(a, _StarSeq)]
            if sym_len:
                n = z3.IntVal(len(rest) - len(sym_len))
                for a in sym_len:
                    n = n + a.n
                for s2, ok in self.branch(st, n >= slots):
                    if ok:
                        yield s2, self._unspec_str(s2, "fmt")
                    else:
                        yield self.raise_(s2, "IndexError", "Replacement index out of range for positional args tuple")
                return
            if slots > len(rest):
                yield self.raise_(st, "IndexError", "Replacement index out of range for positional args tuple")
                return
            # str() of each argument may run a repo __str__
            states = [st]
            for a in rest:
                nxt = []
                for s in states:
                    for s2, r in self.bi_str(s, [a], {}):
                        if isinstance(r, Raised):
                            yield s2, r
                        else:
                            nxt.append(s2)
                states = nxt
            for s in states:
                yield s, self._unspec_str(s, "fmt")
            return
        raise Unsupported("format on symbolic template")

    def bi_str_join(self, st, args, kw):
        sep, it = args
        if isinstance(it, Ref) and isinstance(st.get(it), Obj) and st.get(it).cls.name == "SymKeys":
            yield st, Sym("str", st.get(it).fields["joined"])
            return
        for st1, seq in self.as_sequence(st, it):
            if isinstance(seq, Raised):
                yield st1, seq
                continue
            if isinstance(seq, list):
                bad = [x for x in seq if not self.is_str(x)]
                if bad:
                    if any(isinstance(x, Sym) and x.kind == "dyn" for x in bad):
                        for r in self.dyn_join(st1, sep, seq):
                            yield r
                        continue
                    yield self.raise_(st1, "TypeError", "sequence item: expected str instance")
                    continue
                if all(isinstance(x, str) for x in seq) and isinstance(sep, str):
                    yield st1, sep.join(seq)
                else:
                    yield st1, self._unspec_str(st1, "join")
            else:
                probe = seq.get(smt.fresh("k", z3.IntSort()))
                if self.is_str(probe):
                    yield st1, self._unspec_str(st1, "join")
                else:
                    for r in self.dyn_join(st1, sep, seq):
                        yield r

    def dyn_join(self, st, sep, seq):
        raise Unsupported("join of non-string items")

    def bi_str_lower(self, st, args, kw):
        (s,) = args
        if isinstance(s, str):
            yield st, s.lower()
        else:
            yield st, Sym("str", STR_LOWER(self.str_term(s)))

    def bi_str_strip(self, st, args, kw):
        if isinstance(args[0], str) and all(isinstance(a, str) for a in args[1:]):
            yield st, args[0].strip(*args[1:])
        else:
            yield st, self._unspec_str(st, "strip")

    def bi_str_startswith(self, st, args, kw):
        s, p = args
        if isinstance(s, str) and isinstance(p, str):
            yield st, s.startswith(p)
        else:
            yield st, Sym("bool", z3.PrefixOf(self.str_term(p), self.str_term(s)))

    def bi_str_decode(self, st, args, kw):
        yield st, args[0]

    # ------------------------------------------------------------------ misc
    def bi_print(self, st, args, kw):
        st.log.append(("print",))
        yield st, None

    def bi_open(self, st, args, kw):
        st.log.append(("open", args[0], args[1] if len(args) > 1 else "r"))
        f = Obj(ClassV("File"), {"path": args[0]})

        def hook(eng, st_, ref, attr):
            yield st_, BuiltinV("file." + attr, self_val=ref)

        f.attr_hook = hook
        yield st, st.alloc(f)

    def bi_file_write(self, st, args, kw):
        if not self.is_str(args[1]):
            yield self.raise_(st, "TypeError", "write() argument must be str")
            return
        st.log.append(("write", args[0]))
        yield st, None

    def bi_six_raise_from(self, st, args, kw):
        yield st, Raised(args[0])

    def bi_traceback_format_exc(self, st, args, kw):
        yield st, self._unspec_str(st, "traceback")

    def bi_packaging_version_parse(self, st, args, kw):
        yield st, Sym("version", None)

    def bi_new_Exception(self, st, args, kw):
        yield st, self.make_exc(st, "Exception", {"args": TupleV(args)})

    def _new_exc(name):
        def f(self, st, args, kw):
            yield st, self.make_exc(st, name, {"args": TupleV(args)})

        return f

    for _n in ("ValueError", "TypeError", "KeyError", "IndexError", "AttributeError", "StopIteration",
               "NotImplementedError", "RuntimeError", "SyntaxError", "ZeroDivisionError"):
        locals()["bi_new_" + _n] = _new_exc(_n)
    del _n


class _StarSeq(object):
    """*args of symbolic length n (only str.format consumes it)."""

    def __init__(self, n):
        self.n = n
