"""B-CSV / B-NC: bounded stand-ins for the csv module, the file system and the netCDF C library (C17, C18)."""
import csv
import io
import json
import os
import random
import struct
import subprocess
import tempfile

from . import replay

RUNNER = os.path.join(replay.HERE, "runner", "run_io.py")
DOUBLES = [0.0, -0.0, 1.0, -1.5, 0.1, 1e-05, 123456789.125, 5e-324, 2.2250738585072014e-308, 1.7976931348623157e+308, -1.7976931348623157e+308,
           1e22, 1e23, 0.30000000000000004, 4.35, 100.0, 1e-300, 3.141592653589793, -9999.0, 2.5]
INTS = [0, 1, -1, 7, -9999, 123456, 2147483648, 9007199254740992]


def run_real(cases, repo_root="/repo", timeout=1200):
    d = replay.workdir()
    fin = tempfile.NamedTemporaryFile("w", suffix=".ioin.json", dir=d, delete=False)
    json.dump(cases, fin)
    fin.close()
    fout = fin.name.replace(".ioin.json", ".ioout.json")
    try:
        p = subprocess.run([replay.VENV_PY, RUNNER, fin.name, fout, repo_root], capture_output=True, text=True, timeout=timeout)
        if p.returncode != 0 or not os.path.exists(fout):
            raise RuntimeError("runner failed: %s %s" % (p.stdout[-500:], p.stderr[-1500:]))
        return json.load(open(fout))
    finally:
        for f in (fin.name, fout):
            try:
                os.unlink(f)
            except OSError:
                pass


def hx(x):
    return float(x).hex()


# =========================================================================== CSV
def csv_text(headers, rows, blank_after=(), crlf=False):
    buf = io.StringIO()
    w = csv.writer(buf, lineterminator="\r\n" if crlf else "\n")
    w.writerow(headers)
    for i, r in enumerate(rows):
        w.writerow(r)
        if i in blank_after:
            buf.write("\r\n" if crlf else "\n")
    return buf.getvalue()


def csv_cases(tier, seed=0):
    rnd = random.Random(1717 + seed)
    out = []
    heads = [["A", "B", "C"], ["Elev", "a,b", 'say "x"'], ["x"], ["A", " B"], ["A", "A2", "B"]]
    n_tables = 25 if tier == "quick" else 200
    for t in range(n_tables):
        headers = rnd.choice(heads)
        nrows = rnd.choice([0, 1, 3, 4])
        rows = []
        for _ in range(nrows):
            rows.append([repr(rnd.choice(DOUBLES)) if rnd.random() < 0.7 else str(rnd.choice(INTS[:6])) for _ in headers])
        blanks = set(i for i in range(nrows) if rnd.random() < 0.3)
        text = csv_text(headers, rows, blanks, crlf=rnd.random() < 0.2)
        field = rnd.choice(headers)
        params = {}
        if rnd.random() < 0.5:
            params["MissingVal"] = rnd.choice([-9999, -9999.0, 0, 1.5, 7])
        if rnd.random() < 0.4:
            params["DataType"] = rnd.choice(["Float", "Integer"])
        if params.get("DataType") == "Integer":
            # an integer element type is requested for columns whose values fit one
            rows = [[str(rnd.choice(INTS[:6])) if rnd.random() < 0.7 else repr(rnd.choice([2.5, -1.5, 100.0, 4.35])) for _ in headers] for _ in range(nrows)]
            text = csv_text(headers, rows, blanks, crlf=rnd.random() < 0.2)
        out.append({"kind": "csv_read", "text": text, "field": field, "params": params, "headers": headers})
    # faults with a known location
    out.append({"kind": "csv_read", "text": "", "field": "A", "params": {}, "headers": []})
    out.append({"kind": "csv_read", "text": "A,B\n1,2\n", "field": "Z", "params": {}, "headers": ["A", "B"]})
    out.append({"kind": "csv_read", "text": "A,B\n1,2\n3,x\n5,6\n", "field": "B", "params": {}, "headers": ["A", "B"]})
    out.append({"kind": "csv_read", "text": "A,B\n1,2\n\n3,\n5,6\n", "field": "B", "params": {}, "headers": ["A", "B"]})
    out.append({"kind": "csv_read", "text": "A,B\n1,2\n3,NULL\n", "field": "A", "params": {}, "headers": ["A", "B"]})  # other columns never matter
    out.append({"kind": "csv_read", "text": "A,B\n1,2\n3\n", "field": "A", "params": {}, "headers": ["A", "B"]})  # ragged row, wanted column present
    # round trips
    n_rt = 20 if tier == "quick" else 150
    for t in range(n_rt):
        ncols = rnd.choice([1, 2, 3])
        nrows = rnd.choice([1, 2, 4])
        names = rnd.sample(["R1", "Second", "a,b", 'q"uote', "Name with space", "x"], ncols)
        cols = []
        all_float = rnd.random() < 0.6
        for nme in names:
            if all_float or rnd.random() < 0.5:
                cols.append({"name": nme, "dtype": "float", "data": [hx(rnd.choice(DOUBLES)) for _ in range(nrows)], "mask": [False] * nrows})
            else:
                cols.append({"name": nme, "dtype": "int", "data": [rnd.choice(INTS[:7]) for _ in range(nrows)], "mask": [False] * nrows})
        out.append({"kind": "csv_roundtrip", "columns": cols, "read": {}, "typed_read": True})
    # a table without rows: just the header line is written, and reading it back gives empty columns
    out.append({"kind": "csv_roundtrip", "columns": [{"name": "A", "dtype": "float", "data": [], "mask": []}, {"name": "B", "dtype": "float", "data": [], "mask": []}],
                "read": {}, "typed_read": True})
    out.append({"kind": "csv_roundtrip", "columns": [{"name": "Only", "dtype": "int", "data": [], "mask": []}], "read": {}, "typed_read": True})
    # a result listed more than once is written once per listing
    dup = {"name": "A", "dtype": "float", "data": [hx(1.5), hx(-2.0)], "mask": [False, False]}
    other = {"name": "B", "dtype": "float", "data": [hx(0.25), hx(4.0)], "mask": [False, False]}
    out.append({"kind": "csv_roundtrip", "columns": [dup, other, dup], "read": {}, "typed_read": True})
    out.append({"kind": "csv_roundtrip", "columns": [dup, dup], "read": {}, "typed_read": True})
    # through the loader (the parameter cleaners see the names): headers that differ only by surrounding blanks are different columns
    padded = "a, b,b ,b\n1,2,3,4\n5,6,7,8\n"
    for fld in (" b", "b ", "b", "a"):
        out.append({"kind": "csv_read", "text": padded, "field": fld, "params": {}, "headers": ["a", " b", "b ", "b"], "via_program": True})
    # every ordering of element types, with values that do not survive a cast to the other type
    fcol = lambda n: {"name": n, "dtype": "float", "data": [hx(x) for x in (0.1, 1.7976931348623157e+308, -2.5, 5e-324)], "mask": [False] * 4}
    icol = lambda n: {"name": n, "dtype": "int", "data": [3, -9999, 0, 123456], "mask": [False] * 4}
    for order in (["i", "f"], ["f", "i"], ["i", "f", "i"], ["f", "f"], ["i", "i"]):
        cols = [(icol if t == "i" else fcol)("C%d" % k) for k, t in enumerate(order)]
        out.append({"kind": "csv_roundtrip", "columns": cols, "read": {}, "typed_read": True})
    return out


def _expected_csv_read(case):
    rows = list(csv.reader(io.StringIO(case["text"], newline="").readlines()))
    if not rows:
        return {"exc": "EmptyDataFile"}
    headers = rows[0]
    if case["field"] not in headers:
        return {"exc": "InvalidDataFile"}
    idx = headers.index(case["field"])
    vals = []
    for i, r in enumerate(rows[1:]):
        if not r:
            continue
        if idx >= len(r):
            return {"exc": "any"}  # ragged row shorter than the wanted column: unspecified by the statement
        try:
            vals.append(float(r[idx]))
        except ValueError:
            return {"exc": "InvalidDataFile", "line": i + 2}
    dt = case["params"].get("DataType", "Float")
    mv = case["params"].get("MissingVal")
    if dt == "Integer":
        vals = [int(v) for v in vals]
        miss = [(v == int(mv)) if mv is not None else False for v in vals]
    else:
        miss = [(v == float(mv)) if mv is not None else False for v in vals]
    return {"values": vals, "mask": miss, "dtype": "int" if dt == "Integer" else "float"}


def _same_number(got, want, dtype):
    if dtype == "float":
        g = float.fromhex(got) if isinstance(got, str) else float(got)
        return struct.pack("<d", g) == struct.pack("<d", float(want)) or (g == want == 0.0 and False)
    return int(got) == int(want)


def judge_csv(case, o):
    if "harness_error" in o:
        return [("harness-error", o["harness_error"][-300:])]
    bad = []
    if case["kind"] == "csv_read":
        exp = _expected_csv_read(case)
        if "exc" in exp:
            if exp["exc"] == "any":
                return []
            if o["outcome"] != "raise" or o["exc_class"] != exp["exc"]:
                bad.append(("csv", "expected %s, got %s" % (exp["exc"], o.get("exc_class", "a result"))))
            elif "line" in exp and ("line %d" % exp["line"]) not in o.get("msg", ""):
                bad.append(("csv", "the non-numeric cell is on file line %d; message: %s" % (exp["line"], o.get("msg", "")[:120])))
            return bad
        if o["outcome"] != "return":
            return [("csv", "a readable file was rejected: %s %s" % (o.get("exc_class"), o.get("msg", "")[:100]))]
        v = o["value"]
        if v.get("kind") != "MA":
            bad.append(("csv", "result is not a masked array"))
        if v.get("dtype") != exp["dtype"]:
            bad.append(("csv", "element type %s, requested %s" % (v.get("dtype"), exp["dtype"])))
        if len(v.get("data", [])) != len(exp["values"]):
            bad.append(("csv", "%d values read, the column has %d" % (len(v.get("data", [])), len(exp["values"]))))
            return bad
        for i, (g, w, mg, mw) in enumerate(zip(v["data"], exp["values"], v["mask"], exp["mask"])):
            if bool(mg) != bool(mw):
                bad.append(("csv", "row %d: missing=%s, expected %s" % (i, mg, mw)))
                break
            if not mw and not _same_number(g, w, exp["dtype"]):
                bad.append(("csv", "row %d: read %r, file has %r" % (i, g, w)))
                break
        return bad
    # round trip
    if o["write"]["outcome"] != "return":
        return [("csv", "writing failed: %s %s" % (o["write"].get("exc_class"), o["write"].get("msg", "")[:100]))]
    if o["inputs_after"] != o["inputs_before"]:
        bad.append(("csv", "writing changed its inputs"))
    rows = list(csv.reader(io.StringIO(o["text"], newline="")))
    if not rows or rows[0] != [c["name"] for c in case["columns"]]:
        bad.append(("csv", "header %r, expected the result names in order %r" % (rows[0] if rows else None, [c["name"] for c in case["columns"]])))
    nrows = len(case["columns"][0]["data"])
    if len([r for r in rows[1:] if r]) != nrows:
        bad.append(("csv", "%d data rows written, the arrays have %d cells" % (len(rows) - 1, nrows)))
    for c, r in zip(case["columns"], o.get("reads", [])):
        if r["outcome"] != "return":
            bad.append(("csv", "column %s cannot be read back: %s %s" % (c["name"], r.get("exc_class"), r.get("msg", "")[:80])))
            continue
        got = r["value"]["data"]
        for i, (g, w) in enumerate(zip(got, c["data"])):
            want = float.fromhex(w) if isinstance(w, str) else w
            if c["dtype"] == "float":
                gg = float.fromhex(g) if isinstance(g, str) else float(g)
                if struct.pack("<d", gg) != struct.pack("<d", float(want)):
                    bad.append(("csv", "column %s row %d: wrote %r, read back %r" % (c["name"], i, want, gg)))
                    break
            else:
                if int(float.fromhex(g) if isinstance(g, str) else g) != int(want):
                    bad.append(("csv", "column %s row %d: wrote %r, read back %r" % (c["name"], i, want, g)))
                    break
    return bad


# =========================================================================== NetCDF
def nc_cases(tier, seed=0):
    rnd = random.Random(1818 + seed)
    out = []
    shapes = [[3], [2, 2], [2, 3], [1, 4], [2, 1, 2]] if tier == "quick" else [[3], [1], [2, 2], [2, 3], [1, 4], [3, 1], [2, 1, 2], [2, 2, 2]]
    n = 30 if tier == "quick" else 250
    for t in range(n):
        shape = rnd.choice(shapes)
        N = 1
        for d in shape:
            N *= d
        ncols = rnd.choice([1, 2, 3])
        cols = []
        for ci in range(ncols):
            dt = rnd.choice(["float", "float", "int"])
            vals = [hx(rnd.choice([0.0, 1.0, -1.5, 0.25, 123.5, 1e-05, -0.75, 0.5])) for _ in range(N)] if dt == "float" else [rnd.choice([0, 1, -1, 7, 42]) for _ in range(N)]
            style = rnd.choice(["none", "one", "random", "nomask"])
            mask = [False] * N
            if style == "one":
                mask[(ci * 2 + 1) % N] = True
            elif style == "random":
                mask = [rnd.random() < 0.3 for _ in range(N)]
                if all(mask):
                    mask[0] = False
            col = {"name": "V%d" % ci, "dtype": dt, "data": vals, "mask": mask}
            if style == "nomask":
                col["nomask"] = True
            cols.append(col)
        rp = {}
        r = rnd.random()
        if r < 0.25:
            rp["DataType"] = rnd.choice(["Float", "Integer", "Positive Float", "Positive Integer", "Fuzzy"])
        if rnd.random() < 0.3:
            rp["MissingValue"] = rnd.choice([0, 1, 7, 0.25, -1.5])
        case = {"kind": "nc_roundtrip", "shape": shape, "columns": cols, "read_params": rp}
        if len(out) % 3 == 1:
            case["packed_dims"] = True  # template coordinates stored as scaled 16-bit integers
        out.append(case)
    # results written together keep their own missing-value sentinel: a valid cell equal to another result's sentinel stays valid
    icol = {"name": "count", "dtype": "int", "data": [3, 7, 0, 12], "mask": [False, True, False, False]}
    fcol = {"name": "area", "dtype": "float", "data": [hx(999999.0), hx(2.5), hx(-1.0), hx(1e20 / 2)], "mask": [False, False, False, True]}
    for order in ([icol, fcol], [fcol, icol]):
        out.append({"kind": "nc_roundtrip", "shape": [4], "columns": order, "read_params": {}})
    # reader parameter combinations on a fixed file
    base = {"kind": "nc_read", "shape": [4], "dtype": "float"}
    for data in ([0.5, -0.25, 1.0, 0.0], [0.5, 2.0, 1.0, 0.0], [3.0, 7.0, 1.0, 0.0], [-3.0, 7.0, 1.0, 0.0], [1.01, -1.015, 0.3, 0.0], [2.6, 3.4, -0.5, 0.0]):
        for dtp in (None, "Float", "Integer", "Positive Float", "Positive Integer", "Fuzzy"):
            for mv in (None, 1.0, 0):
                for mask in ([False] * 4, [False, True, False, False]):
                    params = {}
                    if dtp:
                        params["DataType"] = dtp
                    if mv is not None:
                        params["MissingValue"] = mv
                    out.append(dict(base, data=[hx(x) for x in data], mask=mask, params=params))
    out.append(dict(base, data=[hx(1.0)] * 4, mask=[False] * 4, params={}, field="Nope"))
    # other spellings of the type names: either rejected as not a data type, or accepted with exactly the checks of the canonical name
    for spelled, canon in (("positive float", "Positive Float"), ("POSITIVE INTEGER", "Positive Integer"), ("fuzzy", "Fuzzy"), (" Fuzzy", "Fuzzy"), ("float", "Float")):
        for data in ([-3.0, 7.25, 1.0, 0.0], [1.5, -1.2, 0.3, 0.0]):
            out.append(dict(base, data=[hx(x) for x in data], mask=[False] * 4, params={"DataType": canon}, spelled=spelled, via_program=True))
    # valid values next to the missing-value sentinel stay valid (exact comparison)
    near = []
    for mv, data in ((100000, [100000.5, 99999.75, 100000.0, 1e-09]), (0, [1e-09, -2.5e-310, 0.0, 5e-324]), (1.0, [1.000001, 0.9999999, 1.0, 2.0]),
                     (-9999, [-9999.05, -9998.95, -9999.0, 3.0])):
        for dtp in (None, "Float"):
            params = {"MissingValue": mv}
            if dtp:
                params["DataType"] = dtp
            near.append(dict(base, data=[hx(x) for x in data], mask=[False] * 4, params=params))
    out = near + out
    if tier == "quick":
        rest = out[n + len(near):]
        fixed = lambda c: c.get("spelled") or c["kind"] == "nc_roundtrip"
        keep = out[: n + len(near)] + [c for c in rest if fixed(c)] + rnd.sample([c for c in rest if not fixed(c)], 60)
        return keep
    return out


def _nc_expected_read(vals, mask, params, dtype_written):
    """documented behaviour of the reader: float by default, missing value, positive and fuzzy checks, nearest int"""
    dtp = params.get("DataType")
    valid = [v for v, m in zip(vals, mask) if not m]
    if dtp in ("Positive Float", "Positive Integer") and valid and min(valid) < 0:
        return {"exc": "InvalidPositiveData"}
    if dtp == "Fuzzy" and valid and (max(valid) > 1.02 or min(valid) < -1.02):
        return {"exc": "InvalidFuzzyData"}
    out_dt = "int" if dtp in ("Integer", "Positive Integer") else "float"
    ev = []
    for v in vals:
        if out_dt == "int":
            import math
            r = round(v)  # nearest, ties to even (numpy.rint)
            ev.append(int(r))
        elif dtp == "Fuzzy":
            ev.append(max(-1.0, min(1.0, v)))
        else:
            ev.append(float(v))
    mv = params.get("MissingValue")
    em = list(mask)
    if mv is not None:
        em = [m or (e == (int(mv) if out_dt == "int" else float(mv))) for m, e in zip(mask, ev)]
    return {"values": ev, "mask": em, "dtype": out_dt}


def _num(x):
    return float.fromhex(x) if isinstance(x, str) else x


def judge_nc(case, o):
    if "harness_error" in o:
        return [("harness-error", o["harness_error"][-300:])]
    bad = []
    if case["kind"] == "nc_read":
        if case.get("field") == "Nope":
            if o["outcome"] != "raise" or o["exc_class"] != "NoSuchVariable":
                bad.append(("netcdf", "missing variable: expected NoSuchVariable, got %s" % o.get("exc_class", "a result")))
            return bad
        vals = [_num(x) for x in case["data"]]
        exp = _nc_expected_read(vals, case["mask"], case["params"], case["dtype"])
        if case.get("spelled") and o.get("outcome") == "raise" and o.get("exc_class") == "ParameterNotValid":
            return bad  # the spelling is not accepted as a data type: fine
        return bad + _cmp_read(exp, o, "read %s%s" % (json.dumps(case["params"]), " spelled %r" % case["spelled"] if case.get("spelled") else ""))
    if o["write"]["outcome"] != "return":
        return [("netcdf", "writing failed: %s %s" % (o["write"].get("exc_class"), o["write"].get("msg", "")[:120]))]
    if o["inputs_after"] != o["inputs_before"]:
        bad.append(("netcdf", "writing changed its inputs"))
    shape = case["shape"]
    for i, n in enumerate(shape):
        d = o.get("dims", {}).get("d%d" % i)
        want = [float.fromhex(x) for x in o.get("template_dims", {}).get("d%d" % i, [])] or [k * 1.5 + 0.25 for k in range(n)]
        if not d or d["size"] != n or [float.fromhex(x) for x in d["values"]] != want or d.get("units") != "m_d%d" % i:
            bad.append(("netcdf", "dimension variable d%d was not copied unchanged: %s" % (i, d)))
    if o.get("variables") != [c["name"] for c in case["columns"]]:
        bad.append(("netcdf", "variables written %r, results in order %r" % (o.get("variables"), [c["name"] for c in case["columns"]])))
    N = len(case["columns"][0]["data"])
    union = [any(c["mask"][i] for c in case["columns"]) for i in range(N)]
    for c, r in zip(case["columns"], o.get("reads", [])):
        vals = [_num(x) for x in c["data"]]
        exp = _nc_expected_read(vals, union, case.get("read_params", {}), c["dtype"])
        if "exc" not in exp and c["dtype"] == "int" and "DataType" not in case.get("read_params", {}):
            exp["dtype"] = "float"  # float by default
        bad += _cmp_read(exp, r, "column %s %s" % (c["name"], json.dumps(case.get("read_params", {}))), shape)
    return bad


def _cmp_read(exp, r, label, shape=None):
    bad = []
    if "exc" in exp:
        if r["outcome"] != "raise" or r["exc_class"] != exp["exc"]:
            bad.append(("netcdf", "%s: expected %s, got %s %s" % (label, exp["exc"], r.get("exc_class", "a result"), r.get("msg", "")[:80])))
        return bad
    if r["outcome"] != "return":
        return [("netcdf", "%s: reading failed with %s: %s" % (label, r.get("exc_class"), r.get("msg", "")[:100]))]
    v = r["value"]
    if v.get("kind") != "MA":
        bad.append(("netcdf", "%s: result is not a masked array" % label))
    if shape is not None and list(v.get("shape", [])) != list(shape):
        bad.append(("netcdf", "%s: shape %s, written %s" % (label, v.get("shape"), shape)))
        return bad
    if v.get("dtype") != exp["dtype"]:
        bad.append(("netcdf", "%s: element kind %s, expected %s" % (label, v.get("dtype"), exp["dtype"])))
    for i, (g, w, mg, mw) in enumerate(zip(v["data"], exp["values"], v["mask"], exp["mask"])):
        if bool(mg) != bool(mw):
            bad.append(("netcdf", "%s: cell %d missing=%s, expected %s" % (label, i, mg, mw)))
            break
        if not mw and abs(_num(g) - w) > 1e-12 * max(1.0, abs(w)):
            bad.append(("netcdf", "%s: cell %d read %r, expected %r" % (label, i, _num(g), w)))
            break
    return bad


# --------------------------------------------------------------------------- C09: a result read from a file survives later reads of the same file
def reread_cases():
    """the same column / variable read again with other options (missing value, element type, fuzzy clamp) after a first read whose
    result is kept: kind, element type, shape, missing cells and values of the first result are compared after every later read"""
    out = []
    data = [1.4, 5.0, 2.6, -0.5]
    opts_nc = [{}, {"MissingValue": 5}, {"DataType": "Integer"}, {"DataType": "Integer", "MissingValue": 1}, {"DataType": "Float", "MissingValue": 2.6}, {"DataType": "Positive Float"}]
    for first in opts_nc[:4]:
        out.append({"kind": "nc_reread", "shape": [4], "dtype": "float", "data": [hx(x) for x in data], "mask": [False] * 4, "first": first, "then": opts_nc})
    out.append({"kind": "nc_reread", "shape": [2, 2], "dtype": "float", "data": [hx(x) for x in (0.5, 1.015, -1.01, 0.0)], "mask": [False, False, False, True], "first": {},
                "then": [{"DataType": "Fuzzy"}, {"MissingValue": 0.5}, {}]})
    text = "a,b\n1.4,1\n5.0,2\n2.6,3\n-0.5,4\n"
    opts_csv = [{}, {"MissingVal": 5}, {"DataType": "Float", "MissingVal": 2.6}, {"MissingVal": 1.4}]
    for first in opts_csv[:2]:
        out.append({"kind": "csv_reread", "text": text, "field": "a", "first": first, "then": opts_csv})
    return out


def judge_reread(case, o):
    if "harness_error" in o:
        return [("harness-error", o["harness_error"][-300:])]
    f = o["first"]
    for step in o["after"]:
        n = step["first_now"]
        same = all(f.get(k) == n.get(k) for k in ("kind", "dtype", "np_dtype", "shape", "mask")) and all(m or a == b for a, b, m in zip(f["data"], n["data"], f["mask"]))
        if not same:
            return [("frame", "the result of the first read (%s) changed when the same data was read again with %s: %s -> %s" % (case["first"], step["params"],
                     {k: f[k] for k in ("np_dtype", "mask", "data")}, {k: n[k] for k in ("np_dtype", "mask", "data")}))]
    return []
