"""Attribute / item / builtin models (assumed contracts of Python builtins) for the executor."""
import ast
import re

import z3

from . import smt
from .values import (
    Unsupported, Sym, Ref, TupleV, FuncV, LambdaV, BuiltinV, ClassV, ModuleV, SuperV, Raised, ExcSym,
    PyList, SeqV, PyDict, Bag, Obj, ArrState, DataView, MaskView, Idx, StackState, Slice, is_concrete, num_term, isint_of,
    is_num, zand, zor, znot,
)


def install(eng):
    pass


def subst_value(v, kvar, k):
    """Substitute the generic index kvar by k in a value template."""
    if isinstance(v, Sym):
        t = z3.substitute(v.t, (kvar, k))
        ii = v.isint
        if ii is not None and not isinstance(ii, bool):
            ii = z3.substitute(ii, (kvar, k))
        return Sym(v.kind, t, ii)
    if isinstance(v, TupleV):
        return TupleV([subst_value(x, kvar, k) for x in v.items])
    if isinstance(v, Ref):
        if isinstance(v.oid, tuple) and v.oid[0] in ("fam", "cmdelem"):
            return Ref((v.oid[0], v.oid[1], z3.simplify(z3.substitute(v.oid[2], (kvar, k)))) + tuple(v.oid[3:]))
        return v
    if isinstance(v, DataView):
        return DataView(subst_value(v.base, kvar, k))
    if isinstance(v, MaskView):
        return MaskView(subst_value(v.base, kvar, k))
    return v


def _probe_consts(t, start, acc):
    """uninterpreted constants of term t that smt.fresh created after counter value `start`"""
    seen = set()

    def rec(x):
        if x.get_id() in seen:
            return
        seen.add(x.get_id())
        if z3.is_const(x) and x.decl().kind() == z3.Z3_OP_UNINTERPRETED:
            nm = x.decl().name()
            if "!" in nm:
                try:
                    if int(nm.rsplit("!", 1)[1]) > start:
                        acc[nm] = x
                except ValueError:
                    pass
            return
        if z3.is_app(x):
            for c in x.children():
                rec(c)
        elif z3.is_quantifier(x):
            rec(x.body())

    rec(t)


def generalise_template(v, kvar, start):
    """A value template obtained by probing one generic element may mention constants created during the probe (an unspecified
    string, a fresh result...). They stand for a value *per element*: replace each by a fresh function of the index."""
    acc = {}

    def terms(x):
        if isinstance(x, Sym):
            if x.t is not None and hasattr(x.t, "get_id"):
                _probe_consts(x.t, start, acc)
            if x.isint is not None and not isinstance(x.isint, bool):
                _probe_consts(x.isint, start, acc)
        elif isinstance(x, TupleV):
            for y in x.items:
                terms(y)
        elif isinstance(x, (DataView, MaskView)):
            terms(x.base)

    terms(v)
    acc.pop(kvar.decl().name(), None)
    if not acc:
        return v
    pairs = [(c, smt.fresh_fun(nm.split("!")[0] + "_at", z3.IntSort(), c.sort())(kvar)) for nm, c in acc.items()]

    def sub(x):
        if isinstance(x, Sym):
            ii = x.isint
            if ii is not None and not isinstance(ii, bool):
                ii = z3.substitute(ii, *pairs)
            return Sym(x.kind, z3.substitute(x.t, *pairs) if x.t is not None and hasattr(x.t, "get_id") else x.t, ii)
        if isinstance(x, TupleV):
            return TupleV([sub(y) for y in x.items])
        if isinstance(x, DataView):
            return DataView(sub(x.base))
        if isinstance(x, MaskView):
            return MaskView(sub(x.base))
        return x

    return sub(v)


class ModelMixin(object):
    # ------------------------------------------------------------------ dispatch
    def call_builtin(self, name, st, args, kwargs, node=None):
        m = self.builtin_models.get(name)
        if m is None:
            meth = getattr(self, "bi_" + re.sub(r"[^A-Za-z0-9_]", "_", name), None)
            if meth is None:
                raise Unsupported("no model for builtin %s" % name)
            m = meth
        self.assumed_used.add(("builtin", name))
        kwargs = dict(kwargs)
        if node is not None:
            kwargs["__node__"] = node
        try:
            for r in m(st, args, kwargs):
                yield r
        except TypeError as e:
            if "unexpected keyword argument '__node__'" in str(e):
                raise
            raise

    # ------------------------------------------------------------------ sequences
    def list_seq(self, pl):
        if pl.seq is not None:
            return pl.seq
        items = pl.items
        n = len(items)

        def get(k, items=items):
            if not items:
                return Sym("dyn", smt.fresh("no_such_item", smt.Val))
            if isinstance(k, int):
                return items[k]
            k = z3.simplify(k)
            if z3.is_int_value(k):
                return items[k.as_long()]
            out = items[-1]
            for i in range(n - 2, -1, -1):
                out = self.ite_value(k == i, items[i], out)
            return out

        return SeqV(z3.IntVal(n), get)

    def as_sequence(self, st, v):
        if isinstance(v, TupleV):
            yield st, list(v.items)
        elif isinstance(v, SeqV):
            yield st, v
        elif isinstance(v, list):
            yield st, v
        elif isinstance(v, Ref):
            o = st.get(v)
            if isinstance(o, PyList):
                yield st, (list(o.items) if o.items is not None else o.seq)
            elif isinstance(o, PyDict):
                if o.present:
                    raise Unsupported("iteration over dict with symbolic keys")
                yield st, list(o.entries.keys())
            elif isinstance(o, Bag):
                n = smt.fresh("bag_len", z3.IntSort())
                st.assume(n >= 0)
                yield st, SeqV(n, lambda k: Sym("dyn", smt.fresh("bag_item", smt.Val)), tag="bag")
            elif isinstance(o, Obj) and o.cls.name == "SymValues" and hasattr(self, "symvalues_seq"):
                yield st, self.symvalues_seq(st, o)
            else:
                raise Unsupported("iteration over %r" % o)
        elif isinstance(v, Sym) and v.kind == "dyn":
            for r in self.dyn_as_sequence(st, v):
                yield r
        else:
            raise Unsupported("iteration over %r" % (v,))

    def dyn_as_sequence(self, st, v):
        raise Unsupported("iteration over dynamic value")

    def concrete_int(self, v):
        if isinstance(v, bool):
            return int(v)
        if isinstance(v, int):
            return v
        if isinstance(v, Sym) and v.kind == "num":
            t = z3.simplify(v.t)
            if z3.is_rational_value(t) and t.denominator_as_long() == 1:
                return t.numerator_as_long()
        return None

    def int_term(self, v):
        """value -> z3 Int term (value must be an integer-valued number)."""
        c = self.concrete_int(v)
        if c is not None:
            return z3.IntVal(c)
        if isinstance(v, Sym) and v.kind == "num":
            return z3.ToInt(v.t)
        raise Unsupported("not an int: %r" % (v,))

    def norm_index(self, idx, n):
        """Python index semantics: negative concrete indices count from the end."""
        c = self.concrete_int(idx)
        if c is not None:
            return (n + c) if c < 0 else z3.IntVal(c)
        t = self.int_term(idx)
        return z3.If(t < 0, n + t, t)

    # ------------------------------------------------------------------ items
    def get_item(self, st, o, idx):
        if isinstance(o, TupleV):
            c = self.concrete_int(idx)
            if isinstance(idx, Slice):
                lo = self.concrete_int(idx.lo) if idx.lo is not None else None
                hi = self.concrete_int(idx.hi) if idx.hi is not None else None
                yield st, TupleV(o.items[lo:hi])
                return
            if c is None:
                raise Unsupported("symbolic index into tuple")
            if c >= len(o.items) or c < -len(o.items):
                yield self.raise_(st, "IndexError", "tuple index out of range")
                return
            yield st, o.items[c]
            return
        if isinstance(o, Ref):
            c = st.get(o)
            if isinstance(c, PyList):
                for r in self.list_get(st, o, c, idx):
                    yield r
                return
            if isinstance(c, PyDict):
                for r in self.dict_get(st, c, idx, None, strict=True):
                    yield r
                return
            if isinstance(c, Bag):
                yield st, st.alloc(Bag("item"))
                return
            if isinstance(c, (ArrState, StackState)):
                for r in self.call_builtin("arr.getitem", st, [o, idx], {}):
                    yield r
                return
            if isinstance(c, Obj) and c.cls.name == "SymMap":
                for r in self.symmap_getitem(st, c, idx):
                    yield r
                return
        if isinstance(o, (DataView, MaskView)):
            for r in self.call_builtin("arr.getitem", st, [o, idx], {}):
                yield r
            return
        if isinstance(o, SeqV):
            for r in self.seq_get(st, o, idx):
                yield r
            return
        if isinstance(o, Sym) and o.kind == "dyn":
            for r in self.dyn_getitem(st, o, idx):
                yield r
            return
        raise Unsupported("subscript of %r" % (o,))

    def dyn_getitem(self, st, o, idx):
        raise Unsupported("subscript of dynamic value")

    def seq_get(self, st, seq, idx):
        if isinstance(idx, Slice):
            yield st, st.alloc(PyList(seq=self.seq_slice(seq, idx)))
            return
        k = self.norm_index(idx, seq.n)
        st.note_k(k)
        for s2, ok in self.branch(st, z3.And(k >= 0, k < seq.n)):
            if ok:
                yield s2, seq.get(z3.simplify(k))
            else:
                yield self.raise_(s2, "IndexError", "list index out of range")

    def seq_slice(self, seq, sl):
        if sl.step is not None:
            raise Unsupported("slice step")
        n = seq.n
        lo = z3.IntVal(0) if sl.lo is None else self._clip(self.norm_index(sl.lo, n), n)
        hi = n if sl.hi is None else self._clip(self.norm_index(sl.hi, n), n)
        ln = z3.simplify(z3.If(hi - lo > 0, hi - lo, 0))
        lo = z3.simplify(lo)
        return SeqV(ln, lambda k, lo=lo, seq=seq: seq.get(z3.simplify(lo + k)), meta=dict(seq.meta))

    def _clip(self, t, n):
        return z3.If(t < 0, 0, z3.If(t > n, n, t))

    def list_get(self, st, ref, c, idx):
        if c.items is not None:
            if isinstance(idx, Slice):
                lo = None if idx.lo is None else self.concrete_int(idx.lo)
                hi = None if idx.hi is None else self.concrete_int(idx.hi)
                if (idx.lo is not None and lo is None) or (idx.hi is not None and hi is None) or idx.step is not None:
                    for r in self.seq_get(st, self.list_seq(c), idx):
                        yield r
                    return
                yield st, st.alloc(PyList(items=c.items[lo:hi]))
                return
            k = self.concrete_int(idx)
            if k is not None:
                if k >= len(c.items) or k < -len(c.items):
                    yield self.raise_(st, "IndexError", "list index out of range")
                else:
                    yield st, c.items[k]
                return
        for r in self.seq_get(st, self.list_seq(c), idx):
            yield r

    def dict_get(self, st, d, key, default, strict=False):
        if isinstance(key, str):
            if key in d.entries:
                p = d.present.get(key, True)
                for s2, taken in self.branch(st, p):
                    if taken:
                        yield s2, d.entries[key]
                    elif strict:
                        yield self.raise_(s2, "KeyError", key)
                    else:
                        yield s2, default
                return
            total = getattr(d, "total", None)
            if total is not None:
                yield st, total(key)
                return
            if strict:
                yield self.raise_(st, "KeyError", key)
            else:
                yield st, default
            return
        total = getattr(d, "total", None)
        if total is not None and not d.entries:
            yield st, total(key)
            return
        if not d.present and total is None and all(isinstance(k, str) for k in d.entries) and \
                ((isinstance(key, Sym) and key.kind in ("str", "dyn"))):
            # a constant table looked up with a run-time key
            kt = self.to_dyn(st, key)
            from .dyn import hashable
            for s1, h in self.branch(st, hashable(kt)):
                if not h:
                    yield self.raise_(s1, "TypeError", "unhashable type")
                    continue
                hit = z3.Or(*[kt == smt.Val.S(z3.StringVal(k)) for k in d.entries]) if d.entries else z3.BoolVal(False)
                for s2, found in self.branch(s1, hit):
                    if found:
                        out = None
                        for k, v in reversed(list(d.entries.items())):
                            tv = self.to_dyn(s2, v)
                            out = tv if out is None else z3.If(kt == smt.Val.S(z3.StringVal(k)), tv, out)
                        yield s2, Sym("dyn", out)
                    elif strict:
                        yield self.raise_(s2, "KeyError", "missing key")
                    else:
                        yield s2, default
            return
        raise Unsupported("dict lookup with symbolic key")

    def set_item(self, st, o, idx, v):
        if isinstance(o, Ref):
            c = st.get(o)
            if isinstance(c, Bag):
                yield st, None
                return
            if isinstance(c, PyDict):
                if not isinstance(idx, str):
                    if not c.present and getattr(c, "total", None) is None and st.is_fresh(o):
                        st.set(o, Bag("dict"))  # a local dict keyed by run-time values: content no longer tracked
                        yield st, None
                        return
                    raise Unsupported("dict store with symbolic key")
                d = PyDict(c.entries, c.present)
                d.total = getattr(c, "total", None)
                d.entries[idx] = v
                d.present.pop(idx, None)
                st.set(o, d)
                yield st, None
                return
            if isinstance(c, PyList) and c.items is not None:
                k = self.concrete_int(idx)
                if k is not None and -len(c.items) <= k < len(c.items):
                    items = list(c.items)
                    items[k] = v
                    st.set(o, PyList(items=items))
                    yield st, None
                    return
            if isinstance(c, (ArrState, StackState)):
                for r in self.call_builtin("arr.setitem", st, [o, idx, v], {}):
                    yield r
                return
        if isinstance(o, DataView):
            for r in self.call_builtin("arr.setitem", st, [o, idx, v], {}):
                yield r
            return
        raise Unsupported("item assignment on %r" % (o,))

    def del_item(self, st, o, idx):
        if isinstance(o, Ref):
            c = st.get(o)
            if isinstance(c, PyDict):
                if not isinstance(idx, str):
                    raise Unsupported("dict delete with symbolic key")
                if idx not in c.entries:
                    yield self.raise_(st, "KeyError", idx)
                    return
                p = c.present.get(idx, True)
                for s2, taken in self.branch(st, p):
                    if taken:
                        d = PyDict(c.entries, c.present)
                        d.total = getattr(c, "total", None)
                        d.entries.pop(idx)
                        d.present.pop(idx, None)
                        s2.set(o, d)
                        yield s2, None
                    else:
                        yield self.raise_(s2, "KeyError", idx)
                return
            if isinstance(c, PyList):
                k = self.concrete_int(idx)
                if k is None:
                    raise Unsupported("del with symbolic index")
                if c.items is not None:
                    if not (-len(c.items) <= k < len(c.items)):
                        yield self.raise_(st, "IndexError", "list assignment index out of range")
                        return
                    items = list(c.items)
                    del items[k]
                    st.set(o, PyList(items=items))
                    yield st, None
                    return
                seq = c.seq
                n = seq.n
                pos = z3.simplify(n + k) if k < 0 else z3.IntVal(k)
                for s2, ok in self.branch(st, z3.And(pos >= 0, pos < n)):
                    if ok:
                        new = SeqV(z3.simplify(n - 1), lambda j, seq=seq, pos=pos: self.ite_value(
                            j < pos, seq.get(j), seq.get(z3.simplify(j + 1))))
                        s2.set(o, PyList(seq=new))
                        yield s2, None
                    else:
                        yield self.raise_(s2, "IndexError", "list assignment index out of range")
                return
        raise Unsupported("del item on %r" % (o,))

    # ------------------------------------------------------------------ attributes
    def get_attr(self, st, o, name):
        if isinstance(o, ExcSym):
            if name in o.fields:
                yield st, o.fields[name]
                return
            raise Unsupported("attribute %s of a symbolic %s" % (name, o.base))
        if isinstance(o, ModuleV):
            if o.name in self.repo.by_dotted:
                yield st, self.module_attr(self.repo.by_dotted[o.name], name, st)
            else:
                yield st, self.external_attr(o.name, name)
            return
        if isinstance(o, ClassV):
            if name == "__name__":
                yield st, o.name
                return
            if o.info is not None:
                fi = self.repo.find_method(o.info, name)
                if fi is not None:
                    decs = fi.decorators()
                    if "classmethod" in decs:
                        yield st, FuncV(fi, self_val=o, cls=fi.cls)
                    else:
                        yield st, FuncV(fi, cls=fi.cls)
                    return
                ci, expr = self.repo.find_class_attr(o.info, name)
                if expr is not None:
                    yield st, self.const_eval(expr, ci.module, st)
                    return
                for r in self.class_attr_hook(st, o, name):
                    yield r
                return
            yield st, BuiltinV("%s.%s" % (o.name, name))
            return
        if isinstance(o, SuperV):
            fi = self.repo.find_method(o.self_cls_info, name, after=o.cls.info)
            if fi is None:
                # builtin base (object / Exception)
                yield st, BuiltinV("super." + name, self_val=o.self_val)
            else:
                yield st, FuncV(fi, self_val=o.self_val, cls=fi.cls)
            return
        if isinstance(o, Ref):
            c = st.get(o)
            if isinstance(c, Obj):
                for r in self.obj_attr(st, o, c, name):
                    yield r
                return
            if isinstance(c, PyList):
                yield st, BuiltinV("list." + name, self_val=o)
                return
            if isinstance(c, PyDict):
                yield st, BuiltinV("dict." + name, self_val=o)
                return
            if isinstance(c, Bag):
                yield st, BuiltinV("bag.method", self_val=o)
                return
            if isinstance(c, (ArrState, StackState)):
                for r in self.call_builtin("arr.attr", st, [o, name], {}):
                    yield r
                return
        if isinstance(o, (DataView, MaskView)):
            for r in self.call_builtin("arr.attr", st, [o, name], {}):
                yield r
            return
        if isinstance(o, (str,)) or (isinstance(o, Sym) and o.kind == "str"):
            yield st, BuiltinV("str." + name, self_val=o)
            return
        if isinstance(o, Sym) and o.kind == "dyn":
            for r in self.dyn_attr(st, o, name):
                yield r
            return
        if isinstance(o, Sym) and o.kind == "dt":
            if name == "char":
                yield st, Sym("str", z3.If(o.t == smt.INT, z3.StringVal("l"), z3.StringVal("d")))
                return
        if isinstance(o, TupleV) and hasattr(o, "fields"):
            pass
        if o is None:
            yield self.raise_(st, "AttributeError", "'NoneType' object has no attribute '%s'" % name)
            return
        if is_num(o) and name == "is_integer":
            yield st, BuiltinV("num.is_integer", self_val=o)
            return
        if is_num(o):
            raise Unsupported("attribute %s of a number is not modelled" % name)
        if isinstance(o, BuiltinV) and getattr(o, "self_val", None) is None and o.name in ("sys.stderr", "sys.stdout", "os.path"):
            yield st, BuiltinV("%s.%s" % (o.name, name))
            return
        raise Unsupported("attribute %s of %r" % (name, o))

    def bi_num_is_integer(self, st, args, kw):
        v = args[0]
        if isinstance(v, (bool, int)):
            yield st, True
        elif isinstance(v, float):
            yield st, v.is_integer()
        else:
            yield st, Sym("bool", z3.IsInt(num_term(v)))

    def class_attr_hook(self, st, o, name):
        raise Unsupported("class %s has no attribute %s" % (o.name, name))

    def dyn_attr(self, st, o, name):
        raise Unsupported("attribute %s of dynamic value" % name)

    def obj_attr(self, st, ref, c, name):
        if name in c.fields:
            yield st, c.fields[name]
            return
        if name == "__class__":
            yield st, c.cls
            return
        if c.cls.info is not None:
            fi = self.repo.find_method(c.cls.info, name)
            if fi is not None:
                decs = fi.decorators()
                if "property" in decs:
                    for r in self.call_func(st, FuncV(fi, self_val=ref, cls=fi.cls), [], {}):
                        yield r
                elif "staticmethod" in decs:
                    yield st, FuncV(fi, cls=fi.cls)
                elif "classmethod" in decs:
                    yield st, FuncV(fi, self_val=c.cls, cls=fi.cls)
                else:
                    yield st, FuncV(fi, self_val=ref, cls=fi.cls)
                return
            ci, expr = self.repo.find_class_attr(c.cls.info, name)
            if expr is not None:
                yield st, self.const_eval(expr, ci.module, st)
                return
        hook = getattr(c, "attr_hook", None)
        if hook is not None:
            for r in hook(self, st, ref, name):
                yield r
            return
        if self.class_is_subclass(c.cls, "BaseException") and name == "args":
            yield st, TupleV([])
            return
        if c.cls.info is not None and not st.is_fresh(ref) and not getattr(c, "closed", False):
            # a pre-existing object of a repository class: its attribute set is not fully modelled
            raise Unsupported("attribute %s of a %s object is not modelled" % (name, c.cls.name))
        yield self.raise_(st, "AttributeError", "'%s' object has no attribute '%s'" % (c.cls.name, name))

    def set_attr(self, st, o, name, v):
        if isinstance(o, Ref):
            c = st.get(o)
            if isinstance(c, Obj):
                hook = getattr(c, "setattr_hook", None)
                if hook is not None:
                    for r in hook(self, st, o, name, v):
                        yield r
                    return
                if not st.is_fresh(o):
                    st.log.append(("effect", "attribute store .%s on a pre-existing %s object" % (name, c.cls.name), name, v, c.cls.name))
                c2 = Obj(c.cls, c.fields)
                for a in ("attr_hook", "setattr_hook"):
                    if hasattr(c, a):
                        setattr(c2, a, getattr(c, a))
                c2.fields[name] = v
                st.set(o, c2)
                yield st, None
                return
            if isinstance(c, ArrState):
                for r in self.call_builtin("arr.setattr", st, [o, name, v], {}):
                    yield r
                return
        if isinstance(o, Sym) and o.kind == "dyn":
            for r in self.dyn_setattr(st, o, name, v):
                yield r
            return
        raise Unsupported("attribute store %s on %r" % (name, o))

    def dyn_setattr(self, st, o, name, v):
        raise Unsupported("attribute store on dynamic value")

    # ------------------------------------------------------------------ comprehensions
    def ex_ListComp(self, node, st):
        for st1, r in self._comp(node, node.elt, st):
            yield st1, r

    def ex_GeneratorExp(self, node, st):
        for st1, r in self._comp(node, node.elt, st):
            yield st1, r

    def ex_DictComp(self, node, st):
        tup = ast.Tuple(elts=[node.key, node.value], ctx=ast.Load())
        ast.copy_location(tup, node)
        for st1, r in self._comp(node, tup, st):
            if isinstance(r, Raised):
                yield st1, r
                continue
            o = st1.get(r)
            if o.items is None:
                # {k_expr: v_expr for ...} over a sequence of symbolic length: a symbolic dict described item-wise
                seq = o.seq
                did = smt.fresh("dictcomp", z3.IntSort())
                d = Obj(ClassV("SymDict"), {
                    "n": seq.n,
                    "key": lambda k, seq=seq, s=st1: self.to_dyn(s, seq.get(k).items[0]),
                    "val": lambda k, seq=seq, s=st1: self.to_dyn(s, seq.get(k).items[1]),
                    "term": smt.Val.D(did)})
                yield st1, st1.alloc(d)
                continue
            d = {}
            for it in o.items:
                k, v = it.items
                if not isinstance(k, str):
                    raise Unsupported("dict comprehension with symbolic key")
                d[k] = v
            yield st1, st1.alloc(PyDict(d))

    def _comp(self, node, elt, st):
        if len(node.generators) != 1 or node.generators[0].is_async:
            raise Unsupported("nested comprehension")
        g = node.generators[0]
        for st1, it in self.ev(g.iter, st):
            if isinstance(it, Raised):
                yield st1, it
                continue
            for st2, seq in self.as_sequence(st1, it):
                if isinstance(seq, Raised):
                    yield st2, seq
                    continue
                saved = dict(st2.env)
                if isinstance(seq, list):
                    for s, items in self._comp_items(g, elt, st2, seq, 0):
                        if isinstance(items, Raised):
                            s.env = dict(saved)
                            yield s, items
                        else:
                            s.env = dict(saved)
                            yield s, s.alloc(PyList(items=items))
                else:
                    for r in self._comp_symbolic(node, g, elt, st2, seq, saved):
                        yield r

    def _comp_items(self, g, elt, st, seq, i):
        if i >= len(seq):
            yield st, []
            return
        for s1, r in self.assign(g.target, seq[i], st):
            if isinstance(r, Raised):
                yield s1, r
                continue
            conds = [(s1, True)]
            for cnd in g.ifs:
                nxt = []
                for s, ok in conds:
                    if not ok:
                        nxt.append((s, False))
                        continue
                    for s2, c in self.ev_truth(cnd, s):
                        if isinstance(c, Raised):
                            raise Unsupported("comprehension filter raised")
                        for s3, taken in self.branch(s2, c):
                            nxt.append((s3, taken))
                conds = nxt
            for s, ok in conds:
                if not ok:
                    for r2 in self._comp_items(g, elt, s, seq, i + 1):
                        yield r2
                    continue
                for s2, v in self.ev(elt, s):
                    if isinstance(v, Raised):
                        yield s2, v
                        continue
                    for s3, rest in self._comp_items(g, elt, s2, seq, i + 1):
                        if isinstance(rest, Raised):
                            yield s3, rest
                        else:
                            yield s3, [v] + rest

    def _merge_outcomes(self, base, outs):
        """several effect-free outcomes of one element expression (a conditional expression forked) -> one guarded value.
        Each outcome's path facts become implications of its branch condition; gives up (returns outs) when anything but
        ground facts distinguishes the outcomes."""
        n0 = len(base.pc)
        for s, v in outs:
            if len(s.qhyps) != len(base.qhyps) or len(s.khyps) != len(base.khyps) or s.heap != base.heap or len(s.log) != len(base.log):
                return outs
            if isinstance(v, Ref):
                return outs
        merged = outs[-1][0].fork()
        merged.pc = list(base.pc)
        val = None
        conds = []
        for s, v in outs:
            new = s.pc[n0:]
            if not new:
                return outs
            # guard = everything this outcome learnt (it contains its branch condition, so the guards exclude each other)
            conds.append(z3.And(*new) if len(new) > 1 else new[0])
            for kt in s.kterms[len(base.kterms):]:
                merged.kterms.append(kt)
        merged.pc.append(z3.Or(*conds))
        try:
            val = outs[-1][1]
            for (s, v), c in reversed(list(zip(outs[:-1], conds[:-1]))):
                val = self.ite_value(c, v, val)
        except Unsupported:
            return outs
        return [(merged, val)]

    def _comp_symbolic(self, node, g, elt, st, seq, saved):
        fi0 = self.frames[-1] if self.frames else None
        has_lc = fi0 is not None and (fi0.key, "comp", self.loop_ordinal("comp", node)) in self.loop_contracts
        if seq.tag == "bag" or (g.ifs and not has_lc):
            # comprehension over an untracked local container: an untracked container again, provided the element and
            # filter expressions are pure and cannot raise on an arbitrary element
            probe = st.fork()
            outs = []
            kv = smt.fresh("k", z3.IntSort())
            probe.assume(z3.And(kv >= 0, kv < seq.n))
            probe.note_k(kv)
            for s1, r in self.assign(g.target, seq.get(kv), probe):
                conds = [(s1, True)]
                for cnd in g.ifs:
                    nxt = []
                    for s, ok in conds:
                        for s2, c in self.ev_truth(cnd, s):
                            if isinstance(c, Raised):
                                outs.append((s2, c))
                            else:
                                nxt.append((s2, ok))
                    conds = nxt
                for s, ok in conds:
                    for s2, v in self.ev(elt, s):
                        outs.append((s2, v))
            for s2, v in outs:
                if isinstance(v, Raised):
                    s2.env = dict(saved)
                    yield s2, v
                elif any(ev[0] in ("effect", "heap-write", "executed", "mutate") for ev in s2.log[len(st.log):]) or s2.heap != st.heap:
                    raise Unsupported("comprehension with effects over an untracked sequence")
            st.env = dict(saved)
            yield st, st.alloc(Bag("comprehension"))
            return
        if g.ifs:
            raise Unsupported("filtered comprehension over a sequence of symbolic length")
        fi = self.frames[-1] if self.frames else None
        ordn = self.loop_ordinal("comp", node) if fi is not None else None
        lc = self.loop_contracts.get((fi.key, "comp", ordn)) if fi is not None else None
        if lc is not None:
            # a comprehension whose element expression may raise / has effects is the loop it abbreviates
            lc._alias = self.loop_alias(fi, "comp", ordn, node)
            st.env["$out"] = st.alloc(PyList(items=[]))

            def body(s, elem, j):
                for s1, r in self.assign(g.target, elem, s):
                    if isinstance(r, Raised):
                        yield s1, ("raise", r.exc)
                        continue
                    for s2, v in self.ev(elt, s1):
                        if isinstance(v, Raised):
                            yield s2, ("raise", v.exc)
                            continue
                        for s3, r3 in self.bi_list_append(s2, [s2.env["$out"], v], {}):
                            yield s3, ("normal", None)

            for s2, out in self.iterate(st, seq, body, lc, "%s/comp%d" % (fi.key, ordn)):
                if out[0] == "normal":
                    res = s2.env.pop("$out")
                    env2 = dict(saved)
                    s2.env = env2
                    yield s2, res
                else:
                    s2.env.pop("$out", None)
                    yield s2, Raised(out[1])
            return
        kvar = smt.fresh("k", z3.IntSort())
        probe_start = smt._counter[0]
        probe = st.fork()
        probe.assume(z3.And(kvar >= 0, kvar < seq.n))
        probe.note_k(kvar)
        before = set(probe.store.keys())
        outs = []
        for s1, r in self.assign(g.target, seq.get(kvar), probe):
            if isinstance(r, Raised):
                raise Unsupported("comprehension target")
            for s2, v in self.ev(elt, s1):
                outs.append((s2, v))
        if len(outs) > 1 and not any(isinstance(v, Raised) for _, v in outs):
            outs = self._merge_outcomes(probe, outs)
        if len(outs) != 1 or isinstance(outs[0][1], Raised):
            raise Unsupported("comprehension element over a symbolic sequence forks or raises (%d outcomes)" % len(outs))
        s2, tmpl = outs[0]
        tmpl = generalise_template(tmpl, kvar, probe_start)
        # element expression must be pure apart from logging (touch events)
        new_oids = set(s2.store.keys()) - before
        if isinstance(tmpl, Ref) and tmpl.oid in new_oids:
            raise Unsupported("comprehension allocates per element")
        # carry over log events (e.g. `.result` touches) generalised over all elements
        for ev in s2.log[len(st.log):]:
            st.log.append(("forall",) + tuple(ev))
        st.env = dict(saved)
        meta = dict(seq.meta)
        elem = seq.get(kvar)
        identity = isinstance(tmpl, Sym) and isinstance(elem, Sym) and tmpl.kind == elem.kind and tmpl.t.eq(elem.t)
        if not identity:
            meta.pop("keys_of", None)
            meta.pop("as_seq", None)
        new = SeqV(seq.n, lambda k, tmpl=tmpl, kvar=kvar: subst_value(tmpl, kvar, k), tag=seq.tag if identity else None, meta=meta)
        yield st, st.alloc(PyList(seq=new))
