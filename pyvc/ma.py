"""Cell-wise theory of numpy / numpy.ma (assumed contracts, DESIGN 4.2), as executor models.

Arrays are snapshots (ArrState) with closures val(c), miss(c) over the uninterpreted sort Cell.
What lies under a missing cell after an operation is either the precise numpy behaviour or an
unspecified fresh function - never something a postcondition may rely on.
"""
import ast

import z3

from . import smt
from .smt import Cell, Shape, DT, INT, FLT, BOOLDT
from .values import (
    Unsupported, Sym, Ref, TupleV, FuncV, LambdaV, BuiltinV, ClassV, ModuleV, SuperV, Raised, ExcSym,
    PyList, SeqV, PyDict, Obj, ArrState, DataView, MaskView, Idx, StackState, Slice, is_concrete, num_term, isint_of,
    is_num, zand, zor, znot,
)

RANK = z3.Function("rank", Shape, z3.IntSort())
STACKSHAPE = z3.Function("stack_shape", z3.IntSort(), Shape, Shape)  # shape of n layers of shape s
ONE = z3.RealVal(1)
ZERO = z3.RealVal(0)


def install(eng):
    pass


def b2r(b):
    return z3.If(b, ONE, ZERO)


def promote(d1, d2):
    """numpy result dtype of an arithmetic op on INT/FLT/BOOL operands."""
    return z3.simplify(z3.If(z3.Or(d1 == FLT, d2 == FLT), FLT, INT))


class FamState(object):
    """A symbolic-length family of arrays (the results of a list of input commands)."""

    def __init__(self, fid, n, dtype_f, shape_f, val_f, miss_f, kind="MA", cache=None):
        self.fid = fid
        self.n = n
        self.dtype_f = dtype_f
        self.shape_f = shape_f
        self.val_f = val_f
        self.miss_f = miss_f
        self.kind = kind
        self.cache = cache if cache is not None else {}
        self.requests = {}  # shared by all versions of the family: position terms mentioned so far

    def elem_state(self, kt):
        kt = z3.simplify(kt) if not isinstance(kt, int) else z3.IntVal(kt)
        key = kt.sexpr()
        self.requests[key] = kt
        s = self.cache.get(key)
        if s is None:
            s = ArrState(self.kind, self.dtype_f(kt), self.shape_f(kt),
                         lambda c, kt=kt: self.val_f(kt, c), lambda c, kt=kt: self.miss_f(kt, c))
            s.fam_elem = (self.fid, kt)
            self.cache[key] = s
        return s

    def with_elem(self, kt, new):
        kt = z3.simplify(kt)
        if new.kind != self.kind:
            raise Unsupported("family element changes kind")
        old = self
        f = FamState(
            self.fid, self.n,
            lambda k: z3.If(k == kt, new.dtype, old.dtype_f(k)),
            lambda k: z3.If(k == kt, new.shape, old.shape_f(k)),
            lambda k, c: z3.If(k == kt, new.val(c), old.val_f(k, c)),
            lambda k, c: z3.If(k == kt, new.miss(c), old.miss_f(k, c)),
            self.kind, {})
        f.requests = self.requests
        f.cache[kt.sexpr()] = new
        return f


class MAMixin(object):
    # ------------------------------------------------------------------ helpers
    def rank(self, shape):
        return RANK(shape)

    def arr_state(self, st, v):
        """value -> ArrState (DataView resolved to an ND alias snapshot)."""
        if isinstance(v, DataView):
            b = self.arr_state(st, v.base)
            s = ArrState("ND", b.dtype, b.shape, b.val, lambda c: z3.BoolVal(False), sel=b.sel, selkey=b.selkey)
            s.data_of = b
            return s
        if isinstance(v, MaskView):
            b = self.arr_state(st, v.base)
            if b.kind != "MA":
                raise Unsupported("mask of a plain ndarray")
            cache = b.stats.setdefault("_maskview", None)
            if cache is None:
                cache = ArrState("ND", BOOLDT, b.shape, lambda c, b=b: b2r(b.miss(c)), lambda c: z3.BoolVal(False))
                cache.mask_of = b
                b.stats["_maskview"] = cache
            return cache
        if isinstance(v, Ref):
            o = st.get(v)
            if isinstance(o, ArrState):
                return o
        raise Unsupported("not an array: %r" % (v,))

    def new_arr(self, st, state):
        return st.alloc(state)

    def fresh_valfun(self, tag="junk"):
        f = smt.fresh_fun(tag, Cell, z3.RealSort())
        return lambda c: f(c)

    def same_shape_or_raise(self, st, sa, sb):
        """numpy broadcasting is not modelled: different shapes -> ValueError (A-NOBROADCAST)."""
        return self.branch(st, sa == sb)

    def scalar_dtype(self, v):
        ii = isint_of(v)
        if isinstance(ii, bool):
            return INT if ii else FLT
        return z3.If(ii, INT, FLT)

    def mutate(self, st, target, new):
        """In-place update of the array behind `target` (Ref or DataView)."""
        if isinstance(target, DataView):
            base = self.arr_state(st, target.base)
            nb = base.clone(val=new.val)
            self.mutate(st, target.base, nb)
            return
        oid = target.oid
        old = st.store.get(oid)
        if getattr(old, "shares", None) is not None:
            # numpy.ma.array(x) / asarray(x) do not copy: an in-place update would also change x (not modelled -> undecided)
            raise Unsupported("in-place update of an array that may share its buffer with a caller-visible array (made without copy=True)")
        st.log.append(("mutate", target))
        st.set(target, new)

    # ------------------------------------------------------------------ arithmetic
    def bi_arr_binop(self, st, args, kw):
        opn, a, b, inplace = args
        a_arr, b_arr = self.is_arr(st, a), self.is_arr(st, b)
        if a_arr and isinstance(st.get(a) if isinstance(a, Ref) else None, StackState):
            raise Unsupported("arithmetic on stacks")
        if not a_arr and not is_num(a) or not b_arr and not is_num(b):
            if a is None or b is None or self.is_str(a) or self.is_str(b):
                yield self.raise_(st, "TypeError", "unsupported operand type(s)")
                return
            raise Unsupported("array op with %r / %r" % (a, b))
        sa = self.arr_state(st, a) if a_arr else None
        sb = self.arr_state(st, b) if b_arr else None
        if inplace and not a_arr:
            inplace = False
        ref = sa if a_arr else sb
        if (sa is not None and sa.sel is not None) or (sb is not None and sb.sel is not None):
            if not (sa is not None and sa.sel is not None and sb is None):
                raise Unsupported("arithmetic between selections")
        shapes_ok = [(st, True)]
        if a_arr and b_arr:
            shapes_ok = list(self.same_shape_or_raise(st, sa.shape, sb.shape))
        for s1, ok in shapes_ok:
            if not ok:
                yield self.raise_(s1, "ValueError", "operands could not be broadcast together")
                continue
            va = sa.val if a_arr else (lambda c, t=num_term(a): t)
            vb = sb.val if b_arr else (lambda c, t=num_term(b): t)
            ma = sa.miss if a_arr else (lambda c: z3.BoolVal(False))
            mb = sb.miss if b_arr else (lambda c: z3.BoolVal(False))
            da = sa.dtype if a_arr else self.scalar_dtype(a)
            db = sb.dtype if b_arr else self.scalar_dtype(b)
            kind = "MA" if ((a_arr and sa.kind == "MA") or (b_arr and sb.kind == "MA")) else "ND"
            if opn == "Add":
                f = lambda x, y: x + y
            elif opn == "Sub":
                f = lambda x, y: x - y
            elif opn == "Mult":
                f = lambda x, y: x * y
            elif opn == "Div":
                f = lambda x, y: x / y
            else:
                raise Unsupported("array operator %s" % opn)
            rdt = FLT if opn == "Div" else promote(da, db)
            junk = self.fresh_valfun()
            if opn == "Div":
                if kind == "ND":
                    raise Unsupported("plain ndarray division (inf/nan not modelled)")
                miss = lambda c: z3.Or(ma(c), mb(c), vb(c) == 0)
            else:
                miss = lambda c: z3.Or(ma(c), mb(c)) if kind == "MA" else z3.BoolVal(False)
            if kind == "MA":
                val = lambda c: z3.If(miss(c), junk(c), f(va(c), vb(c)))
            else:
                val = lambda c: f(va(c), vb(c))
            if inplace:
                # numpy: the ufunc output is cast back into the target's dtype ('same_kind')
                bad = z3.And(sa.dtype == INT, rdt == FLT)
                for s2, isbad in self.branch(s1, bad):
                    if isbad:
                        yield self.raise_(s2, "UFuncTypeError", "Cannot cast ufunc output to dtype('int64')")
                        continue
                    if sa.kind == "ND":
                        # ndarray.__iop__(masked): the ufunc runs on the operand's raw data; the target stays an ndarray
                        if opn == "Div":
                            raise Unsupported("plain ndarray division (inf/nan not modelled)")
                        new = sa.clone(val=lambda c: f(va(c), vb(c)))
                    else:
                        new = sa.clone(val=val, miss=miss)
                    self.mutate(s2, a, new)
                    yield s2, a
                continue
            new = ArrState(kind, rdt, ref.shape, val, miss, sel=ref.sel, selkey=ref.selkey)
            yield s1, s1.alloc(new)

    def bi_arr___neg__(self, st, args, kw):
        (a,) = args
        s = self.arr_state(st, a)
        yield st, st.alloc(s.clone(val=lambda c: -s.val(c)))

    def _cmp(self, opn, x, y):
        return {"Eq": x == y, "NotEq": x != y, "Lt": x < y, "LtE": x <= y, "Gt": x > y, "GtE": x >= y}[opn]

    def bi_arr_compare(self, st, args, kw):
        opn, a, b = args
        a_arr, b_arr = self.is_arr(st, a), self.is_arr(st, b)
        if (a_arr and not (b_arr or is_num(b))) or (b_arr and not (a_arr or is_num(a))):
            raise Unsupported("array comparison with %r / %r" % (a, b))
        sa = self.arr_state(st, a) if a_arr else None
        sb = self.arr_state(st, b) if b_arr else None
        ref = sa if a_arr else sb
        shapes_ok = [(st, True)]
        if a_arr and b_arr:
            shapes_ok = list(self.same_shape_or_raise(st, sa.shape, sb.shape))
        for s1, ok in shapes_ok:
            if not ok:
                yield self.raise_(s1, "ValueError", "operands could not be broadcast together")
                continue
            va = sa.val if a_arr else (lambda c, t=num_term(a): t)
            vb = sb.val if b_arr else (lambda c, t=num_term(b): t)
            ma = sa.miss if a_arr else (lambda c: z3.BoolVal(False))
            mb = sb.miss if b_arr else (lambda c: z3.BoolVal(False))
            kind = "MA" if ((a_arr and sa.kind == "MA") or (b_arr and sb.kind == "MA")) else "ND"
            # payload of a masked comparison = comparison of the payloads (numpy 1.26, conformance-checked)
            new = ArrState(kind, BOOLDT, ref.shape, lambda c: b2r(self._cmp(opn, va(c), vb(c))),
                           (lambda c: z3.Or(ma(c), mb(c))) if kind == "MA" else (lambda c: z3.BoolVal(False)),
                           sel=ref.sel, selkey=ref.selkey, space=ref.space)
            yield s1, s1.alloc(new)

    # ------------------------------------------------------------------ attributes / methods
    def bi_arr_attr(self, st, args, kw):
        o, name = args
        if isinstance(o, Ref) and isinstance(st.get(o), StackState):
            yield st, BuiltinV("stack." + name, self_val=o)
            return
        s = self.arr_state(st, o)
        if name == "shape":
            yield st, Sym("shape", s.shape)
        elif name == "dtype":
            yield st, Sym("dt", s.dtype)
        elif name == "data":
            if isinstance(o, DataView):
                yield st, o
            else:
                yield st, DataView(o)
        elif name == "mask":
            if s.kind != "MA" or isinstance(o, (DataView, MaskView)):
                yield self.raise_(st, "AttributeError", "'numpy.ndarray' object has no attribute 'mask'")
            else:
                # A-NOMASK: the `nomask` scalar is treated as an all-False array of the same shape
                yield st, MaskView(o)
        elif name == "fill_value":
            yield st, Sym("num", smt.fresh("fill_value", z3.RealSort()), False)
        elif name == "size":
            yield st, Sym("num", z3.ToReal(smt.fresh("size", z3.IntSort())), True)
        else:
            yield st, BuiltinV("arr." + name, self_val=o)

    def bi_arr_setattr(self, st, args, kw):
        o, name, v = args
        s = self.arr_state(st, o)
        if name == "mask" and s.kind == "MA":
            if v is False or v is True:
                new = s.clone(miss=lambda c, v=v: z3.BoolVal(v))
                self.mutate(st, o, new)
                yield st, None
                return
            m = self.arr_state(st, v)
            for s1, ok in self.same_shape_or_raise(st, s.shape, m.shape):
                if not ok:
                    yield self.raise_(s1, "ValueError", "mask shape mismatch")
                    continue
                new = s.clone(miss=lambda c, m=m: m.val(c) != 0)
                self.mutate(s1, o, new)
                yield s1, None
            return
        raise Unsupported("array attribute store %s" % name)

    def bi_arr_copy(self, st, args, kw):
        s = self.arr_state(st, args[0])
        c = s.clone()
        if hasattr(s, "mask_of"):
            c.mask_of = s.mask_of
        yield st, st.alloc(c)

    def bi_numpy_copy(self, st, args, kw):
        # numpy.copy(a) -> np.array(a, copy=True): base-class ndarray; the mask is dropped
        s = self.arr_state(st, args[0])
        yield st, st.alloc(ArrState("ND", s.dtype, s.shape, s.val, lambda c: z3.BoolVal(False)))

    def bi_numpy_ma_asarray(self, st, args, kw):
        s = self.arr_state(st, args[0])
        if s.kind == "MA":
            yield st, args[0]
        else:
            out = ArrState("MA", s.dtype, s.shape, s.val, lambda c: z3.BoolVal(False))
            if isinstance(args[0], Ref) and not st.is_fresh(args[0]):
                out.shares = args[0]
            yield st, st.alloc(out)

    def bi_numpy_ma_is_masked(self, st, args, kw):
        s = self.arr_state(st, args[0])
        if s.kind != "MA":
            yield st, False
            return
        b = s.stats.get("anymiss")
        if b is None:
            b = smt.fresh("is_masked", z3.BoolSort())
            s.stats["anymiss"] = b
        st.assume_all_cells(lambda c, s=s, b=b: z3.Implies(s.miss(c), b))
        yield st, Sym("bool", b)

    def bi_numpy_full(self, st, args, kw):
        shape, v = args[0], args[1]
        dt = kw.get("dtype")
        if not (isinstance(shape, Sym) and shape.kind == "shape") or not is_num(v):
            raise Unsupported("numpy.full arguments")
        d = self.dtype_of_class(dt) if dt is not None else self.scalar_dtype(v)
        t = num_term(v)
        yield st, st.alloc(ArrState("ND", d, shape.t, lambda c, t=t: t, lambda c: z3.BoolVal(False)))

    def dtype_of_class(self, dt):
        if isinstance(dt, ClassV) and dt.name in ("float", "numpy.float64"):
            return FLT
        if isinstance(dt, ClassV) and dt.name in ("int", "numpy.uint"):
            return INT
        if isinstance(dt, Sym) and dt.kind == "dt":
            return dt.t
        raise Unsupported("dtype %r" % (dt,))

    def bi_numpy_ma_empty(self, st, args, kw):
        shape = args[0]
        if not (isinstance(shape, Sym) and shape.kind == "shape"):
            raise Unsupported("numpy.ma.empty shape")
        d = self.dtype_of_class(kw["dtype"]) if "dtype" in kw else FLT
        yield st, st.alloc(ArrState("MA", d, shape.t, self.fresh_valfun("empty"), lambda c: z3.BoolVal(False)))

    def bi_numpy_ma_array(self, st, args, kw):
        kw = {k: v for k, v in kw.items() if k != "__node__"}
        v = args[0]
        if isinstance(v, Ref) and isinstance(st.get(v), StackState):
            sk = st.get(v)
            mask = kw.get("mask")
            if mask is None or set(kw) - {"mask"}:
                raise Unsupported("ma.array(stack) form")
            mk = st.get(mask) if isinstance(mask, Ref) else None
            if not isinstance(mk, StackState) or not getattr(mk, "is_mask", False):
                raise Unsupported("ma.array(stack, mask=...) with this mask")
            yield st, st.alloc(StackState(sk.n, sk.shape, sk.layer, mk.miss, kind="MA", ok=sk.ok, origin=sk.origin))
            return
        if isinstance(v, Ref) and isinstance(st.get(v), PyList):
            for r in self.ma_array_from_list(st, v, kw):
                yield r
            return
        s = self.arr_state(st, v)
        if set(kw) - {"mask", "dtype", "fill_value", "copy"}:
            raise Unsupported("ma.array keywords %s" % sorted(kw))
        d = self.dtype_of_class(kw["dtype"]) if "dtype" in kw else s.dtype
        mask = kw.get("mask")
        if mask is None:
            miss = s.miss if s.kind == "MA" else (lambda c: z3.BoolVal(False))
        elif mask is False:
            miss = s.miss if s.kind == "MA" else (lambda c: z3.BoolVal(False))  # mask=False ORs with existing
        else:
            m = self.arr_state(st, mask)
            base_miss = s.miss if s.kind == "MA" else (lambda c: z3.BoolVal(False))
            miss = lambda c, m=m: z3.Or(base_miss(c), m.val(c) != 0)
        val = s.val
        if "dtype" in kw and not (z3.is_const(d) and z3.is_const(s.dtype) and d.eq(s.dtype)):
            # a cast from float to int truncates toward zero (numpy astype); every other cast among {int, float} keeps the number
            val = lambda c, s=s, d=d: z3.If(z3.And(d == INT, s.dtype == FLT),
                                            z3.If(s.val(c) >= 0, z3.ToReal(z3.ToInt(s.val(c))), -z3.ToReal(z3.ToInt(-s.val(c)))), s.val(c))
        out = ArrState("MA", d, s.shape, val, miss)
        cp = kw.get("copy")
        if cp is not True and isinstance(v, Ref) and not st.is_fresh(v):
            out.shares = v
        yield st, st.alloc(out)

    def ma_array_from_list(self, st, v, kw):
        raise Unsupported("ma.array of a list")

    # ------------------------------------------------------------------ statistics
    def ensure_stats(self, st, s):
        """Whole-array statistics of snapshot s: uninterpreted constants + axioms over the valid view."""
        if "vmin" in s.stats:
            return s.stats
        d = s.stats
        d["vmin"] = smt.fresh("vmin", z3.RealSort())
        d["vmax"] = smt.fresh("vmax", z3.RealSort())
        d["vmean"] = smt.fresh("vmean", z3.RealSort())
        d["vstd"] = smt.fresh("vstd", z3.RealSort())
        self.assume_stat_axioms(st, s)
        return d

    def valid_at(self, s, c):
        v = z3.Not(s.miss(c))
        if s.sel is not None:
            v = z3.And(v, s.sel(c))
        return v

    def assume_stat_axioms(self, st, s):
        d = s.stats
        st.assume_all_cells(lambda c, s=s, d=d: z3.Implies(self.valid_at(s, c), z3.And(d["vmin"] <= s.val(c), s.val(c) <= d["vmax"])))
        cmin = st.add_cell("c_min")
        cmax = st.add_cell("c_max")
        st.assume(z3.And(self.valid_at(s, cmin), s.val(cmin) == d["vmin"], self.valid_at(s, cmax), s.val(cmax) == d["vmax"]))
        st.assume(z3.And(d["vmin"] <= d["vmean"], d["vmean"] <= d["vmax"], d["vstd"] >= 0,
                         z3.Implies(d["vmin"] < d["vmax"], z3.And(d["vmin"] < d["vmean"], d["vmean"] < d["vmax"], d["vstd"] > 0)),
                         z3.Implies(d["vmin"] == d["vmax"], d["vstd"] == 0)))
        d["cmin"], d["cmax"] = cmin, cmax
        st.ghost.setdefault("stats_nonempty", []).append(s)

    def _stat(self, st, a, which):
        s = self.arr_state(st, a)
        if hasattr(s, "data_of") and s.data_of.kind == "MA":
            # statistic of the raw payload: a different (payload-dependent) snapshot
            pass
        d = self.ensure_stats(st, s)
        isint = (s.dtype == INT) if which in ("vmin", "vmax") else False
        return Sym("num", d[which], z3.simplify(isint) if not isinstance(isint, bool) else isint)

    def bi_arr_min(self, st, args, kw):
        yield st, self._stat(st, args[0], "vmin")

    def bi_arr_max(self, st, args, kw):
        yield st, self._stat(st, args[0], "vmax")

    def bi_arr_mean(self, st, args, kw):
        if set(kw) - {"__node__"}:
            raise Unsupported("mean keywords")
        yield st, self._stat(st, args[0], "vmean")

    def bi_numpy_ma_mean(self, st, args, kw):
        a = args[0]
        if isinstance(a, Ref) and isinstance(st.get(a), StackState):
            for r in self.stack_mean(st, st.get(a), kw):
                yield r
            return
        if set(kw) - {"__node__"}:
            raise Unsupported("ma.mean keywords")
        yield st, self._stat(st, a, "vmean")

    def bi_numpy_ma_std(self, st, args, kw):
        yield st, self._stat(st, args[0], "vstd")

    def bi_arr_compressed(self, st, args, kw):
        s = self.arr_state(st, args[0])
        n = ArrState("ND", s.dtype, smt.fresh("shape1d", Shape), s.val, lambda c: z3.BoolVal(False),
                     sel=lambda c, s=s: self.valid_at(s, c), selkey=("compressed", s.sid), space=("compressed", s.sid))
        n.stats = s.stats  # same valid cells -> same statistics
        yield st, st.alloc(n)

    # ------------------------------------------------------------------ indexing
    def index_cond(self, st, idx):
        """index value -> (cond closure, index kind 'MA'|'ND', key)"""
        if isinstance(idx, Idx):
            return idx.cond, "ND", ("idx", idx.key)
        if self.is_arr(st, idx):
            s = self.arr_state(st, idx)
            return (lambda c, s=s: s.val(c) != 0), s.kind, ("arr", s.sid)
        raise Unsupported("array index %r" % (idx,))

    def bi_arr_getitem(self, st, args, kw):
        o, idx = args
        if isinstance(o, Ref) and isinstance(st.get(o), StackState):
            for r in self.stack_getitem(st, st.get(o), idx):
                yield r
            return
        s = self.arr_state(st, o)
        if isinstance(idx, Slice) and idx.lo is None and idx.hi is None and idx.step is None:
            yield st, o  # a view of everything
            return
        if isinstance(idx, Slice) or is_num(idx) or isinstance(idx, TupleV):
            raise Unsupported("positional indexing of an array")
        cond, ikind, key = self.index_cond(st, idx)
        if s.sel is not None:
            # selecting from a selection: the index must itself live on that selection
            si = self.arr_state(st, idx) if self.is_arr(st, idx) else None
            if si is None or si.selkey != s.selkey:
                raise Unsupported("indexing a selection with a foreign index")
            inner = s.sel
            new = ArrState(s.kind, s.dtype, smt.fresh("selshape", Shape), s.val, s.miss,
                           sel=lambda c, inner=inner, cond=cond: z3.And(inner(c), cond(c)), selkey=(s.selkey, key), space=("sel", s.selkey, key))
            yield st, st.alloc(new)
            return
        # boolean / where() selection: the selected cells, as a copy (payload-based for masked indices)
        new = ArrState(s.kind, s.dtype, smt.fresh("selshape", Shape), s.val, s.miss, sel=cond, selkey=key, space=("sel", key))
        yield st, st.alloc(new)

    def bi_arr_setitem(self, st, args, kw):
        o, idx, v = args
        if isinstance(o, Ref) and isinstance(st.get(o), StackState):
            raise Unsupported("assignment into a stack")
        s = self.arr_state(st, o)
        if isinstance(idx, Slice) or is_num(idx) or isinstance(idx, TupleV):
            raise Unsupported("positional assignment into an array")
        cond, ikind, key = self.index_cond(st, idx)
        # the index must live on the target's cell space
        if is_num(v):
            vv = lambda c, t=num_term(v): t
            vmiss = None
        elif self.is_arr(st, v):
            sv = self.arr_state(st, v)
            if sv.sel is None or sv.selkey != key:
                raise Unsupported("array assigned through an index must be selected by the same index")
            vv = sv.val
            vmiss = sv.miss if sv.kind == "MA" else None
        else:
            raise Unsupported("value assigned into array: %r" % (v,))
        val = lambda c: z3.If(cond(c), vv(c), s.val(c))
        if s.kind == "MA" and not isinstance(o, DataView):
            if ikind == "MA" and vmiss is None:
                miss = s.miss  # numpy: _data[indx.data] = value; mask untouched
            elif vmiss is None:
                miss = lambda c: z3.And(s.miss(c), z3.Not(cond(c)))  # _mask[indx] = False
            else:
                miss = lambda c: z3.If(cond(c), vmiss(c), s.miss(c))
        else:
            miss = s.miss
        # numpy casts the assigned value into the target dtype (truncation for INT targets is not modelled)
        self.mutate(st, o, s.clone(val=val, miss=miss))
        yield st, None

    def bi_numpy_where(self, st, args, kw):
        if len(args) == 1:
            s = self.arr_state(st, args[0])
            yield st, Idx(lambda c, s=s: s.val(c) != 0, s.shape)
            return
        raise Unsupported("numpy.where with three arguments")

    def bi_numpy_logical_and(self, st, args, kw):
        for r in self._logical(st, args, z3.And):
            yield r

    def bi_numpy_logical_or(self, st, args, kw):
        for r in self._logical(st, args, z3.Or):
            yield r

    def _logical(self, st, args, op):
        a, b = args
        sa, sb = self.arr_state(st, a), self.arr_state(st, b)
        if sa.kind != "ND" or sb.kind != "ND":
            raise Unsupported("logical op on masked arrays")
        for s1, ok in self.same_shape_or_raise(st, sa.shape, sb.shape):
            if not ok:
                yield self.raise_(s1, "ValueError", "operands could not be broadcast together")
                continue
            n = ArrState("ND", BOOLDT, sa.shape, lambda c: b2r(op(sa.val(c) != 0, sb.val(c) != 0)), lambda c: z3.BoolVal(False))
            yield s1, s1.alloc(n)

    def bi_numpy_ma_where(self, st, args, kw):
        cnd, x, y = args
        sc = self.arr_state(st, cnd)

        def comp(v):
            if is_num(v):
                t = num_term(v)
                return (lambda c: t), (lambda c: z3.BoolVal(False)), self.scalar_dtype(v), None
            s = self.arr_state(st, v)
            return s.val, (s.miss if s.kind == "MA" else (lambda c: z3.BoolVal(False))), s.dtype, s.shape

        xv, xm, xd, xs = comp(x)
        yv, ym, yd, ys = comp(y)
        states = [(st, True)]
        for sh in (xs, ys):
            if sh is not None:
                nxt = []
                for s, ok in states:
                    if ok:
                        nxt.extend(self.same_shape_or_raise(s, sc.shape, sh))
                    else:
                        nxt.append((s, ok))
                states = nxt
        for s1, ok in states:
            if not ok:
                yield self.raise_(s1, "ValueError", "operands could not be broadcast together")
                continue
            cm = sc.miss if sc.kind == "MA" else (lambda c: z3.BoolVal(False))
            cd = lambda c: sc.val(c) != 0
            miss = lambda c: z3.Or(cm(c), z3.If(cd(c), xm(c), ym(c)))
            val = lambda c: z3.If(cd(c), xv(c), yv(c))
            yield s1, s1.alloc(ArrState("MA", promote(xd, yd), sc.shape, val, miss))

    def _minmax(self, st, args, ismax):
        a, b = args
        sa, sb = self.arr_state(st, a), self.arr_state(st, b)
        for s1, ok in self.same_shape_or_raise(st, sa.shape, sb.shape):
            if not ok:
                yield self.raise_(s1, "ValueError", "operands could not be broadcast together")
                continue
            ma = sa.miss if sa.kind == "MA" else (lambda c: z3.BoolVal(False))
            mb = sb.miss if sb.kind == "MA" else (lambda c: z3.BoolVal(False))
            miss = lambda c: z3.Or(ma(c), mb(c))
            junk = self.fresh_valfun()
            if ismax:
                pick = lambda c: z3.If(sa.val(c) >= sb.val(c), sa.val(c), sb.val(c))
            else:
                pick = lambda c: z3.If(sa.val(c) <= sb.val(c), sa.val(c), sb.val(c))
            val = lambda c: z3.If(miss(c), junk(c), pick(c))
            yield s1, s1.alloc(ArrState("MA", promote(sa.dtype, sb.dtype), sa.shape, val, miss))

    def bi_numpy_ma_maximum(self, st, args, kw):
        for r in self._minmax(st, args, True):
            yield r

    def bi_numpy_ma_minimum(self, st, args, kw):
        for r in self._minmax(st, args, False):
            yield r

    def bi_arr___bool__(self, st, args, kw):
        yield self.raise_(st, "ValueError", "The truth value of an array with more than one element is ambiguous")


# =========================================================================== stacks (vstack + sort along axis 0)
class SortedColumn(object):
    """SRT(k, c): the nondecreasing arrangement of the stored column c of an input family (spec function).

    Facts supplied per requested (k, c): order of neighbours, permutation witness, extreme bounds."""

    def __init__(self, fid, n, col):
        self.fid, self.n, self.col = fid, n, col
        self.f = smt.fresh_fun("srt_" + str(fid), z3.IntSort(), Cell, z3.RealSort())
        self.perm = smt.fresh_fun("srtperm_" + str(fid), z3.IntSort(), Cell, z3.IntSort())
        self.requests = {}
        self._in = False

    def at(self, k, c):
        if isinstance(k, int):
            k = z3.IntVal(k)
        k = z3.simplify(k)
        if not self._in:
            self.requests[(k.sexpr(), c.sexpr())] = (k, c)
        return self.f(k, c)

    def facts(self, kterms):
        self._in = True
        try:
            out = []
            n = self.n
            for (k, c) in list(self.requests.values()):
                out.append(z3.Implies(z3.And(k >= 0, k < n - 1), self.f(k, c) <= self.f(k + 1, c)))
                out.append(z3.Implies(z3.And(k >= 1, k < n), self.f(k - 1, c) <= self.f(k, c)))
                p = self.perm(k, c)
                out.append(z3.Implies(z3.And(k >= 0, k < n), z3.And(p >= 0, p < n, self.f(k, c) == self.col(p, c))))
                out.append(z3.Implies(z3.And(k >= 0, k < n), z3.And(self.f(0, c) <= self.f(k, c), self.f(k, c) <= self.f(n - 1, c))))
                for i in kterms:
                    out.append(z3.Implies(z3.And(i >= 0, i < n), z3.And(self.f(0, c) <= self.col(i, c), self.col(i, c) <= self.f(n - 1, c))))
            return out
        finally:
            self._in = False


class RangeSum(object):
    """RS(lo, m, c) = sum_{i<m} SRT(lo+i, c); recursive spec function of m."""

    def __init__(self, srt):
        self.srt = srt
        self.f = smt.fresh_fun("rsum_" + str(srt.fid), z3.IntSort(), z3.IntSort(), Cell, z3.RealSort())
        self.requests = {}
        self._in = False

    def at(self, lo, m, c):
        lo, m = z3.simplify(lo), z3.simplify(m)
        if not self._in:
            self.requests[(lo.sexpr(), m.sexpr(), c.sexpr())] = (lo, m, c)
        return self.f(lo, m, c)

    def facts(self):
        self._in = True
        try:
            out = []
            for (lo, m, c) in list(self.requests.values()):
                out.append(z3.Implies(m == 0, self.f(lo, m, c) == 0))
                out.append(z3.Implies(m >= 1, self.f(lo, m, c) == self.f(lo, m - 1, c) + self.srt.f(lo + m - 1, c)))
            return out
        finally:
            self._in = False


def _stack_methods():
    def sorted_column(self, st, fid):
        cache = getattr(self, "_srt", None)
        if cache is None:
            cache = self._srt = {}
        if fid not in cache:
            fam = st.fams[fid]
            sc = SortedColumn(fid, fam.n, fam.val_f)
            rs = RangeSum(sc)
            cache[fid] = (sc, rs)
        return cache[fid]

    def srt_facts(self, st):
        out = []
        for (sc, rs) in getattr(self, "_srt", {}).values():
            out.extend(sc.facts(st.all_kterms()))
            out.extend(rs.facts())
        return out

    def bi_numpy_vstack(self, st, args, kw):
        for r in self._stack(st, args, kw, need_rank1=True):
            yield r

    def bi_numpy_stack(self, st, args, kw):
        for r in self._stack(st, args, kw, need_rank1=False):
            yield r

    def bi_numpy_array(self, st, args, kw):
        if set(kw) - {"__node__"}:
            raise Unsupported("numpy.array keywords")
        for r in self._stack(st, args, kw, need_rank1=False):
            yield r

    def _stack(self, st, args, kw, need_rank1):
        (lst,) = args
        o = st.get(lst) if isinstance(lst, Ref) else None
        if not isinstance(o, PyList):
            raise Unsupported("stack of non-list")
        seq = self.list_seq(o)
        n = seq.n
        first = self.arr_state(st, seq.get(z3.IntVal(0)))
        probe = seq.get(smt.fresh("k", z3.IntSort()))
        origin = None
        if isinstance(probe, DataView) and isinstance(probe.base, Ref) and isinstance(probe.base.oid, tuple) and probe.base.oid[0] == "fam":
            fid = probe.base.oid[1]
            k0 = seq.get(z3.IntVal(0)).base.oid[2]
            if z3.is_int_value(z3.simplify(k0)) and z3.simplify(k0).as_long() == 0 and z3.simplify(n == st.fams[fid].n) is not None \
                    and z3.is_true(z3.simplify(n == st.fams[fid].n)):
                origin = ("fam", fid)
        layer = lambda k, c, seq=seq, st=st: self.arr_state(st, seq.get(k)).val(c)
        # every layer has the shape of the first (else numpy raises ValueError)
        kq = st.add_k("k_stack")
        same = z3.Implies(z3.And(kq >= 0, kq < n), self.arr_state(st, seq.get(kq)).shape == first.shape)
        for s1, ok in self.branch(st, same):
            if not ok:
                yield self.raise_(s1, "ValueError", "all input arrays must have the same shape")
                continue
            if need_rank1:
                # numpy.vstack concatenates along the first axis: only for rank-1 inputs is the result a stack of
                # n layers over the inputs' cells (DESIGN 4.2).  The requirement is an obligation of the caller.
                okr = self.oblige(s1, "%s/vstack:requires rank==1" % (self.current.key if self.current else "?"),
                                  RANK(first.shape) == 1, kind="callsite-requires", meta={"clause": "shape"})
                stk = StackState(n, first.shape, layer, None, kind="ND", ok=okr, origin=origin)
            else:
                stk = StackState(n, first.shape, layer, None, kind="ND", origin=origin)
            yield s1, s1.alloc(stk)

    def bi_numpy_broadcast_to(self, st, args, kw):
        a, shp = args
        if not (isinstance(shp, Sym) and shp.kind == "stackshape"):
            raise Unsupported("broadcast_to target shape")
        n, shape = shp.t
        s = self.arr_state(st, a)
        for s1, ok in self.same_shape_or_raise(st, s.shape, shape):
            if not ok:
                yield self.raise_(s1, "ValueError", "operands could not be broadcast together")
                continue
            stk = StackState(n, shape, lambda k, c, s=s: s.val(c), lambda c, s=s: s.val(c) != 0, kind="ND", is_mask=True)
            yield s1, s1.alloc(stk)

    def bi_stack_copy(self, st, args, kw):
        o = st.get(args[0])
        yield st, st.alloc(StackState(o.n, o.shape, o.layer, o.miss, o.kind, o.sorted, o.ok, o.origin, o.lo, o.hi, o.is_mask))

    def bi_stack_sort(self, st, args, kw):
        ref = args[0]
        o = st.get(ref)
        kwc = {k: v for k, v in kw.items() if k != "__node__"}
        if kwc.get("axis") != 0:
            raise Unsupported("sort along another axis")
        if o.kind != "MA" or o.miss is None:
            raise Unsupported("sort of an unmasked stack")
        if o.origin is not None:
            sc, rs = self.sorted_column(st, o.origin[1])
            layer = lambda k, c, sc=sc: sc.at(k, c)
        else:
            f = smt.fresh_fun("sorted_layer", z3.IntSort(), Cell, z3.RealSort())
            layer = lambda k, c: f(k, c)
        st.set(ref, StackState(o.n, o.shape, layer, o.miss, o.kind, True, o.ok, o.origin))
        yield st, None

    def stack_getitem(self, st, o, idx):
        n = o.n
        if isinstance(idx, Slice):
            if idx.step is not None:
                raise Unsupported("stack slice step")
            states = [st]
            for b in (idx.lo, idx.hi):
                if b is not None and not isinstance(isint_of(b), bool):
                    nxt = []
                    for s in states:
                        for s2, isi in self.branch(s, isint_of(b)):
                            if isi:
                                nxt.append(s2)
                            else:
                                yield self.raise_(s2, "TypeError", "slice indices must be integers")
                    states = nxt
                elif b is not None and isint_of(b) is False:
                    yield self.raise_(st, "TypeError", "slice indices must be integers")
                    return
            for s in states:
                lo = z3.IntVal(0) if idx.lo is None else self._clip(self.norm_index(idx.lo, n), n)
                hi = n if idx.hi is None else self._clip(self.norm_index(idx.hi, n), n)
                yield s, s.alloc(StackState(n, o.shape, o.layer, o.miss, o.kind, o.sorted, o.ok, o.origin, z3.simplify(lo), z3.simplify(hi)))
            return
        if not is_num(idx):
            raise Unsupported("stack index")
        k = self.norm_index(idx, n)
        for s2, ok in self.branch(st, z3.And(k >= 0, k < n)):
            if not ok:
                yield self.raise_(s2, "IndexError", "index out of bounds for axis 0")
                continue
            kk = z3.simplify(k)
            miss = o.miss if o.miss is not None else (lambda c: z3.BoolVal(False))
            yield s2, s2.alloc(ArrState(o.kind, FLT, o.shape, lambda c, kk=kk: o.layer(kk, c), miss))

    def stack_mean(self, st, o, kw):
        kwc = {k: v for k, v in kw.items() if k != "__node__"}
        if kwc.get("axis") != 0 or o.lo is None:
            raise Unsupported("mean of a stack")
        if not (o.sorted and o.origin is not None):
            raise Unsupported("mean over an unsorted / unknown stack")
        sc, rs = self.sorted_column(st, o.origin[1])
        cnt = z3.simplify(o.hi - o.lo)
        lo = o.lo
        # all layers share the broadcast mask: a cell is either missing in every layer or in none
        miss = lambda c: z3.Or(o.miss(c), cnt <= 0)
        yield st, st.alloc(ArrState("MA", FLT, o.shape, lambda c: rs.at(lo, cnt, c) / z3.ToReal(cnt), miss))

    return dict(sorted_column=sorted_column, srt_facts=srt_facts, bi_numpy_vstack=bi_numpy_vstack, bi_numpy_stack=bi_numpy_stack,
                bi_numpy_array=bi_numpy_array, _stack=_stack, bi_numpy_broadcast_to=bi_numpy_broadcast_to,
                bi_stack_copy=bi_stack_copy, bi_stack_sort=bi_stack_sort, stack_getitem=stack_getitem, stack_mean=stack_mean)


for _k, _v in _stack_methods().items():
    setattr(MAMixin, _k, _v)
