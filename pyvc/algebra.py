"""C06, last sentence: the algebra of the fuzzy operators as lemmas over their contracts (the spec functions the execute bodies are
proved equal to). Each n-ary law is proved as base + induction step over the recursive spec functions; the induction itself is the
usual meta-argument. Nothing here looks at the code: a changed body fails its own postcondition, not these lemmas."""
import z3

from . import smt, registry
from . import spec as S
from .cmdspec import build_inputs, FUZZY_LO, FUZZY_HI
from .engine import Engine
from .extract import Repo

L = "InFieldNames"


def lemmas(repo):
    SPECS, classes = registry.load(repo)
    recs = []
    fnkey = "lemma over the contracts of the fuzzy operators"

    def add(name, hyps, goal, st=None):
        h = list(hyps) + (st.hyps() if st is not None else [])
        v = smt.check(h, goal)
        recs.append({"name": "lemma/" + name, "status": v.status, "backend": v.backend, "time_s": round(v.time_s, 3), "clause": "algebra", "function": fnkey,
                     "goal": str(goal)[:300], "reason": v.reason})

    # ---- FuzzyNot: the value function of its contract, as a function of one real
    eng = Engine(repo, dict(S.CONTRACTS), dict(S.LOOPS))
    stn, xn = build_inputs(eng, classes["FuzzyNot"])
    c = xn.c
    vterm = SPECS["FuzzyNot"].result(xn)["value"](c)
    arg = xn.view("InFieldName", c)
    notf = lambda t: z3.substitute(vterm, (arg, t))
    a, b, p = z3.Reals("a b p")
    rng = lambda t: z3.And(FUZZY_LO <= t, t <= FUZZY_HI)
    add("NOT-INVOLUTION: Not(Not(x)) = x on [-1, 1]", [rng(a)], notf(notf(a)) == a)
    mx = lambda u, v: z3.If(u >= v, u, v)
    mn = lambda u, v: z3.If(u <= v, u, v)
    add("DE-MORGAN (step): Not(max(p, a)) = min(Not p, Not a)", [rng(a), rng(p)], notf(mx(p, a)) == mn(notf(p), notf(a)))
    add("DE-MORGAN (step): Not(min(p, a)) = max(Not p, Not a)", [rng(a), rng(p)], notf(mn(p, a)) == mx(notf(p), notf(a)))

    # ---- n-ary operators: the recursive spec functions of a list input
    eng2 = Engine(repo, dict(S.CONTRACTS), dict(S.LOOPS))
    st, x = build_inputs(eng2, classes["FuzzyOr"])
    c = x.c
    n = x.n(L)
    j = smt.fresh("j", z3.IntSort())
    st.note_k(j)
    st.note_k(j + 1)
    st.assume(z3.And(j >= 0, j + 1 < n))
    # the folds' step functions are exactly max / min / + (read off the spec functions by unfolding once)
    pm, pn, ps = x.pmax(L, j, c), x.pmin(L, j, c), x.psum(L, j, c)
    pm1, pn1, ps1 = x.pmax(L, j + 1, c), x.pmin(L, j + 1, c), x.psum(L, j + 1, c)
    v1 = x.view(L, c, j + 1)
    add("STEP-SHAPE: the partial Or / And / sum extend by max / min / +", [], z3.And(pm1 == mx(pm, v1), pn1 == mn(pn, v1), ps1 == ps + v1), st)
    # reordering: adjacent inputs may be swapped (every permutation is a product of adjacent transpositions), and the first two as well
    add("COMMUTE (step): max(max(p, a), b) = max(max(p, b), a)", [], mx(mx(p, a), b) == mx(mx(p, b), a))
    add("COMMUTE (step): min(min(p, a), b) = min(min(p, b), a)", [], mn(mn(p, a), b) == mn(mn(p, b), a))
    add("COMMUTE (step): (p + a) + b = (p + b) + a", [], (p + a) + b == (p + b) + a)
    add("COMMUTE (base): max, min, + are commutative", [], z3.And(mx(a, b) == mx(b, a), mn(a, b) == mn(b, a), a + b == b + a))
    # And <= Union <= Or: (j+1) * And_j <= Sum_j <= (j+1) * Or_j, base and step
    k = z3.ToReal(j + 1)
    base0 = z3.And(x.pmin(L, z3.IntVal(0), c) <= x.psum(L, z3.IntVal(0), c), x.psum(L, z3.IntVal(0), c) <= x.pmax(L, z3.IntVal(0), c))
    add("ORDER (base): And_0 <= Sum_0 <= Or_0", [], base0, st)
    ih = z3.And(k * pn <= ps, ps <= k * pm)
    # the products are linearised by hand: (k+1)*min(m, v) <= k*m + v and k*M + v <= (k+1)*max(M, v)
    add("ORDER (step): (j+1) And_j <= Sum_j <= (j+1) Or_j  =>  (j+2) And_{j+1} <= Sum_{j+1} <= (j+2) Or_{j+1}",
        [ih, pm1 == mx(pm, v1), pn1 == mn(pn, v1), ps1 == ps + v1, k >= 1,
         # monotonicity instances of multiplication by the positive count (the only non-linear facts needed)
         z3.Implies(pn1 <= pn, k * pn1 <= k * pn), z3.Implies(pm <= pm1, k * pm <= k * pm1)],
        z3.And((k + 1) * pn1 <= ps1, ps1 <= (k + 1) * pm1))
    # characterisation of the partial Or as the maximum of the column so far (needed to identify it with the top of the sorted column)
    i = smt.fresh("i", z3.IntSort())
    w = smt.fresh("w", z3.IntSort())
    st.note_k(i)
    st.note_k(w)
    ihmax = z3.And(z3.Implies(z3.And(i >= 0, i <= j), x.view(L, c, i) <= pm), w >= 0, w <= j, pm == x.view(L, c, w))
    add("MAX-CHAR (step): Or_j bounds inputs 0..j and is one of them  =>  the same for j+1",
        [ihmax, pm1 == mx(pm, v1)],
        z3.And(z3.Implies(z3.And(i >= 0, i <= j + 1), x.view(L, c, i) <= pm1), z3.Or(pm1 == x.view(L, c, w), pm1 == v1)), st)
    ihmin = z3.And(z3.Implies(z3.And(i >= 0, i <= j), x.view(L, c, i) >= pn), w >= 0, w <= j, pn == x.view(L, c, w))
    add("MIN-CHAR (step): And_j bounds inputs 0..j from below and is one of them  =>  the same for j+1",
        [ihmin, pn1 == mn(pn, v1)],
        z3.And(z3.Implies(z3.And(i >= 0, i <= j + 1), x.view(L, c, i) >= pn1), z3.Or(pn1 == x.view(L, c, w), pn1 == v1)), st)
    # selected union with k = 1: the truest of the sorted column is the maximum, the falsest the minimum
    top = x.srt(L, n - 1, c)
    bot = x.srt(L, z3.IntVal(0), c)
    pmN, pnN = x.pmax(L, n - 1, c), x.pmin(L, n - 1, c)
    wN, uN = smt.fresh("wN", z3.IntSort()), smt.fresh("uN", z3.IntSort())
    st.note_k(wN)
    st.note_k(uN)
    ii = smt.fresh("ii", z3.IntSort())
    charmax = z3.And(wN >= 0, wN < n, pmN == x.view(L, c, wN), z3.ForAll([ii], z3.Implies(z3.And(ii >= 0, ii < n), x.view(L, c, ii) <= pmN)))
    charmin = z3.And(uN >= 0, uN < n, pnN == x.view(L, c, uN), z3.ForAll([ii], z3.Implies(z3.And(ii >= 0, ii < n), x.view(L, c, ii) >= pnN)))
    # (the sorted column arranges the stored values; at a cell that is valid in every input these are the values the operators see)
    valid = z3.ForAll([ii], z3.Implies(z3.And(ii >= 0, ii < n), z3.Not(x.miss(L, c, ii))))
    add("SELECT-1 (Truest): the top of the sorted column is the Or of all inputs (given MAX-CHAR at n-1)", [n >= 1, charmax, valid], top == pmN, st)
    add("SELECT-1 (Falsest): the bottom of the sorted column is the And of all inputs (given MIN-CHAR at n-1)", [n >= 1, charmin, valid], bot == pnN, st)
    u, v, kk = z3.Reals("u v kk")
    add("MONO-MUL: multiplication by a non-negative count is monotone (the two instances used in ORDER)", [], z3.Implies(z3.And(kk >= 0, u <= v), kk * u <= kk * v))
    # vacuity of the hypotheses used above
    s = z3.Solver()
    s.set("rlimit", 20000000)
    s.add(*st.hyps())
    s.add(ih, n >= 2)
    r = s.check()
    recs.append({"name": "lemma/vacuity: the induction hypotheses are satisfiable", "status": "unsat" if str(r) in ("sat", "unknown") else "sat", "backend": "z3", "time_s": 0,
                 "clause": "cover", "function": fnkey, "goal": str(r)})
    return recs


def arith_lemmas(repo):
    """C07: `commutative commands give the same result for every ordering of their inputs` - the fold steps of Sum / Multiply / Minimum /
    Maximum / Mean and the element-type promotion commute (adjacent transpositions generate every ordering); the raise conditions of
    the contracts quantify over all positions, so they do not depend on the order either."""
    from .smt import INT, FLT, DT

    recs = []
    fnkey = "lemma over the contracts of the arithmetic commands"

    def add(name, goal):
        v = smt.check([], goal)
        recs.append({"name": "lemma/" + name, "status": v.status, "backend": v.backend, "time_s": round(v.time_s, 3), "clause": "algebra", "function": fnkey,
                     "goal": str(goal)[:300], "reason": v.reason})

    a, b, p = z3.Reals("a b p")
    mx = lambda u, v: z3.If(u >= v, u, v)
    mn = lambda u, v: z3.If(u <= v, u, v)
    add("ARITH-COMMUTE (step): (p + a) + b = (p + b) + a, (p * a) * b = (p * b) * a", z3.And((p + a) + b == (p + b) + a, (p * a) * b == (p * b) * a))
    add("ARITH-COMMUTE (step): min / max folds commute", z3.And(mx(mx(p, a), b) == mx(mx(p, b), a), mn(mn(p, a), b) == mn(mn(p, b), a)))
    add("ARITH-COMMUTE (base): +, *, min, max are commutative", z3.And(a + b == b + a, a * b == b * a, mx(a, b) == mx(b, a), mn(a, b) == mn(b, a)))
    d1, d2, d3 = z3.Consts("d1 d2 d3", DT)
    prom = lambda u, v: z3.If(z3.Or(u == FLT, v == FLT), FLT, INT)
    add("PROMOTE-COMMUTE: the element type of a fold does not depend on the order", z3.And(prom(d1, d2) == prom(d2, d1), prom(prom(d3, d1), d2) == prom(prom(d3, d2), d1)))
    return recs
