"""Per-path symbolic state."""
import z3

from . import smt
from .values import Ref


class State(object):
    _oid = [0]

    def __init__(self):
        self.env = {}
        self.pc = []  # ground facts
        self.qhyps = []  # closures cell -> z3 Bool (universally quantified over cells)
        self.cells = []  # ground cell terms at which qhyps get instantiated
        self.khyps = []  # closures k -> z3 Bool (universally quantified over input positions)
        self.kterms = []  # ground position terms at which khyps get instantiated
        self.store = {}  # oid -> content
        self.fams = {}  # family id -> FamState
        self.heap = {}  # field name -> z3 Array (symbolic heap for ref objects)
        self.log = []  # events (touches etc.)
        self.fresh_oids = set()  # oids allocated on this path (freshness for frame reasoning)
        self.trail = []  # human-readable path description
        self.ghost = {}
        self.lazy = []  # providers of definitional facts (RecFun unfoldings etc.)

    def fork(self):
        s = State()
        s.env = dict(self.env)
        s.pc = list(self.pc)
        s.qhyps = list(self.qhyps)
        s.cells = list(self.cells)
        s.khyps = list(self.khyps)
        s.kterms = list(self.kterms)
        s.store = dict(self.store)
        s.fams = dict(self.fams)
        s.heap = dict(self.heap)
        s.log = list(self.log)
        s.fresh_oids = set(self.fresh_oids)
        s.trail = list(self.trail)
        s.ghost = dict(self.ghost)
        s.lazy = list(self.lazy)
        return s

    # ------------------------------------------------------------ facts
    def assume(self, f, note=None):
        if isinstance(f, bool):
            f = z3.BoolVal(f)
        self.pc.append(f)
        if note:
            self.trail.append(note)
        return self

    def assume_all_cells(self, closure):
        self.qhyps.append(closure)
        return self

    def assume_all_k(self, closure):
        self.khyps.append(closure)
        return self

    def hyps(self):
        out = list(self.pc)
        for _ in range(2):  # closures may request further instances (see ma.StackState)
            extra = []
            kts = self.all_kterms()
            for h in self.khyps:
                for k in kts:
                    f = h(k)
                    if f is not None:
                        extra.append(f)
            for h in self.qhyps:
                for c in self.cells:
                    f = h(c)
                    if f is None:
                        continue
                    if callable(f):  # quantified over cells and positions
                        for k in kts:
                            g = f(k)
                            if g is not None:
                                extra.append(g)
                    else:
                        extra.append(f)
            for p in self.lazy:
                extra.extend(p(self) if getattr(p, "wants_state", False) else p())
        return out + extra

    def all_kterms(self):
        seen = {}
        for k in self.kterms:
            seen[k.sexpr()] = k
        for f in self.fams.values():
            for k in getattr(f, "requests", {}).values():
                seen[k.sexpr()] = k
        return list(seen.values())

    def note_k(self, k):
        """register a position term so that position-quantified hypotheses get instantiated at it"""
        import z3 as _z3
        k = _z3.simplify(k)
        key = k.sexpr()
        if all(t.sexpr() != key for t in self.kterms):
            self.kterms.append(k)

    def add_k(self, prefix="k"):
        import z3 as _z3
        k = smt.fresh(prefix, _z3.IntSort())
        self.kterms.append(k)
        return k

    def add_cell(self, prefix="cell"):
        c = smt.fresh(prefix, smt.Cell)
        self.cells.append(c)
        return c

    # ------------------------------------------------------------ store
    def alloc(self, content, fresh=True):
        State._oid[0] += 1
        oid = State._oid[0]
        self.store[oid] = content
        if fresh:
            self.fresh_oids.add(oid)
        return Ref(oid)

    def get(self, ref):
        oid = ref.oid
        if isinstance(oid, tuple) and oid[0] == "fam":
            return self.fams[oid[1]].elem_state(oid[2])
        if isinstance(oid, tuple) and oid[0] == "cmdelem":
            return self.fams[("cmds", oid[1])].elem(oid[2])
        return self.store[oid]

    def set(self, ref, content):
        oid = ref.oid
        if isinstance(oid, tuple) and oid[0] == "fam":
            self.fams[oid[1]] = self.fams[oid[1]].with_elem(oid[2], content)
        else:
            self.store[oid] = content

    def is_fresh(self, ref):
        return ref.oid in self.fresh_oids
