"""C20 / C13 (cleaner part): contracts of the ten `Parameter.clean` methods, verified over every Val.

TYPED, RAISES_ONLY, PURE, DETERMINISTIC, IDEMPOTENT - see DESIGN section 6 (C20)."""
import z3

from . import smt, spec as S
from .dyn import (
    Val, dyn, IS_COMMAND, IS_ARGUMENT, IS_NDARRAY, IS_PARAM, HAS_FUZZY, FLD, ISABS, PJOIN, EXISTS, PY_STR, CLEAN_OK, CLEAN_VAL,
    ACCEPTS, HAS_ACCEPTS, CLASS_OF, SUBCLASS, DKEYS, DGET, VT_HASVAL, VT_HASKEY, VT_GET, CMD_HAS, CMD_GET, INTLIT, FLOATLIT,
    STR2INT, STR2F, is_number, py_eq, make_symmap, hashable, pystr,
)
from .state import State
from .values import Unsupported, Sym, Ref, PyList, SeqV, PyDict, Obj, ClassV, Raised, ExcSym, TupleV

PARAMS = "mpilot/params.py"
FAMILY = ["ParameterNotValid", "PathDoesNotExist", "InvalidRelativePath", "ResultDoesNotExist", "ResultTypeNotValid",
          "ResultNotFuzzy", "ResultIsFuzzy"]


def param_classes(repo):
    mod = repo.modules[PARAMS]
    out = []
    for ci in mod.classes.values():
        if repo.is_subclass(ci, "Parameter") and repo.find_method(ci, "clean") is not None:
            out.append(ci)
    return out


class Setup(object):
    """symbolic arguments of one `clean` call"""

    def __init__(self, eng, ci, st=None):
        self.eng, self.ci = eng, ci
        st = st or State()
        st.add_cell("c")
        st.kterms.append(z3.IntVal(0))
        self.st = st
        self.v = smt.fresh("raw_value", Val)
        self.lineno = Sym("dyn", smt.fresh("lineno", Val))
        # self
        fields = {"required": Sym("dyn", smt.fresh("self_required", Val))}
        self.self_ref = st.alloc(Obj(ClassV(ci.name, ci), fields), fresh=False)
        self.self_term = Val.O(z3.IntVal(-self.self_ref.oid))
        self.must_exist = smt.fresh("self_must_exist", z3.BoolSort())
        self.is_fuzzy = smt.fresh("self_is_fuzzy", Val)
        self.output_type = smt.fresh("self_output_type", Val)
        self.value_type = smt.fresh("self_value_type", Val)
        fields.update({
            "must_exist": Sym("bool", self.must_exist),
            "is_fuzzy": Sym("dyn", self.is_fuzzy),
            "output_type": Sym("dyn", self.output_type),
            "value_type": Sym("dyn", self.value_type),
            "valid_types": make_symmap(st, "valid_types", self.self_term),
        })
        st.store[self.self_ref.oid] = Obj(ClassV(ci.name, ci), fields)
        # class invariants of parameter objects (checked over the declaration tables: every ResultParameter /
        # ListParameter in an `inputs` literal is built with Parameter instances, is_fuzzy in {None, True, False})
        st.assume(z3.Or(Val.is_N(self.is_fuzzy), Val.is_B(self.is_fuzzy)))
        st.assume(z3.Or(Val.is_N(self.output_type), z3.And(Val.is_O(self.output_type), IS_PARAM(Val.ref(self.output_type)))))
        st.assume(z3.And(Val.is_O(self.value_type), IS_PARAM(Val.ref(self.value_type))))
        # program
        self.wd = smt.fresh("working_dir", Val)
        st.assume(z3.Or(Val.is_N(self.wd), Val.is_S(self.wd)))
        self.prog_ref = st.alloc(Obj(ClassV("Program"), {}), fresh=False)
        self.prog_term = Val.O(z3.IntVal(-self.prog_ref.oid))
        st.store[self.prog_ref.oid] = Obj(ClassV("Program"), {"working_dir": Sym("dyn", self.wd),
                                                              "commands": make_symmap(st, "commands", self.prog_term)})
        st.assume(z3.Length(DKEYS(z3.IntVal(0))) == 0)  # dict id 0 is the empty dict literal
        self.base_log = len(st.log)

    def env(self, value_term):
        return {"self": self.self_ref, "value": Sym("dyn", value_term), "program": self.prog_ref, "lineno": self.lineno}


def result_term(eng, st, r):
    """the returned value as a Val term (lists built by the comprehension get an extensional description)"""
    if isinstance(r, Ref):
        o = st.get(r)
        if isinstance(o, PyList) and o.seq is not None:
            seq = o.seq
            sq = seq.meta.get("as_seq")
            if sq is None:
                sq = smt.fresh("result_items", z3.SeqSort(Val))
                seq.meta["as_seq"] = sq
                st.assume(z3.Length(sq) == seq.n)
                st.assume_all_k(lambda k, seq=seq, sq=sq: z3.Implies(z3.And(k >= 0, k < seq.n), sq[k] == eng.to_dyn(st, seq.get(k))))
            return Val.L(sq)
        if isinstance(o, Obj) and o.cls.name == "SymDict":
            return o.fields["term"]
    return eng.to_dyn(st, r)


# --------------------------------------------------------------------------- TYPED predicates (from the property statement)
def typed(eng, su, st, name, v, r):
    """z3 Bool: the value r returned by <name>.clean(v) has the documented type."""
    if name == "Parameter":
        return r == v
    if name == "StringParameter":
        return z3.And(Val.is_S(r), z3.Implies(Val.is_S(v), r == v))
    if name == "NumberParameter":
        return z3.And(is_number(r),
                      z3.Implies(is_number(v), r == v),  # integers stay integers, decimals stay decimals
                      z3.Implies(z3.And(Val.is_S(v), INTLIT(Val.sval(v))), r == Val.I(STR2INT(Val.sval(v)))),
                      z3.Implies(z3.And(Val.is_S(v), z3.Not(INTLIT(Val.sval(v)))), z3.And(FLOATLIT(Val.sval(v)), r == Val.F(STR2F(Val.sval(v))))))
    if name == "BooleanParameter":
        return z3.And(Val.is_B(r), z3.Implies(Val.is_B(v), r == v),
                      z3.Implies(Val.is_I(v), Val.bval(r) == (Val.ival(v) != 0)))
    if name == "PathParameter":
        wd = su.wd
        s = pystr(v)
        return z3.And(Val.is_S(r),
                      z3.Implies(ISABS(s), Val.sval(r) == s),
                      z3.Implies(z3.Not(ISABS(s)), z3.And(Val.is_S(wd), Val.sval(r) == PJOIN(Val.sval(wd), s))),
                      z3.Implies(su.must_exist, EXISTS(Val.sval(r))))
    if name == "ResultParameter":
        ref = Val.ref(r)
        fz = eng.dyn_truthy(z3.If(HAS_FUZZY(ref), FLD("is_fuzzy")(ref), Val.B(False)))
        want_true = z3.And(Val.is_B(su.is_fuzzy), Val.bval(su.is_fuzzy))
        want_false = z3.And(Val.is_B(su.is_fuzzy), z3.Not(Val.bval(su.is_fuzzy)))
        return z3.And(Val.is_O(r), IS_COMMAND(ref),
                      z3.Implies(Val.is_S(v), z3.And(CMD_HAS(su.prog_term, Val.sval(v)), ref == CMD_GET(su.prog_term, Val.sval(v)))),
                      z3.Implies(z3.Not(Val.is_S(v)), r == v),
                      z3.Implies(want_true, fz), z3.Implies(want_false, z3.Not(fz)))
    if name == "ListParameter":
        return z3.And(Val.is_L(r), Val.is_L(v))  # only a list has the declared kind; item-wise content is checked separately (typed-items)
    if name == "TupleParameter":
        # only a tuple expression (dict) or the empty list `[]` has the declared kind
        return z3.And(Val.is_D(r), z3.Or(Val.is_D(v), z3.And(Val.is_L(v), z3.Length(Val.items(v)) == 0)))
    if name == "DataParameter":
        return z3.And(r == v, Val.is_O(r), IS_NDARRAY(Val.ref(r)))
    if name == "DataTypeParameter":
        # a type of the table, obtained from exactly one of its names (the consumers of the raw text rely on the exact spelling) or given as such a type
        return z3.And(VT_HASVAL(su.self_term, r),
                      z3.Or(z3.And(VT_HASKEY(su.self_term, v), r == VT_GET(su.self_term, v)), z3.And(Val.is_T(v), r == v)))
    raise Unsupported("no TYPED predicate for %s" % name)


ABSTRACT_AXIOMS_NOTE = ("behavioural contract assumed for sub-parameters (value_type / output_type), proved for each of the ten "
                        "classes: clean raises only the parameter-error family, never returns an Argument object, is deterministic "
                        "(a function of value and heap) and idempotent")


def abstract_instances(formulas):
    """instances of the assumed behavioural contract of sub-parameters at every CLEAN_VAL(p, x) the query mentions"""
    seen = {}

    def rec(e):
        if e.get_id() in seen:
            return
        seen[e.get_id()] = e
        for c in e.children():
            rec(c)

    for f in formulas:
        rec(f)
    out = []
    for e in list(seen.values()):
        if z3.is_app(e) and e.decl().eq(CLEAN_VAL):
            p, x = e.arg(0), e.arg(1)
            ok = CLEAN_OK(p, x)
            out.append(z3.Implies(ok, z3.And(z3.Not(z3.And(Val.is_O(e), IS_ARGUMENT(Val.ref(e)))),
                                             CLEAN_OK(p, e), CLEAN_VAL(p, e) == e)))
    return out


@S.loop(PARAMS + "::ListParameter.clean", "comp", 0)
class ListCleanComp(S.LoopContract):
    """after j items: $out holds the cleaned items 0..j-1, all of which cleaned successfully"""

    def inv(self, I):
        I.temps("item")
        eng, st = I.eng, I.st
        su = eng.psetup
        items = Val.items(su.cur_value)
        vt = su.value_type
        j = I.j

        def arg(k):
            it = items[k]
            return z3.If(z3.And(Val.is_O(it), IS_ARGUMENT(Val.ref(it))), FLD("value")(Val.ref(it)), it)

        I.covered.add("$out")
        if I.mode == "check":
            out = st.get(st.env["$out"])
            seq = eng.list_seq(out)
            eng.oblige(st, I.label + "/out:len", seq.n == j, kind="invariant")
            k = st.add_k("k_inv")
            eng.oblige(st, I.label + "/out:items", z3.Implies(z3.And(k >= 0, k < j), z3.And(
                CLEAN_OK(vt, arg(k)), eng.to_dyn(st, seq.get(k)) == CLEAN_VAL(vt, arg(k)))), kind="invariant")
        else:
            st.env["$out"] = st.alloc(PyList(seq=SeqV(j, lambda k: dyn(CLEAN_VAL(vt, arg(k))))))
            st.assume_all_k(lambda k: z3.Implies(z3.And(k >= 0, k < j), CLEAN_OK(vt, arg(k))))


def _exc_name(st, exc):
    if isinstance(exc, ExcSym):
        return None
    return st.get(exc).cls.name


def run_clean(eng, su, fi, st, value_term):
    eng.psetup = su
    su.cur_value = value_term
    outs = []
    for s1, out in eng.run_function(fi, st, su.env(value_term), cls=fi.cls):
        outs.append((s1, out))
    return outs


def verify_cleaner(eng, ci):
    """all C20/C13 obligations of ci.clean"""
    repo = eng.repo
    fi = repo.find_method(ci, "clean")
    eng.current = fi
    name = ci.name
    label = "%s::%s.clean" % (PARAMS, name)
    su = Setup(eng, ci)
    st0 = su.st
    if name == "PathParameter":
        pass
    outs = run_clean(eng, su, fi, st0.fork(), su.v)
    meta = lambda c: {"clause": c, "param_class": name}
    hyp_extra = lambda s, goal: abstract_instances(s.hyps() + [goal])

    def oblige(s, nm, goal, clause):
        for a in hyp_extra(s, goal):
            s.assume(a)
        return eng.oblige(s, label + "/" + nm, goal, kind="ensures", meta=meta(clause), assume_after=False)

    returning = []
    for s1, out in outs:
        effects = [ev for ev in s1.log[su.base_log:] if ev[0] == "effect"]
        if out[0] == "raise":
            exc = out[1]
            nm = _exc_name(s1, exc)
            if isinstance(exc, ExcSym):
                ok = eng.class_is_subclass(ClassV(exc.base, eng.find_exc_class(exc.base)), "ProgramError")
                eng.results.append({"name": label + "/raises_only:sub-parameter-error", "kind": "raises", "status": "unsat" if ok else "sat",
                                    "backend": "syntactic", "time_s": 0, "function": fi.key, "clause": "raises_only", "param_class": name})
            elif nm in FAMILY:
                eng.results.append({"name": label + "/raises_only:%s" % nm, "kind": "raises", "status": "unsat", "backend": "syntactic",
                                    "time_s": 0, "function": fi.key, "clause": "raises_only", "param_class": name})
                # the error carries the line it was given (C11)
                o = s1.get(exc)
                ln = o.fields.get("lineno")
                same = ln is su.lineno or (isinstance(ln, Sym) and ln.kind == "dyn" and ln.t.eq(su.lineno.t))
                eng.results.append({"name": label + "/raises:%s:lineno" % nm, "kind": "raises", "status": "unsat" if same else "sat",
                                    "backend": "syntactic", "time_s": 0, "function": fi.key, "clause": "lineno", "param_class": name})
            else:
                # a raw exception escaping the cleaner: must be an infeasible path
                eng.oblige(s1, label + "/raises_only(%s)" % nm, z3.BoolVal(False), kind="raises", meta=meta("raises_only"), assume_after=False)
        else:
            r = out[1]
            try:
                rt = result_term(eng, s1, r)
            except Unsupported as e:
                eng.results.append({"name": label + "/typed", "kind": "ensures", "status": "unknown", "backend": "engine", "time_s": 0,
                                    "function": fi.key, "clause": "typed", "reason": str(e), "param_class": name})
                continue
            oblige(s1, "typed", typed(eng, su, s1, name, su.v, rt), "typed")
            if name == "ListParameter":
                o = s1.get(r)
                seq = eng.list_seq(o)
                k = s1.add_k("k_items")
                items = Val.items(su.v)
                it = items[k]
                arg = z3.If(z3.And(Val.is_O(it), IS_ARGUMENT(Val.ref(it))), FLD("value")(Val.ref(it)), it)
                oblige(s1, "typed-items", z3.And(seq.n == z3.Length(items), z3.Implies(z3.And(k >= 0, k < seq.n), z3.And(
                    CLEAN_OK(su.value_type, arg), eng.to_dyn(s1, seq.get(k)) == CLEAN_VAL(su.value_type, arg)))), "typed")
            if name == "TupleParameter" and isinstance(r, Ref) and isinstance(s1.get(r), Obj) and s1.get(r).cls.name == "SymDict":
                d = s1.get(r)
                k = s1.add_k("k_items")
                keys = DKEYS(Val.did(su.v))
                oblige(s1, "typed-items", z3.And(d.fields["n"] == z3.Length(keys), z3.Implies(z3.And(k >= 0, k < d.fields["n"]), z3.And(
                    d.fields["key"](k) == Val.S(pystr(keys[k])), d.fields["val"](k) == Val.S(pystr(DGET(Val.did(su.v), keys[k])))))), "typed")
            returning.append((s1, r, rt))
        eng.results.append({"name": label + "/pure", "kind": "frame", "status": "unsat" if not effects else "sat", "backend": "event-log",
                            "time_s": 0, "function": fi.key, "clause": "pure", "goal": str(effects[:2]), "param_class": name})
    eng.results.append({"name": label + "/paths", "kind": "cover", "status": "unsat" if outs else "sat", "backend": "engine", "time_s": 0,
                        "function": fi.key, "clause": "cover", "paths": len(outs), "param_class": name})
    # ---- DETERMINISTIC: a second execution from the same state and value has the same outcome
    outs2 = run_clean(eng, su, fi, st0.fork(), su.v)
    for (s1, o1) in outs:
        for (s2, o2) in outs2:
            both = s1.fork()
            for f in s2.pc[len(st0.pc):]:
                both.assume(f)
            both.khyps.extend(s2.khyps[len(st0.khyps):])
            for k in s2.kterms:
                both.note_k(k)
            if not eng.feasible(both):
                continue
            if o1[0] != o2[0]:
                oblige(both, "deterministic:same-outcome-kind", z3.BoolVal(False), "deterministic")
            elif o1[0] == "raise":
                n1, n2 = _exc_name(s1, o1[1]), _exc_name(s2, o2[1])
                oblige(both, "deterministic:same-exception", z3.BoolVal(n1 == n2), "deterministic")
            else:
                def content(s, v):
                    return s.get(v) if isinstance(v, Ref) else None

                c1, c2 = content(s1, o1[1]), content(s2, o2[1])
                if isinstance(c1, PyDict) and isinstance(c2, PyDict):
                    oblige(both, "deterministic:same-result", z3.BoolVal(not c1.entries and not c2.entries), "deterministic")
                    continue
                if name == "ListParameter" and isinstance(o1[1], Ref) and isinstance(o2[1], Ref):
                    q1, q2 = eng.list_seq(s1.get(o1[1])), eng.list_seq(s2.get(o2[1]))
                    k = both.add_k("k_det")
                    goal = z3.And(q1.n == q2.n, z3.Implies(z3.And(k >= 0, k < q1.n), eng.to_dyn(both, q1.get(k)) == eng.to_dyn(both, q2.get(k))))
                elif name == "TupleParameter" and (isinstance(c1, Obj) or isinstance(c2, Obj)):
                    d1, d2 = c1, c2
                    if isinstance(d1, Obj) and isinstance(d2, Obj) and d1.cls.name == "SymDict" and d2.cls.name == "SymDict":
                        k = both.add_k("k_det")
                        goal = z3.And(d1.fields["n"] == d2.fields["n"], z3.Implies(z3.And(k >= 0, k < d1.fields["n"]), z3.And(
                            d1.fields["key"](k) == d2.fields["key"](k), d1.fields["val"](k) == d2.fields["val"](k))))
                    else:
                        goal = z3.BoolVal(False)
                else:
                    try:
                        goal = py_eq(result_term(eng, s1, o1[1]), result_term(eng, s2, o2[1]))
                    except Unsupported:
                        continue
                oblige(both, "deterministic:same-result", goal, "deterministic")
    # ---- IDEMPOTENT: cleaning the cleaned value returns it unchanged
    for (s1, r, rt) in returning:
        s1 = s1.fork()
        if name == "PathParameter":
            # "for paths: under an absolute working directory"
            s1.assume(z3.Implies(Val.is_S(su.wd), ISABS(Val.sval(su.wd))))
        if name == "TupleParameter" and isinstance(r, Ref) and isinstance(s1.get(r), Obj) and s1.get(r).cls.name == "SymDict":
            d = s1.get(r)
            did = Val.did(rt)
            s1.assume(z3.Length(DKEYS(did)) == d.fields["n"])
            s1.assume_all_k(lambda k, d=d, did=did: z3.Implies(z3.And(k >= 0, k < d.fields["n"]), z3.And(
                DKEYS(did)[k] == d.fields["key"](k), DGET(did, DKEYS(did)[k]) == d.fields["val"](k))))
        for a in abstract_instances(s1.hyps() + [rt == rt]):
            s1.assume(a)
        outs3 = run_clean(eng, su, fi, s1, rt)
        for (s3, o3) in outs3:
            if o3[0] == "raise":
                for a in abstract_instances(s3.hyps()):
                    s3.assume(a)
                eng.oblige(s3, label + "/idempotent:second-clean-raises(%s)" % _exc_name(s3, o3[1]), z3.BoolVal(False), kind="ensures",
                           meta=meta("idempotent"), assume_after=False)
                continue
            r3 = o3[1]
            if name == "ListParameter" and isinstance(r3, Ref) and isinstance(r, Ref):
                q1, q3 = eng.list_seq(s3.get(r)), eng.list_seq(s3.get(r3))
                k = s3.add_k("k_idem")
                goal = z3.And(q1.n == q3.n, z3.Implies(z3.And(k >= 0, k < q1.n), eng.to_dyn(s3, q1.get(k)) == eng.to_dyn(s3, q3.get(k))))
            elif name == "TupleParameter" and isinstance(r3, Ref) and isinstance(s3.get(r3), Obj) and s3.get(r3).cls.name == "SymDict" \
                    and isinstance(r, Ref) and isinstance(s3.get(r), Obj) and s3.get(r).cls.name == "SymDict":
                d1, d3 = s3.get(r), s3.get(r3)
                k = s3.add_k("k_idem")
                goal = z3.And(d1.fields["n"] == d3.fields["n"], z3.Implies(z3.And(k >= 0, k < d1.fields["n"]), z3.And(
                    d1.fields["key"](k) == d3.fields["key"](k), d1.fields["val"](k) == d3.fields["val"](k))))
            elif name == "TupleParameter":
                a, b = s3.get(r) if isinstance(r, Ref) else None, s3.get(r3) if isinstance(r3, Ref) else None
                goal = z3.BoolVal(isinstance(a, PyDict) and isinstance(b, PyDict) and not a.entries and not b.entries)
            else:
                try:
                    goal = py_eq(result_term(eng, s3, r3), rt)
                except Unsupported as e:
                    goal = z3.BoolVal(False)
            oblige(s3, "idempotent:clean(clean(v))==clean(v)", goal, "idempotent")
    return eng.results


class StringCleanContract(object):
    """StringParameter.clean(value) = six.text_type(value): total, pure (used by PathParameter / DataTypeParameter via super())."""

    def apply(self, eng, st, f, args, kwargs):
        for r in eng.bi_str(st, [args[0]], {}):
            yield r


S.CONTRACTS[PARAMS + "::StringParameter.clean"] = StringCleanContract()
