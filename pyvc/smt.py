"""SMT layer: sorts, the dynamic-value datatype, query discharge (z3 primary, cvc5 second opinion)."""
import os
import subprocess
import tempfile
import time

import z3

# --------------------------------------------------------------------------- sorts
Cell = z3.DeclareSort("Cell")
Shape = z3.DeclareSort("Shape")
DT, (INT, FLT, BOOLDT) = z3.EnumSort("DT", ["INT", "FLT", "BOOLDT"])


def _mk_val():
    V = z3.Datatype("Val")
    V.declare("I", ("ival", z3.IntSort()))
    V.declare("F", ("fval", z3.RealSort()))
    V.declare("B", ("bval", z3.BoolSort()))
    V.declare("S", ("sval", z3.StringSort()))
    V.declare("N")
    V.declare("L", ("items", z3.SeqSort(z3.DatatypeSort("Val"))))
    V.declare("D", ("did", z3.IntSort()))  # dict, by identity; content through functions
    V.declare("O", ("ref", z3.IntSort()))  # object, by identity; fields through heap maps
    V.declare("T", ("tid", z3.IntSort()))  # a type / class object
    return V.create()


Val = _mk_val()

_counter = [0]


def fresh_name(prefix):
    _counter[0] += 1
    return "%s!%d" % (prefix, _counter[0])


def fresh(prefix, sort):
    return z3.Const(fresh_name(prefix), sort)


def fresh_fun(prefix, *sorts):
    return z3.Function(fresh_name(prefix), *sorts)


def rv(x):
    """Python number -> z3 Real value."""
    if isinstance(x, bool):
        return z3.RealVal(1 if x else 0)
    if isinstance(x, int):
        return z3.RealVal(x)
    if isinstance(x, float):
        from fractions import Fraction

        return z3.RealVal(str(Fraction(x)))
    return x


# --------------------------------------------------------------------------- discharge
RLIMIT_QUICK = int(os.environ.get("PYVC_RLIMIT", "40000000"))
CVC5_BIN = "/usr/bin/cvc5"


class Verdict(object):
    def __init__(self, status, backend, time_s, model=None, reason=None, smt2=None):
        self.status = status  # 'unsat' | 'sat' | 'unknown'
        self.backend = backend
        self.time_s = time_s
        self.model = model
        self.reason = reason
        self.smt2 = smt2


STATS = {"queries": 0, "z3_time": 0.0, "cvc5_time": 0.0, "z3": 0, "cvc5": 0}


def _to_smt2(hyps, goal_neg):
    s = z3.Solver()
    for h in hyps:
        s.add(h)
    s.add(goal_neg)
    return s.to_smt2()


def cvc5_check(smt2, strings=False, tlimit_ms=20000):
    """Run the cvc5 CLI on an SMT-LIB2 text. Returns 'unsat'|'sat'|'unknown'."""
    txt = smt2
    if "(set-logic" not in txt:
        txt = "(set-logic ALL)\n" + txt
    with tempfile.NamedTemporaryFile("w", suffix=".smt2", delete=False, dir=os.environ.get("PYVC_WORK", None)) as f:
        f.write(txt)
        path = f.name
    try:
        args = [CVC5_BIN, "--lang=smt2", "--tlimit=%d" % tlimit_ms]
        if strings:
            args.append("--strings-exp")
        args.append(path)
        t0 = time.time()
        p = subprocess.run(args, capture_output=True, text=True, timeout=tlimit_ms / 1000.0 + 10)
        STATS["cvc5_time"] += time.time() - t0
        out = (p.stdout or "").strip().splitlines()
        for line in out:
            if line.strip() in ("unsat", "sat", "unknown"):
                return line.strip()
        return "unknown"
    except Exception:
        return "unknown"
    finally:
        try:
            os.unlink(path)
        except OSError:
            pass


DIVF = z3.Function("div_abs", z3.RealSort(), z3.RealSort(), z3.RealSort())


def abstract_div(e, cache):
    """Replace every real division a/b by the uninterpreted DIVF(a,b).  The result is implied-satisfiable by the
    original (interpret DIVF as division), so `unsat` of the abstraction is `unsat` of the original."""
    k = e.get_id()
    if k in cache:
        return cache[k]
    if z3.is_app(e):
        ch = [abstract_div(c, cache) for c in e.children()]
        if e.decl().kind() == z3.Z3_OP_DIV and e.sort() == z3.RealSort() and not z3.is_rational_value(e):
            r = DIVF(ch[0], ch[1])
        elif ch:
            try:
                r = e.decl()(*ch)
            except Exception:
                r = e
        else:
            r = e
    else:
        r = e
    cache[k] = r
    return r


def has_div(es):
    seen = set()

    def rec(e):
        if e.get_id() in seen:
            return False
        seen.add(e.get_id())
        if z3.is_app(e):
            if e.decl().kind() == z3.Z3_OP_DIV and not z3.is_rational_value(e):
                return True
            return any(rec(c) for c in e.children())
        return False

    return any(rec(e) for e in es)


QUANT = {"on": False}


def check_quantified(hyps, goal, rlimit=None, want_model=True):
    """Queries with genuinely quantified hypotheses (heap invariants): stage 1 refutes by E-matching only (MBQI off,
    fast and decisive for `unsat`); only if that fails, stage 2 lets MBQI look for a model."""
    STATS["queries"] += 1
    for stage, (mbqi, rl) in enumerate(((False, rlimit or 8000000), (True, int(os.environ.get('PYVC_MBQI_RLIMIT', '12000000'))))):
        s = z3.Solver()
        s.set("rlimit", rl)
        s.set("smt.mbqi", mbqi)
        for h in hyps:
            s.add(h)
        s.add(z3.Not(goal))
        t0 = time.time()
        r = s.check()
        dt = time.time() - t0
        STATS["z3_time"] += dt
        if r == z3.unsat:
            STATS["z3"] += 1
            return Verdict("unsat", "z3(e-matching)" if not mbqi else "z3(mbqi)", dt)
        if r == z3.sat and mbqi:
            return Verdict("sat", "z3(mbqi)", dt, model=s.model() if want_model else None)
    return Verdict("unknown", "z3", dt, reason="not refuted by E-matching; MBQI found no model within the resource limit: %s" % s.reason_unknown())


def check(hyps, goal, rlimit=None, want_model=True, use_cvc5=True, strings=False, seed=0):
    """Is `And(hyps) -> goal` valid?  unsat = discharged."""
    if QUANT["on"]:
        if isinstance(goal, bool):
            goal = z3.BoolVal(goal)
        return check_quantified([z3.BoolVal(h) if isinstance(h, bool) else h for h in hyps], goal, rlimit, want_model)
    STATS["queries"] += 1
    if isinstance(goal, bool):
        goal = z3.BoolVal(goal)
    hyps = [z3.BoolVal(h) if isinstance(h, bool) else h for h in hyps]
    if has_div(hyps + [goal]):
        cache = {}
        try:
            ah = [abstract_div(h, cache) for h in hyps]
            ag = abstract_div(goal, cache)
            s0 = z3.Solver()
            s0.set("rlimit", (rlimit or RLIMIT_QUICK) // 4)
            s0.set("timeout", int(os.environ.get("PYVC_TIMEOUT_MS", "120000")) // 4)
            for h in ah:
                s0.add(h)
            s0.add(z3.Not(ag))
            t0 = time.time()
            r0 = s0.check()
            dt0 = time.time() - t0
            STATS["z3_time"] += dt0
            if r0 == z3.unsat:
                STATS["z3"] += 1
                STATS["div_abstracted"] = STATS.get("div_abstracted", 0) + 1
                return Verdict("unsat", "z3(div-abstracted)", dt0)
        except z3.Z3Exception:
            pass
    s = z3.Solver()
    s.set("rlimit", rlimit or RLIMIT_QUICK)
    # a wall-clock cap as well: some non-linear queries burn little `rlimit` per second (a changed body with numpy.isclose took
    # minutes per VC); an obligation that needs longer than this is reported undecided
    s.set("timeout", int(os.environ.get("PYVC_TIMEOUT_MS", "120000")))
    if seed:
        s.set("random_seed", seed)
    for h in hyps:
        s.add(h)
    s.add(z3.Not(goal))
    t0 = time.time()
    r = s.check()
    dt = time.time() - t0
    STATS["z3_time"] += dt
    if r == z3.unsat:
        STATS["z3"] += 1
        return Verdict("unsat", "z3", dt)
    if r == z3.sat:
        return Verdict("sat", "z3", dt, model=s.model() if want_model else None)
    reason = s.reason_unknown()
    if use_cvc5:
        try:
            smt2 = s.to_smt2()
            r2 = cvc5_check(smt2, strings=strings)
            if r2 == "unsat":
                STATS["cvc5"] += 1
                return Verdict("unsat", "cvc5", dt)
            if r2 == "sat":
                return Verdict("sat", "cvc5", dt, reason="cvc5 sat (no model extracted)", smt2=smt2)
        except Exception as e:  # pragma: no cover
            reason = "%s; cvc5 failed: %s" % (reason, e)
    return Verdict("unknown", "z3", dt, reason=reason)


def satisfiable(hyps, rlimit=None, timeout_ms=None):
    """Cover / vacuity query: are the hypotheses satisfiable? returns 'sat'|'unsat'|'unknown'."""
    STATS["queries"] += 1
    s = z3.Solver()
    s.set("rlimit", rlimit or RLIMIT_QUICK)
    if QUANT["on"]:
        s.set("smt.mbqi", False)  # pruning only: unknown keeps the path
    if timeout_ms:
        s.set("timeout", timeout_ms)
    for h in hyps:
        s.add(h)
    t0 = time.time()
    r = s.check()
    STATS["z3_time"] += time.time() - t0
    return str(r)
