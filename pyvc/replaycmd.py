"""./check <ID> --replay <file>: re-runs what a replay file records against the current tree.

* a file with a concrete input: the input is run on the real code again and judged by the same oracle that reported it
  (exit 1 + VIOLATION line if it still fails, 0 if not);
* a file without one (a refuted / no longer discharged obligation over symbolic or quantified state): the obligations of the
  property are generated again from the current source and the named obligation is looked up (exit 1 if it is still not
  discharged, 0 if it is, 2 if it no longer exists)."""
import json
import os

from .extract import REPO
from .report import HERE


def _print(x):
    print(json.dumps(x, indent=1, default=str)[:6000])


def judge_case(prop, case, body):
    """(outcome, list of violated clause tags) for a recorded concrete input; None if this kind of input is unknown"""
    root = REPO
    if isinstance(case, dict) and "class" in case and "inputs" in case and case.get("then"):
        from . import cmdprops, replay as R

        o = R.run_real([case], repo_root=root)[0]
        return o.get("then"), [b[0] for b in cmdprops.judge_immutability(case, o)]
    if isinstance(case, dict) and "class" in case and "inputs" in case and case.get("reorder"):
        from . import cmdprops, replay as R

        o = R.run_real([case], repo_root=root)[0]
        return {"listed": o.get("result"), "reordered": o.get("reordered")}, [b[0] for b in cmdprops.judge_reorder(case, o)]
    if isinstance(case, dict) and "class" in case and "inputs" in case and body.get("obligation", "").endswith("bounded:inputs-unchanged-when-rejected"):
        from . import replay as R

        o = R.run_real([case], repo_root=root)[0]
        return {"before": o.get("inputs_before"), "after": o.get("inputs_after")}, (["frame"] if o.get("inputs_after") != o.get("inputs_before") else [])
    if isinstance(case, dict) and "class" in case and "inputs" in case and body.get("obligation", "").endswith("bounded:shape-of-every-input"):
        from . import cmdprops, replay as R

        o = R.run_real([case], repo_root=root)[0]
        return o.get("result") or o.get("exc_class"), [b[0] for b in cmdprops.judge_shape_confusion(case, o)]
    if isinstance(case, dict) and "class" in case and "inputs" in case:
        from . import cmdprops

        (e, o, bad) = cmdprops.evaluate_cases([(case["class"], case)], root)[0]
        return {"expected": e, "real": o}, [b[0] for b in (bad or [])]
    if isinstance(case, dict) and "cls" in case and "ctor" in case:
        from . import paramcases

        o = paramcases.run_real([case], root)[0]
        return o, [b[0] for b in paramcases.violated(case, o)]
    if isinstance(case, dict) and "sources" in case and "files" not in case:
        from . import parsecases

        c = dict(case)
        c.setdefault("same_parser", False)
        o = parsecases.run_real([c], root)[0]
        if "corruption" in c:
            return o, [b[0] for b in parsecases.judge_corruption(c, o)]
        if "expected" in c:
            return o, [b[0] for b in parsecases.judge(c, o)]
        return o, (["value"] if any(x.get("outcome") != "ok" for x in o) else [])
    if isinstance(case, dict) and "history" in case and "final" in case:
        from . import libprops

        c = dict(case, packages=libprops.PKGS)
        o = libprops.run_real([c], root)[0]
        return o, [b[0] for b in libprops.judge(c, o)]
    if isinstance(case, dict) and str(case.get("kind", "")).endswith("_reread"):
        from . import iocases

        o = iocases.run_real([case], root)[0]
        return o, [b[0] for b in iocases.judge_reread(case, o)]
    if isinstance(case, dict) and str(case.get("kind", "")).startswith(("csv_", "nc_")):
        from . import iocases

        o = iocases.run_real([case], root)[0]
        if prop == "C09":
            return {"before": o.get("inputs_before"), "after": o.get("inputs_after")}, (["frame"] if o.get("inputs_after") != o.get("inputs_before") else [])
        j = iocases.judge_csv if case["kind"].startswith("csv_") else iocases.judge_nc
        return o, [b[0] for b in j(case, o)]
    if isinstance(case, dict) and "commands" in case and "actions" in case:
        from . import progcases

        o = progcases.run_real([case], root)[0]
        return o, [b[0] for b in progcases.judge_graph(case, o)]
    if isinstance(case, dict) and case.get("mode") in ("source", "api") and ("commands" in case or "source" in case) and "files" not in case:
        from . import rtcases

        o = rtcases.run_real([case], root)[0]
        return o, [b[0] for b in rtcases.judge(case, o)]
    if isinstance(case, dict) and "v2" in case and "v3" in case:
        from . import convprops

        o = convprops.run_v2([case], root)[0]
        return o, (["convert"] if (o["v2"] != o["v3"] or o["v2"]["outcome"] != "ok") else [])
    if isinstance(case, dict) and "exception_class" in case:
        import subprocess
        import tempfile
        from . import replay as R

        out = tempfile.mktemp(suffix=".exc.json", dir=R.workdir())
        subprocess.run([R.VENV_PY, os.path.join(R.HERE, "runner", "run_exceptions.py"), out, root], capture_output=True, text=True, timeout=600)
        d = json.load(open(out))
        os.unlink(out)
        recs = [r for r in d if r["cls"] == case["exception_class"]] if isinstance(d, list) else []
        fails = recs[0]["failures"] if recs else []
        return fails[:3], sorted(set(f["stage"] for f in fails))
    if isinstance(case, dict) and "source" in case and "files" in case:
        from . import loadcases as L

        o = L.run_real([case], root, workers=1)[0]
        label = str(case.get("label", ""))
        if case.get("model") is not None and isinstance(case.get("model"), dict):
            from . import evalcases as E

            return {k: v for k, v in o.items() if k != "results"}, [b[0] for b in E.judge(case["model"], case, o)]
        if case.get("expect_cyclic"):
            return o, [b[0] for b in L.judge_cyclic(case, o)]
        if label.startswith("command-line:"):
            return o, [b[0] for b in L.judge_cmdline(case, o)]
        if case.get("mode") == "cli":
            return o, [b[0] for b in L.judge_cli(case, o)]
        if "expect" in case:
            return o, [b[0] for b in L.judge_fault(case, o)]
        return o, [b[0] for b in L.judge_escape(case, o)]
    return None


def replay(prop, path):
    p = path if os.path.isabs(path) else os.path.join(HERE, path)
    body = json.load(open(p))
    prop = body.get("property", prop)
    case = body.get("concrete_input")
    if case:
        res = judge_case(prop, case, body)
        if res is not None:
            out, bad = res
            _print({"obligation": body.get("obligation"), "real": out, "violated": bad})
            want = set(body.get("violated_clauses") or [])
            still = [b for b in bad if not want or b in want] or bad
            if still:
                print("VIOLATION property=%s replay=%s" % (prop, path))
                return 1
            if body.get("confirmed_on_real_code"):
                print("the recorded input no longer violates the property on the current tree")
                return 0
            print("the recorded counter-model does not fail on the real code (it was never confirmed there): checking the obligation itself")
    # no concrete input (or an input of a kind only the full check can judge): generate the obligations again and look the named one up
    from . import props

    seed = int(os.environ.get("VERIF_SEED", "0") or 0)
    rep = props.run(prop, os.environ.get("VERIF_TIER", "quick"), seed)
    name = body.get("obligation")
    o = rep.obligations.get(name)
    failing = [v for v in rep.violations if v.get("obligation") == name]
    undec = [u for u in rep.undecided if u.get("obligation") == name]
    print("obligation: %s" % name)
    print("recorded verifier output: %s" % body.get("solver_output"))
    if failing or (o is not None and o["status"] == "refuted"):
        print("still refuted on the current tree")
        print("VIOLATION property=%s replay=%s no-failing-input-found" % (prop, path))
        return 1
    if undec or (o is not None and o["status"] != "discharged"):
        known = rep.load_ledger() or []
        if name in known:
            print("discharged on the unchanged tree (ledger), not discharged now")
            print("VIOLATION property=%s replay=%s no-failing-input-found" % (prop, path))
            return 1
        print("undecided on the current tree")
        return 2
    if o is None:
        print("the obligation is no longer generated from the current source")
        return 2
    print("discharged on the current tree")
    return 0
