"""Expression evaluation part of the executor."""
import ast

import z3

from . import smt
from .values import (
    Unsupported, Sym, Ref, TupleV, FuncV, LambdaV, BuiltinV, ClassV, ModuleV, SuperV, Raised, ExcSym,
    PyList, SeqV, PyDict, Bag, Obj, ArrState, DataView, MaskView, Idx, StackState, Slice, is_concrete, num_term, isint_of,
    is_num, zand, zor, znot,
)

KNOWN_EXT_MODULES = {"numpy", "numpy.ma", "os", "os.path", "sys", "six", "copy", "csv", "functools", "packaging",
                     "packaging.version", "pkgutil", "importlib", "click", "traceback", "collections", "numbers"}


class ExprMixin(object):
    # ------------------------------------------------------------ helpers
    def ev_list(self, exprs, st):
        if not exprs:
            yield st, []
            return
        for st1, v in self.ev(exprs[0], st):
            if isinstance(v, Raised):
                yield st1, v
                continue
            for st2, rest in self.ev_list(exprs[1:], st1):
                if isinstance(rest, Raised):
                    yield st2, rest
                else:
                    yield st2, [v] + rest

    def ev(self, node, st):
        m = getattr(self, "ex_" + type(node).__name__, None)
        if m is None:
            raise Unsupported("expression %s at line %d" % (type(node).__name__, getattr(node, "lineno", 0)))
        for r in m(node, st):
            yield r

    def ev_truth(self, node, st):
        """Evaluate node for its truth value: yields (st, python bool | z3 Bool | Raised)."""
        if isinstance(node, ast.BoolOp):
            for r in self._boolop_truth(node.op, node.values, st):
                yield r
            return
        if isinstance(node, ast.UnaryOp) and isinstance(node.op, ast.Not):
            for st1, c in self.ev_truth(node.operand, st):
                if isinstance(c, Raised):
                    yield st1, c
                elif isinstance(c, bool):
                    yield st1, not c
                else:
                    yield st1, znot(c)
            return
        for st1, v in self.ev(node, st):
            if isinstance(v, Raised):
                yield st1, v
            else:
                for st2, t in self.truth(st1, v):
                    yield st2, t

    def _boolop_truth(self, op, values, st):
        if len(values) == 1:
            for r in self.ev_truth(values[0], st):
                yield r
            return
        for st1, c in self.ev_truth(values[0], st):
            if isinstance(c, Raised):
                yield st1, c
                continue
            for st2, taken in self.branch(st1, c):
                if isinstance(op, ast.And):
                    if taken:
                        for r in self._boolop_truth(op, values[1:], st2):
                            yield r
                    else:
                        yield st2, False
                else:
                    if taken:
                        yield st2, True
                    else:
                        for r in self._boolop_truth(op, values[1:], st2):
                            yield r

    def truth(self, st, v):
        """yields (st, python bool | z3 Bool | Raised)."""
        if v is None:
            yield st, False
        elif isinstance(v, bool):
            yield st, v
        elif isinstance(v, (int, float)):
            yield st, v != 0
        elif isinstance(v, str):
            yield st, len(v) > 0
        elif isinstance(v, Sym):
            if v.kind == "bool":
                yield st, v.t
            elif v.kind == "num":
                yield st, v.t != 0
            elif v.kind == "str":
                yield st, z3.Length(v.t) > 0
            elif v.kind == "dyn":
                yield st, self.dyn_truthy(v.t)
            else:
                raise Unsupported("truth of %r" % v)
        elif isinstance(v, TupleV):
            yield st, len(v.items) > 0
        elif isinstance(v, Ref):
            o = st.get(v)
            if isinstance(o, PyList):
                if o.items is not None:
                    yield st, len(o.items) > 0
                else:
                    yield st, o.seq.n > 0
            elif isinstance(o, PyDict):
                if o.present:
                    raise Unsupported("truth of dict with symbolic keys")
                yield st, len(o.entries) > 0
            elif isinstance(o, Bag):
                yield st, smt.fresh("bag_truth", z3.BoolSort())
            elif isinstance(o, Obj):
                yield st, True
            elif isinstance(o, ArrState):
                for r in self.call_builtin("arr.__bool__", st, [v], {}):
                    yield r
            else:
                raise Unsupported("truth of %r" % o)
        elif isinstance(v, (ClassV, FuncV, BuiltinV, ModuleV)):
            yield st, True
        else:
            raise Unsupported("truth of %r" % (v,))

    def dyn_truthy(self, t):
        V = smt.Val
        return z3.If(V.is_I(t), V.ival(t) != 0,
               z3.If(V.is_F(t), V.fval(t) != 0,
               z3.If(V.is_B(t), V.bval(t),
               z3.If(V.is_S(t), z3.Length(V.sval(t)) > 0,
               z3.If(V.is_N(t), False,
               z3.If(V.is_L(t), z3.Length(V.items(t)) > 0,
               z3.If(V.is_D(t), self.dict_len(V.did(t)) > 0, True)))))))

    # ------------------------------------------------------------ constants / names
    def ex_Constant(self, node, st):
        v = node.value
        if v is Ellipsis or isinstance(v, (bytes, complex)):
            raise Unsupported("constant %r" % (v,))
        yield st, v

    def ex_Name(self, node, st):
        yield st, self.lookup(node.id, st)

    def lookup(self, name, st):
        if name in st.env:
            return st.env[name]
        fi = st.env.get("__fi__")
        # closure
        clo = st.env.get("__closure__")
        if clo and name in clo:
            return clo[name]
        mod = fi.module if fi is not None else None
        if mod is not None:
            v = self.module_attr(mod, name, st, missing_ok=True)
            if v is not NotImplemented:
                return v
        return self.builtin_name(name)

    def builtin_name(self, name):
        from .engine import BUILTIN_EXC_BASES

        if name in BUILTIN_EXC_BASES:
            return ClassV(name)
        if name in ("str", "int", "float", "bool", "list", "tuple", "dict", "set", "object", "bytes", "type"):
            return ClassV(name)
        if name in ("True", "False", "None"):
            return {"True": True, "False": False, "None": None}[name]
        return BuiltinV(name)

    def module_attr(self, mod, name, st, missing_ok=False):
        if name in mod.classes:
            return ClassV(name, mod.classes[name])
        if name in mod.functions and "." not in name:
            return FuncV(mod.functions[name])
        if name in mod.globals:
            return self.const_eval(mod.globals[name], mod, st)
        if name in mod.imports:
            target, attr = mod.imports[name]
            if attr is None:
                return ModuleV(target)
            full = "%s.%s" % (target, attr)
            if full in self.repo.by_dotted:
                return ModuleV(full)
            tm = self.repo.by_dotted.get(target)
            if tm is not None:
                return self.module_attr(tm, attr, st)
            return self.external_attr(target, attr)
        if missing_ok:
            return NotImplemented
        raise Unsupported("module %s has no attribute %s" % (mod.dotted, name))

    def external_attr(self, modname, attr):
        full = "%s.%s" % (modname, attr)
        if full in KNOWN_EXT_MODULES:
            return ModuleV(full)
        if full == "six.PY3":
            return True
        if full == "six.text_type":
            return ClassV("str")
        if full == "six.string_types":
            return TupleV([ClassV("str")])
        if full == "numbers.Number":
            return ClassV("Number")
        if full == "numpy.ndarray":
            return ClassV("ndarray")
        if full in ("numpy.float64", "numpy.uint"):
            return ClassV(full)
        from .engine import BUILTIN_EXC_BASES

        if attr in BUILTIN_EXC_BASES:
            return ClassV(attr)
        return BuiltinV(full)

    def const_eval(self, node, mod, st):
        """Evaluate a module-level / default expression (must not fork or raise)."""
        saved = st.env
        st.env = {"__fi__": _FakeFi(mod)}
        before = set(st.fresh_oids)
        try:
            outs = list(self.ev(node, st))
        finally:
            st.env = saved
        # module-level objects pre-exist the call being verified: they are not fresh
        for s_, _ in outs:
            s_.fresh_oids -= (s_.fresh_oids - before)
        if len(outs) != 1 or isinstance(outs[0][1], Raised):
            raise Unsupported("non-constant module-level expression %s" % ast.unparse(node))
        return outs[0][1]

    # ------------------------------------------------------------ containers
    def ex_Tuple(self, node, st):
        if any(isinstance(e, ast.Starred) for e in node.elts):
            raise Unsupported("starred in tuple")
        for st1, vs in self.ev_list(node.elts, st):
            if isinstance(vs, Raised):
                yield st1, vs
            else:
                yield st1, TupleV(vs)

    def ex_List(self, node, st):
        for st1, vs in self.ev_list(node.elts, st):
            if isinstance(vs, Raised):
                yield st1, vs
            else:
                yield st1, st1.alloc(PyList(items=list(vs)))

    def ex_Dict(self, node, st):
        if any(k is None for k in node.keys):
            raise Unsupported("dict unpacking in literal")
        for st1, ks in self.ev_list(node.keys, st):
            if isinstance(ks, Raised):
                yield st1, ks
                continue
            for st2, vs in self.ev_list(node.values, st1):
                if isinstance(vs, Raised):
                    yield st2, vs
                    continue
                if not all(isinstance(k, (str, int)) for k in ks):
                    raise Unsupported("dict literal with symbolic keys")
                yield st2, st2.alloc(PyDict(dict(zip(ks, vs))))

    def ex_Set(self, node, st):
        raise Unsupported("set literal")

    # ------------------------------------------------------------ operators
    def ex_BoolOp(self, node, st):
        # value semantics of and/or: handled for truth-only contexts by ev_truth; here value context
        vals = node.values

        def go(i, s):
            for s1, v in self.ev(vals[i], s):
                if isinstance(v, Raised) or i == len(vals) - 1:
                    yield s1, v
                    continue
                for s2, t in self.truth(s1, v):
                    if isinstance(t, Raised):
                        yield s2, t
                        continue
                    for s3, taken in self.branch(s2, t):
                        stop = (not taken) if isinstance(node.op, ast.And) else taken
                        if stop:
                            yield s3, v
                        else:
                            for r in go(i + 1, s3):
                                yield r

        for r in go(0, st):
            yield r

    def ex_UnaryOp(self, node, st):
        if isinstance(node.op, ast.Not):
            for st1, c in self.ev_truth(node.operand, st):
                if isinstance(c, Raised):
                    yield st1, c
                elif isinstance(c, bool):
                    yield st1, not c
                else:
                    yield st1, Sym("bool", znot(c))
            return
        for st1, v in self.ev(node.operand, st):
            if isinstance(v, Raised):
                yield st1, v
                continue
            if isinstance(node.op, ast.USub):
                if isinstance(v, (int, float)) and not isinstance(v, bool):
                    yield st1, -v
                elif is_num(v):
                    yield st1, Sym("num", -num_term(v), isint_of(v))
                elif isinstance(v, Ref) and isinstance(st1.get(v), ArrState):
                    for r in self.call_builtin("arr.__neg__", st1, [v], {}):
                        yield r
                else:
                    raise Unsupported("unary minus on %r" % (v,))
            elif isinstance(node.op, ast.UAdd):
                yield st1, v
            else:
                raise Unsupported("unary op")

    def ex_BinOp(self, node, st):
        for st1, a in self.ev(node.left, st):
            if isinstance(a, Raised):
                yield st1, a
                continue
            for st2, b in self.ev(node.right, st1):
                if isinstance(b, Raised):
                    yield st2, b
                    continue
                for r in self.binop(st2, node.op, a, b):
                    yield r

    def is_arr(self, st, v):
        return (isinstance(v, Ref) and isinstance(st.get(v), ArrState)) or isinstance(v, (DataView, MaskView))

    def binop(self, st, op, a, b, inplace=False):
        opn = type(op).__name__
        # arrays
        if self.is_arr(st, a) or self.is_arr(st, b):
            for r in self.call_builtin("arr.binop", st, [opn, a, b, inplace], {}):
                yield r
            return
        # concrete fold
        if is_concrete(a) and is_concrete(b) and a is not None and b is not None:
            try:
                if opn == "Add":
                    yield st, a + b
                elif opn == "Sub":
                    yield st, a - b
                elif opn == "Mult":
                    yield st, a * b
                elif opn == "Div":
                    if b == 0:
                        yield self.raise_(st, "ZeroDivisionError", "division by zero")
                    else:
                        yield st, a / b
                elif opn == "Mod" and isinstance(a, str):
                    raise Unsupported("% formatting")
                else:
                    raise Unsupported("binop %s on constants" % opn)
            except TypeError:
                yield self.raise_(st, "TypeError", "unsupported operand")
            return
        if is_num(a) and is_num(b):
            x, y = num_term(a), num_term(b)
            ia, ib = isint_of(a), isint_of(b)
            both_int = zand(ia, ib) if not (isinstance(ia, bool) and isinstance(ib, bool)) else (ia and ib)
            if opn == "Add":
                yield st, Sym("num", x + y, both_int)
            elif opn == "Sub":
                yield st, Sym("num", x - y, both_int)
            elif opn == "Mult":
                yield st, Sym("num", x * y, both_int)
            elif opn == "Div":
                for s2, zero in self.branch(st, y == 0):
                    if zero:
                        yield self.raise_(s2, "ZeroDivisionError", "division by zero")
                    else:
                        yield s2, Sym("num", x / y, False)
            else:
                raise Unsupported("binop %s on numbers" % opn)
            return
        # strings
        if opn == "Add" and self.is_str(a) and self.is_str(b):
            yield st, self.str_concat(a, b)
            return
        # tuples / lists
        if opn == "Add" and isinstance(a, Sym) and isinstance(b, Sym) and a.kind in ("shape", "tuplen") and b.kind in ("shape", "tuplen"):
            # concatenation of shape tuples: only the length is tracked
            la = self.rank(a.t) if a.kind == "shape" else a.t
            lb = self.rank(b.t) if b.kind == "shape" else b.t
            yield st, Sym("tuplen", la + lb)
            return
        if opn == "Add" and isinstance(a, TupleV) and isinstance(b, TupleV):
            yield st, TupleV(a.items + b.items)
            return
        if opn == "Add" and isinstance(a, Ref) and isinstance(b, Ref) and (isinstance(st.get(a), Bag) or isinstance(st.get(b), Bag)) \
                and isinstance(st.get(a), (Bag, PyList)) and isinstance(st.get(b), (Bag, PyList)):
            if inplace and st.is_fresh(a):
                st.set(a, Bag("list"))
                yield st, a
            else:
                yield st, st.alloc(Bag("list"))
            return
        if opn == "Add" and isinstance(a, Ref) and isinstance(b, Ref):
            la, lb = st.get(a), st.get(b)
            if isinstance(la, PyList) and isinstance(lb, PyList):
                if la.items is not None and lb.items is not None:
                    if inplace:
                        st.set(a, PyList(items=la.items + lb.items))
                        yield st, a
                    else:
                        yield st, st.alloc(PyList(items=la.items + lb.items))
                    return
                sa, sb = self.list_seq(la), self.list_seq(lb)
                n1 = sa.n
                new = SeqV(sa.n + sb.n, lambda k, sa=sa, sb=sb, n1=n1: self.ite_value(k < n1, sa.get(k), sb.get(k - n1)))
                if inplace:
                    st.set(a, PyList(seq=new))
                    yield st, a
                else:
                    yield st, st.alloc(PyList(seq=new))
                return
        if opn == "Add" and isinstance(a, Ref) and isinstance(st.get(a), PyList) and isinstance(b, Sym) and b.kind == "shapelist":
            la = st.get(a)
            if la.items is not None and len(la.items) == 1 and is_num(la.items[0]):
                yield st, Sym("stackshape", (self.int_term(la.items[0]), b.t))
                return
        for r in self.binop_dyn(st, opn, a, b, inplace):
            yield r

    def binop_dyn(self, st, opn, a, b, inplace):
        raise Unsupported("binop %s on %r, %r" % (opn, a, b))

    def is_str(self, v):
        return isinstance(v, str) or (isinstance(v, Sym) and v.kind == "str")

    def str_term(self, v):
        if isinstance(v, str):
            return z3.StringVal(v)
        if isinstance(v, Sym) and v.kind == "str":
            return v.t
        raise Unsupported("not a string %r" % (v,))

    def str_concat(self, a, b):
        if isinstance(a, str) and isinstance(b, str):
            return a + b
        return Sym("str", z3.Concat(self.str_term(a), self.str_term(b)))

    def ite_value(self, c, a, b):
        c = z3.simplify(c) if not isinstance(c, bool) else c
        if isinstance(c, bool) or z3.is_true(c) or z3.is_false(c):
            return a if (c is True or (not isinstance(c, bool) and z3.is_true(c))) else b
        if is_num(a) and is_num(b):
            ia, ib = isint_of(a), isint_of(b)
            if isinstance(ia, bool) and isinstance(ib, bool) and ia == ib:
                ii = ia
            else:
                ii = z3.If(c, ia if not isinstance(ia, bool) else z3.BoolVal(ia), ib if not isinstance(ib, bool) else z3.BoolVal(ib))
            return Sym("num", z3.If(c, num_term(a), num_term(b)), ii)
        if isinstance(a, Sym) and isinstance(b, Sym) and a.kind == b.kind:
            return Sym(a.kind, z3.If(c, a.t, b.t))
        if (isinstance(a, Sym) and a.kind == "dyn") or (isinstance(b, Sym) and b.kind == "dyn"):
            try:
                return Sym("dyn", z3.If(c, self.to_dyn(None, a), self.to_dyn(None, b)))
            except (Unsupported, AttributeError):
                pass
        if self.is_str(a) and self.is_str(b):
            return Sym("str", z3.If(c, self.str_term(a), self.str_term(b)))
        if isinstance(a, TupleV) and isinstance(b, TupleV) and len(a.items) == len(b.items):
            return TupleV([self.ite_value(c, x, y) for x, y in zip(a.items, b.items)])
        if isinstance(a, Ref) and isinstance(b, Ref) and a == b:
            return a
        if isinstance(a, Ref) and isinstance(b, Ref) and isinstance(a.oid, tuple) and isinstance(b.oid, tuple) \
                and a.oid[0] == "fam" and b.oid[0] == "fam" and a.oid[1] == b.oid[1]:
            return Ref(("fam", a.oid[1], z3.If(c, a.oid[2], b.oid[2])))
        if a is b:
            return a
        raise Unsupported("cannot merge values %r / %r" % (a, b))

    # ------------------------------------------------------------ comparison
    def ex_Compare(self, node, st):
        for st1, c in self._compare_chain(node.left, list(zip(node.ops, node.comparators)), st):
            if isinstance(c, Raised) or isinstance(c, (bool, Ref, DataView)):
                yield st1, c
            elif isinstance(c, Sym):
                yield st1, c
            else:
                yield st1, Sym("bool", c)

    def _compare_chain(self, left, rest, st):
        for st1, a in self.ev(left, st):
            if isinstance(a, Raised):
                yield st1, a
                continue
            for r in self._cmp_rest(a, rest, st1):
                yield r

    def _cmp_rest(self, a, rest, st):
        (op, rnode) = rest[0]
        for st1, b in self.ev(rnode, st):
            if isinstance(b, Raised):
                yield st1, b
                continue
            for st2, c in self.compare(st1, op, a, b):
                if isinstance(c, Raised) or len(rest) == 1:
                    yield st2, c
                    continue
                if isinstance(c, (Ref, DataView)):
                    raise Unsupported("chained comparison on arrays")
                cb = c.t if isinstance(c, Sym) else c
                for st3, taken in self.branch(st2, cb):
                    if not taken:
                        yield st3, False
                    else:
                        for r in self._cmp_rest(b, rest[1:], st3):
                            yield r

    def compare(self, st, op, a, b):
        """yields (st, python bool | z3 Bool | array Ref | Raised)."""
        opn = type(op).__name__
        if opn in ("Is", "IsNot"):
            r = self.identical(st, a, b)
            yield st, (r if opn == "Is" else (not r if isinstance(r, bool) else znot(r)))
            return
        if opn in ("In", "NotIn"):
            for st1, r in self.contains(st, b, a):
                if isinstance(r, Raised):
                    yield st1, r
                else:
                    yield st1, (r if opn == "In" else (not r if isinstance(r, bool) else znot(r)))
            return
        if self.is_arr(st, a) or self.is_arr(st, b):
            for r in self.call_builtin("arr.compare", st, [opn, a, b], {}):
                yield r
            return
        if is_concrete(a) and is_concrete(b):
            try:
                yield st, {"Eq": lambda: a == b, "NotEq": lambda: a != b, "Lt": lambda: a < b, "LtE": lambda: a <= b,
                           "Gt": lambda: a > b, "GtE": lambda: a >= b}[opn]()
            except TypeError:
                yield self.raise_(st, "TypeError", "unorderable")
            return
        if is_num(a) and is_num(b):
            x, y = num_term(a), num_term(b)
            yield st, {"Eq": x == y, "NotEq": x != y, "Lt": x < y, "LtE": x <= y, "Gt": x > y, "GtE": x >= y}[opn]
            return
        if self.is_str(a) and self.is_str(b) and opn in ("Eq", "NotEq"):
            e = self.str_term(a) == self.str_term(b)
            yield st, (e if opn == "Eq" else z3.Not(e))
            return
        if opn in ("Eq", "NotEq"):
            for st1, r in self.equal(st, a, b):
                if isinstance(r, Raised):
                    yield st1, r
                else:
                    yield st1, (r if opn == "Eq" else (not r if isinstance(r, bool) else znot(r)))
            return
        if isinstance(a, Sym) and isinstance(b, Sym) and a.kind == b.kind == "version":
            # A-NUMPY-VERSION: the pinned numpy (1.26) is >= any version the code tests for
            yield st, opn in ("GtE", "Gt", "NotEq")
            return
        for r in self.compare_dyn(st, opn, a, b):
            yield r

    def compare_dyn(self, st, opn, a, b):
        raise Unsupported("compare %s on %r, %r" % (opn, a, b))

    def identical(self, st, a, b):
        if a is None or b is None:
            if a is None and b is None:
                return True
            other = b if a is None else a
            if isinstance(other, Sym) and other.kind == "dyn":
                return smt.Val.is_N(other.t)
            return False
        if isinstance(a, bool) or isinstance(b, bool):
            x, y = (a, b) if isinstance(a, bool) else (b, a)
            if isinstance(y, bool):
                return x == y
            if isinstance(y, Sym) and y.kind == "bool":
                return y.t if x else znot(y.t)
            if isinstance(y, Sym) and y.kind == "dyn":
                V = smt.Val
                return zand(V.is_B(y.t), V.bval(y.t) == x)
            return False
        if isinstance(a, Ref) and isinstance(b, Ref):
            if isinstance(a.oid, tuple) and isinstance(b.oid, tuple) and a.oid[:2] == b.oid[:2]:
                return z3.simplify(a.oid[2] == b.oid[2])
            return a == b
        if isinstance(a, ClassV) and isinstance(b, ClassV):
            return a.name == b.name
        if isinstance(a, Sym) and isinstance(b, Sym) and a.kind == b.kind == "dyn":
            return a.t == b.t
        raise Unsupported("identity of %r and %r" % (a, b))

    def equal(self, st, a, b):
        if isinstance(a, Sym) and a.kind == "dyn" or isinstance(b, Sym) and b.kind == "dyn":
            yield st, self.to_dyn(st, a) == self.to_dyn(st, b)
            return
        if a is None or b is None:
            yield st, a is None and b is None
            return
        if isinstance(a, TupleV) and isinstance(b, TupleV):
            if len(a.items) != len(b.items):
                yield st, False
                return
            conds = []
            for x, y in zip(a.items, b.items):
                rs = list(self.equal(st, x, y))
                if len(rs) != 1:
                    raise Unsupported("forking tuple equality")
                conds.append(rs[0][1])
            if all(isinstance(c, bool) for c in conds):
                yield st, all(conds)
            else:
                yield st, zand(*conds)
            return
        if (is_num(a) and self.is_str(b)) or (is_num(b) and self.is_str(a)):
            yield st, False
            return
        if isinstance(a, Sym) and a.kind == "bool" and isinstance(b, (bool, Sym)):
            bt = b if isinstance(b, bool) else b.t
            yield st, a.t == bt
            return
        if isinstance(a, ClassV) and isinstance(b, ClassV):
            yield st, a.name == b.name
            return
        if isinstance(a, Sym) and isinstance(b, Sym) and a.kind == b.kind and a.kind in ("shape", "dt"):
            yield st, a.t == b.t
            return
        raise Unsupported("equality of %r and %r" % (a, b))

    def contains(self, st, container, item):
        if isinstance(container, TupleV):
            conds = []
            for x in container.items:
                rs = list(self.compare(st, ast.Eq(), item, x))
                if len(rs) != 1 or isinstance(rs[0][1], Raised):
                    raise Unsupported("forking containment")
                c = rs[0][1]
                conds.append(c.t if isinstance(c, Sym) else c)
            if all(isinstance(c, bool) for c in conds):
                yield st, any(conds)
            else:
                yield st, zor(*conds)
            return
        if isinstance(container, Ref):
            o = st.get(container)
            if isinstance(o, PyDict):
                if isinstance(item, str):
                    if item in o.entries:
                        yield st, o.present.get(item, True)
                    else:
                        yield st, False
                    return
                if self.is_str(item):
                    conds = [zand(self.str_term(item) == z3.StringVal(k), o.present.get(k, True)) for k in o.entries]
                    yield st, zor(*conds)
                    return
                if isinstance(item, Sym) and item.kind == "dyn" and not o.present and all(isinstance(k, str) for k in o.entries):
                    from .dyn import hashable
                    for s1, h in self.branch(st, hashable(item.t)):
                        if h:
                            yield s1, zor(*[item.t == smt.Val.S(z3.StringVal(k)) for k in o.entries])
                        else:
                            yield self.raise_(s1, "TypeError", "unhashable type")
                    return
            if isinstance(o, PyList) and o.items is not None:
                for r in self.contains(st, TupleV(o.items), item):
                    yield r
                return
            if isinstance(o, Obj) and o.cls.name in ("SymMap", "SymValues"):
                for r in self.symmap_contains(st, o, item):
                    yield r
                return
        for r in self.call_builtin("contains", st, [container, item], {}):
            yield r

    # ------------------------------------------------------------ conditional / lambda / comprehension
    def ex_IfExp(self, node, st):
        for st1, c in self.ev_truth(node.test, st):
            if isinstance(c, Raised):
                yield st1, c
                continue
            for st2, taken in self.branch(st1, c):
                for r in self.ev(node.body if taken else node.orelse, st2):
                    yield r

    def ex_Lambda(self, node, st):
        yield st, LambdaV(node, dict(st.env), st.env.get("__fi__"))

    def ex_JoinedStr(self, node, st):
        raise Unsupported("f-string")

    def ex_Starred(self, node, st):
        raise Unsupported("starred expression")

    # ------------------------------------------------------------ attribute / subscript
    def ex_Attribute(self, node, st):
        for st1, o in self.ev(node.value, st):
            if isinstance(o, Raised):
                yield st1, o
                continue
            for r in self.get_attr(st1, o, node.attr):
                yield r

    def ex_Subscript(self, node, st):
        for st1, o in self.ev(node.value, st):
            if isinstance(o, Raised):
                yield st1, o
                continue
            for st2, idx in self.ev_index(node.slice, st1):
                if isinstance(idx, Raised):
                    yield st2, idx
                    continue
                for r in self.get_item(st2, o, idx):
                    yield r

    def ev_index(self, node, st):
        if isinstance(node, ast.Slice):
            parts = [node.lower, node.upper, node.step]
            exprs = [p for p in parts if p is not None]
            for st1, vs in self.ev_list(exprs, st):
                if isinstance(vs, Raised):
                    yield st1, vs
                    continue
                it = iter(vs)
                vals = [next(it) if p is not None else None for p in parts]
                yield st1, Slice(*vals)
            return
        if isinstance(node, ast.Tuple) and any(isinstance(e, ast.Slice) for e in node.elts):
            # a[i, :] - evaluated to a tuple of indices / slices; whether the container supports it is the container's business
            states = [(st, [])]
            for e in node.elts:
                nxt = []
                for s, acc in states:
                    for s1, v in self.ev_index(e, s):
                        if isinstance(v, Raised):
                            yield s1, v
                        else:
                            nxt.append((s1, acc + [v]))
                states = nxt
            for s, acc in states:
                yield s, TupleV(acc)
            return
        for r in self.ev(node, st):
            yield r

    # ------------------------------------------------------------ assignment
    def assign(self, tgt, v, st):
        """yields (st, None | Raised)."""
        if isinstance(tgt, ast.Name):
            st.env[tgt.id] = v
            yield st, None
        elif isinstance(tgt, (ast.Tuple, ast.List)):
            items = self.unpack(st, v, len(tgt.elts))
            states = [st]
            for t, x in zip(tgt.elts, items):
                nxt = []
                for s in states:
                    for s2, r in self.assign(t, x, s):
                        if isinstance(r, Raised):
                            yield s2, r
                        else:
                            nxt.append(s2)
                states = nxt
            for s in states:
                yield s, None
        elif isinstance(tgt, ast.Attribute):
            for st1, o in self.ev(tgt.value, st):
                if isinstance(o, Raised):
                    yield st1, o
                    continue
                for r in self.set_attr(st1, o, tgt.attr, v):
                    yield r
        elif isinstance(tgt, ast.Subscript):
            for st1, o in self.ev(tgt.value, st):
                if isinstance(o, Raised):
                    yield st1, o
                    continue
                for st2, idx in self.ev_index(tgt.slice, st1):
                    if isinstance(idx, Raised):
                        yield st2, idx
                        continue
                    for r in self.set_item(st2, o, idx, v):
                        yield r
        else:
            raise Unsupported("assignment target %s" % type(tgt).__name__)

    def unpack(self, st, v, n):
        if isinstance(v, TupleV):
            if len(v.items) != n:
                raise Unsupported("unpack arity")
            return list(v.items)
        if isinstance(v, Ref):
            o = st.get(v)
            if isinstance(o, PyList) and o.items is not None and len(o.items) == n:
                return list(o.items)
        raise Unsupported("unpack of %r" % (v,))

    # ------------------------------------------------------------ calls
    def ex_Call(self, node, st):
        # super(K, self)
        for st1, f in self.ev(node.func, st):
            if isinstance(f, Raised):
                yield st1, f
                continue
            pos_nodes = []
            star = None
            for a in node.args:
                if isinstance(a, ast.Starred):
                    star = a.value
                else:
                    if star is not None:
                        raise Unsupported("positional after *args")
                    pos_nodes.append(a)
            kw_nodes = [(k.arg, k.value) for k in node.keywords if k.arg is not None]
            dstar = [k.value for k in node.keywords if k.arg is None]
            for st2, vals in self.ev_list(pos_nodes + [v for _, v in kw_nodes] + ([star] if star is not None else []) + dstar, st1):
                if isinstance(vals, Raised):
                    yield st2, vals
                    continue
                args = vals[: len(pos_nodes)]
                kwvals = vals[len(pos_nodes): len(pos_nodes) + len(kw_nodes)]
                rest = vals[len(pos_nodes) + len(kw_nodes):]
                kwargs = dict(zip([k for k, _ in kw_nodes], kwvals))
                if star is not None:
                    sv = rest[0]
                    rest = rest[1:]
                    args = args + self.unpack_star(st2, sv)
                dyn_kwargs = []
                opaque_kw = None
                for d in rest:
                    o = st2.get(d) if isinstance(d, Ref) else None
                    if isinstance(o, PyDict):
                        dyn_kwargs.append(o)
                    elif (isinstance(d, Sym) and d.kind == "dyn") or isinstance(o, (Bag, Obj)):
                        opaque_kw = d  # a mapping whose keys are not statically known: passed on as a whole
                    else:
                        raise Unsupported("** of non-dict")
                if opaque_kw is not None:
                    kwargs["**"] = opaque_kw
                states = [(st2, kwargs)]
                for o in dyn_kwargs:
                    nxt = []
                    for s, kw in states:
                        nxt.extend(self.expand_kwargs(s, kw, o))
                    states = nxt
                for s, kw in states:
                    s.ghost["call_node"] = node
                    for r in self.call(s, f, args, kw, node):
                        yield r

    def unpack_star(self, st, sv):
        if isinstance(sv, Sym) and sv.kind in ("shape", "tuplen"):
            from .builtins_model import _StarSeq

            return [_StarSeq(self.rank(sv.t) if sv.kind == "shape" else sv.t)]
        if isinstance(sv, TupleV):
            return list(sv.items)
        if isinstance(sv, Ref):
            o = st.get(sv)
            if isinstance(o, PyList) and o.items is not None:
                return list(o.items)
        raise Unsupported("*args of symbolic length")

    def expand_kwargs(self, st, kw, d):
        """Resolve symbolic presence of keys by forking. returns list of (state, kwargs)."""
        out = [(st, dict(kw))]
        for k, v in d.entries.items():
            p = d.present.get(k, True)
            nxt = []
            for s, kk in out:
                for s2, taken in self.branch(s, p):
                    k2 = dict(kk)
                    if taken:
                        if k in k2:
                            raise Unsupported("duplicate keyword %s" % k)
                        k2[k] = v
                    nxt.append((s2, k2))
            out = nxt
        return out

    def call(self, st, f, args, kwargs, node=None):
        if isinstance(f, BuiltinV):
            a = ([f.self_val] if f.self_val is not None else []) + list(args)
            for r in self.call_builtin(f.name, st, a, kwargs, node=node):
                yield r
        elif isinstance(f, FuncV):
            for r in self.call_func(st, f, args, kwargs, node):
                yield r
        elif isinstance(f, LambdaV):
            for r in self.call_lambda(st, f, args, kwargs):
                yield r
        elif isinstance(f, ClassV):
            for r in self.instantiate(f, st, args, kwargs):
                yield r
        else:
            raise Unsupported("call of %r" % (f,))

    def call_lambda(self, st, f, args, kwargs):
        a = f.node.args
        names = [x.arg for x in a.args]
        if len(args) != len(names) or kwargs:
            raise Unsupported("lambda arity")
        saved = st.env
        env = dict(f.env)
        env.update(dict(zip(names, args)))
        st.env = env
        for st1, v in self.ev(f.node.body, st):
            st1.env = saved
            yield st1, v

    def call_func(self, st, f, args, kwargs, node=None):
        fi = f.info
        c = self.contracts.get(fi.key)
        if c is not None and not (self.current is not None and False):
            self.assumed_used.add(("contract", fi.key))
            for r in c.apply(self, st, f, args, kwargs):
                yield r
            return
        if fi.parent is not None or self.may_inline(fi):
            closure = None
            if fi.parent is not None and f.env is not None:
                closure = {k: v for k, v in f.env.items()}
            for r in self.inline_call(fi, st, f.self_val, args, kwargs, cls=f.cls, closure=closure):
                yield r
            return
        raise Unsupported("call to %s which has no contract" % fi.key)

    def may_inline(self, fi):
        # exception constructors / __str__ and trivially small helpers registered by the sidecar
        if fi.cls is not None and self.class_is_subclass(ClassV(fi.cls.name, fi.cls), "BaseException"):
            return True
        return fi.key in getattr(self, "inline_ok", set())

    def instantiate(self, cv, st, args, kwargs):
        if cv.info is None:
            for r in self.call_builtin("new." + cv.name, st, list(args), kwargs):
                yield r
            return
        ref = st.alloc(Obj(cv, {}))
        init = self.repo.find_method(cv.info, "__init__")
        if init is None:
            if self.class_is_subclass(cv, "BaseException"):
                o = st.get(ref)
                o2 = Obj(o.cls, dict(o.fields))
                o2.fields["args"] = TupleV(args)
                st.set(ref, o2)
                if kwargs:
                    yield self.raise_(st, "TypeError", "exception takes no keyword arguments")
                    return
            yield st, ref
            return
        f = FuncV(init, self_val=ref, cls=init.cls)
        for st1, r in self.call_func(st, f, args, kwargs):
            if isinstance(r, Raised):
                yield st1, r
            else:
                yield st1, ref


class _FakeFi(object):
    def __init__(self, mod):
        self.module = mod
        self.qualname = "<module>"
        self.cls = None
        self.key = mod.relpath + "::<module>"
        self.node = mod.tree
