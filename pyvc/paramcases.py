"""Concrete side for the cleaners: counter-model -> case, bounded battery, real runs (runner/run_clean.py)."""
import json
import os
import subprocess
import tempfile

import z3

from . import replay
from .dyn import (Val, IS_COMMAND, IS_ARGUMENT, IS_NDARRAY, HAS_FUZZY, FLD, DKEYS, DGET, CMD_HAS)

RUNNER = os.path.join(replay.HERE, "runner", "run_clean.py")


def run_real(cases, repo_root="/repo", timeout=600):
    d = replay.workdir()
    fin = tempfile.NamedTemporaryFile("w", suffix=".cin.json", dir=d, delete=False)
    json.dump(cases, fin)
    fin.close()
    fout = fin.name.replace(".cin.json", ".cout.json")
    try:
        p = subprocess.run([replay.VENV_PY, RUNNER, fin.name, fout, repo_root], capture_output=True, text=True, timeout=timeout)
        if p.returncode != 0 or not os.path.exists(fout):
            raise RuntimeError("runner failed: %s %s" % (p.stdout[-500:], p.stderr[-1500:]))
        return json.load(open(fout))
    finally:
        for f in (fin.name, fout):
            try:
                os.unlink(f)
            except OSError:
                pass


def violated(case, out):
    """clauses of C20/C13 the real outcome violates"""
    if out.get("outcome") == "harness-error":
        return [("harness-error", out.get("error", "")[-300:])]
    bad = []
    if out["outcome"] == "raise":
        if not out.get("in_family"):
            bad.append(("raises_only", "raw %s escaped: %s" % (out.get("exc_class"), out.get("exc_msg"))))
        elif out.get("exc_lineno") != 7:
            bad.append(("lineno", "error carries line %r, the cleaner was given 7" % (out.get("exc_lineno"),)))
        if out.get("exc_str_error"):
            bad.append(("str", "the error message cannot be rendered: %s" % out.get("exc_msg")))
    else:
        if not out.get("typed"):
            bad.append(("typed", "returned %s %s" % (out.get("result_type"), out.get("result_repr"))))
        rel_wd = case["cls"] == "PathParameter" and case.get("working_dir") not in (None, "$TMP") and not str(case.get("working_dir")).startswith("/")
        if not out.get("idempotent") and not rel_wd:
            bad.append(("idempotent", out.get("idempotent_detail")))
    if not out.get("deterministic"):
        bad.append(("deterministic", "two cleanings of the same raw value differ"))
    if not out.get("pure"):
        bad.append(("pure", "the raw argument or the program changed"))
    return bad


# --------------------------------------------------------------------------- counter-model -> case
def enc(model, t, depth=0):
    ev = lambda x: model.eval(x, model_completion=True)
    if z3.is_true(ev(Val.is_I(t))):
        return {"I": ev(Val.ival(t)).as_long()}
    if z3.is_true(ev(Val.is_F(t))):
        return {"F": float(replay.as_frac(ev(Val.fval(t))))}
    if z3.is_true(ev(Val.is_B(t))):
        return {"B": z3.is_true(ev(Val.bval(t)))}
    if z3.is_true(ev(Val.is_S(t))):
        s = ev(Val.sval(t))
        return {"S": s.as_string() if z3.is_string_value(s) else ""}
    if z3.is_true(ev(Val.is_N(t))):
        return {"N": 0}
    if z3.is_true(ev(Val.is_L(t))):
        n = ev(z3.Length(Val.items(t))).as_long()
        if depth > 2:
            return {"L": []}
        return {"L": [enc(model, Val.items(t)[i], depth + 1) for i in range(min(n, 3))]}
    if z3.is_true(ev(Val.is_D(t))):
        did = Val.did(t)
        n = ev(z3.Length(DKEYS(did))).as_long()
        if depth > 2:
            return {"D": []}
        return {"D": [[enc(model, DKEYS(did)[i], depth + 1), enc(model, DGET(did, DKEYS(did)[i]), depth + 1)] for i in range(min(n, 3))]}
    if z3.is_true(ev(Val.is_T(t))):
        return {"T": "float"}
    ref = Val.ref(t)
    if z3.is_true(ev(IS_COMMAND(ref))):
        d = {"kind": "command", "finished": False}
        if z3.is_true(ev(HAS_FUZZY(ref))):
            fz = FLD("is_fuzzy")(ref)
            d["is_fuzzy"] = z3.is_true(ev(z3.And(Val.is_B(fz), Val.bval(fz))))
        return {"O": d}
    if z3.is_true(ev(IS_ARGUMENT(ref))):
        return {"O": {"kind": "argument", "value": enc(model, FLD("value")(ref), depth + 1) if depth < 2 else {"I": 1}}}
    if z3.is_true(ev(IS_NDARRAY(ref))):
        return {"O": {"kind": "ndarray"}}
    return {"O": {"kind": "object"}}


def concretize(su, model, clsname):
    ev = lambda x: model.eval(x, model_completion=True)
    case = {"cls": clsname, "ctor": {}, "value": enc(model, su.v), "commands": {}}
    wd = su.wd
    case["working_dir"] = None if z3.is_true(ev(Val.is_N(wd))) else "$TMP"
    if clsname == "PathParameter":
        case["ctor"]["must_exist"] = z3.is_true(ev(su.must_exist))
    if clsname == "ResultParameter":
        f = su.is_fuzzy
        case["ctor"]["is_fuzzy"] = None if z3.is_true(ev(Val.is_N(f))) else z3.is_true(ev(Val.bval(f)))
        case["ctor"]["output_type"] = None if z3.is_true(ev(Val.is_N(su.output_type))) else {"cls": "DataParameter"}
        v = case["value"]
        if "S" in v and z3.is_true(ev(CMD_HAS(su.prog_term, z3.StringVal(v["S"])))):
            case["commands"][v["S"]] = {"kind": "command", "output": {"cls": "DataParameter"}}
    if clsname == "ListParameter":
        case["ctor"]["value_type"] = {"cls": "NumberParameter"}
    return case


# --------------------------------------------------------------------------- bounded battery
def _values():
    S = lambda s: {"S": s}
    cmd = lambda **kw: {"O": dict({"kind": "command", "output": {"cls": "DataParameter"}}, **kw)}
    vals = [
        {"I": 0}, {"I": 1}, {"I": -3}, {"I": 7}, {"F": 0.0}, {"F": 2.5}, {"F": 1e-05}, {"F": -1.0}, {"B": True}, {"B": False},
        S("true"), S("False"), S("TRUE"), S("1"), S("0"), S("abc"), S("1.5"), S("1e5"), S(" 7 "), S(""), S("-4"), S("Float"), S("Integer"),
        S("/nonexistent/abs/p"), S("rel/p"), S("$TMP/present.txt"), S("present.txt"), S("A"), S("Fz"), S("Fin"), S("Missing"),
        S("a\x00b.csv"), S("x" * 300), S("."), S("present.txt/"),
        {"N": 0}, {"L": []}, {"L": [{"I": 1}, S("2")]}, {"L": [{"L": [{"I": 1}]}, {"L": [S("x")]}]}, {"L": [S("A"), S("Fz")]},
        {"L": [{"O": {"kind": "argument", "value": {"I": 4}}}, {"I": 5}]}, {"L": [{"F": 1.5}, {"B": True}]},
        {"D": []}, {"D": [[S("a"), {"I": 1}]]}, {"D": [[{"I": 1}, {"I": 2}], [S("k"), S("v")]]},
        {"X": "np.float32:2.75"}, {"X": "np.float16:0.5"}, {"X": "np.int32:7"}, {"X": "Fraction:11/4"}, {"X": "Decimal:2.75"},
        {"T": "float"}, {"T": "int"}, cmd(), cmd(is_fuzzy=True), cmd(is_fuzzy=False), cmd(finished=True, result={"O": {"kind": "ndarray"}}),
        cmd(finished=True, result={"I": 3}), {"O": {"kind": "argument", "value": {"I": 1}}}, {"O": {"kind": "ndarray"}}, {"O": {"kind": "object"}},
    ]
    return vals


COMMANDS = {
    "A": {"kind": "command", "output": {"cls": "DataParameter"}},
    "Fz": {"kind": "command", "output": {"cls": "DataParameter"}, "is_fuzzy": True},
    "NF": {"kind": "command", "output": {"cls": "DataParameter"}, "is_fuzzy": False},
    "Num": {"kind": "command", "output": {"cls": "NumberParameter"}},
    "NoOut": {"kind": "command", "output": None},
    "Fin": {"kind": "command", "output": {"cls": "DataParameter"}, "finished": True, "result": {"O": {"kind": "ndarray"}}},
    "FinBad": {"kind": "command", "output": {"cls": "DataParameter"}, "finished": True, "result": {"I": 3}},
}


def configs(clsname):
    P = lambda c, **kw: {"cls": c, "ctor": kw}
    if clsname == "PathParameter":
        return [{"ctor": {"must_exist": me}, "working_dir": wd, "make_files": ["present.txt"]}
                for me in (True, False) for wd in (None, "$TMP", "relative/dir")]
    if clsname == "ResultParameter":
        out = []
        for ot in (None, P("DataParameter"), P("NumberParameter"), P("StringParameter"), P("BooleanParameter")):
            for fz in (None, True, False):
                out.append({"ctor": {"output_type": ot, "is_fuzzy": fz}})
        return out
    if clsname == "ListParameter":
        return [{"ctor": {"value_type": vt}} for vt in (
            P("Parameter"), P("NumberParameter"), P("StringParameter"), P("BooleanParameter"), P("ListParameter", value_type=P("NumberParameter")),
            P("ResultParameter", output_type=P("DataParameter")), P("ResultParameter", output_type=P("DataParameter"), is_fuzzy=True), P("TupleParameter"))]
    if clsname == "DataTypeParameter":
        return [{"ctor": {}}, {"ctor": {"valid_types": {"Float": "numpy.float64", "Integer": "int", "Positive Integer": "numpy.uint"}}}]
    return [{"ctor": {}}]


def battery(class_names, tier, seed=0):
    cases = []
    for c in class_names:
        for cfg in configs(c):
            for v in _values():
                case = {"cls": c, "ctor": cfg.get("ctor", {}), "value": v, "commands": COMMANDS,
                        "working_dir": cfg.get("working_dir"), "make_files": cfg.get("make_files", ["present.txt"])}
                if case["working_dir"] is None and "working_dir" not in cfg:
                    case["working_dir"] = "$TMP"
                cases.append(case)
    if "ListParameter" in class_names:
        # a list of lists whose first element is a (valid) nested list argument carrying its own line, followed by an invalid element:
        # the error is about the later element and must not carry the earlier element's line
        nested = {"O": {"kind": "argument", "name": "inner", "value": {"L": [{"I": 1}, {"I": 2}]}, "lineno": 40}}
        P = lambda c, **kw: {"cls": c, "ctor": kw}
        for bad in ({"S": "x"}, {"I": 3}, {"L": [{"S": "y"}]}):
            cases.append({"cls": "ListParameter", "ctor": {"value_type": P("ListParameter", value_type=P("NumberParameter"))}, "value": {"L": [nested, bad]},
                          "commands": COMMANDS, "working_dir": "$TMP", "make_files": ["present.txt"]})
    return cases
