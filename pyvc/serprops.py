"""C15: contracts of the serialisers nested in Program.to_string (quote, serialize_value), verified with the symbolic
executor against the canonical renderer, plus regular-language lemmas that the rendered lexemes are what the lexer
reads back (C10's rules); the load-back step itself is C10's assumed engines + the bounded round trip."""
import ast

import z3

from . import smt, rx, lexprops
from . import heapprops  # noqa: F401  (installs the dict / heap hooks of the dynamic fragment)
from .dyn import Val, dyn, FLD, IS_COMMAND, IS_PARAM, CLASS_OF, SUBCLASS, DHAS_, DGET
from .engine import Engine
from .state import State
from .values import Unsupported, Sym, Ref, PyList, SeqV, Obj, ClassV, Raised, ExcSym, FuncV, BuiltinV

TOS = "mpilot/program.py::Program.to_string"
REPL = z3.Function("str_replace_all", z3.StringSort(), z3.StringSort(), z3.StringSort(), z3.StringSort())
REPR_F = z3.Function("repr_float", z3.RealSort(), z3.StringSort())
STR_I = z3.Function("str_int", z3.IntSort(), z3.StringSort())
Sv = z3.StringVal


def esc(v):
    """canonical escaping of a string value: backslashes first, then double quotes"""
    return REPL(REPL(v, Sv("\\"), Sv("\\\\")), Sv('"'), Sv('\\"'))


def install(eng):
    def bi_replace(st, args, kw):
        s, a, b = args[:3]
        yield st, Sym("str", REPL(eng.str_term(s), eng.str_term(a), eng.str_term(b)))

    def bi_repr(st, args, kw):
        (v,) = args
        if isinstance(v, Sym) and v.kind == "num":
            yield st, Sym("str", REPR_F(v.t) if v.isint is False else STR_I(z3.ToInt(v.t)))
        elif isinstance(v, float):
            yield st, repr(v)
        else:
            yield st, Sym("str", smt.fresh("repr", z3.StringSort()))

    eng.builtin_models["str.replace"] = bi_replace
    eng.builtin_models["repr"] = bi_repr
    orig_str = eng.bi_str

    def bi_str(st, args, kw):
        if args and isinstance(args[0], Sym) and args[0].kind == "num":
            v = args[0]
            if v.isint is True:
                yield st, Sym("str", STR_I(z3.ToInt(v.t)))
                return
            if v.isint is False:
                yield st, Sym("str", REPR_F(v.t))
                return
        for r in orig_str(st, args, kw):
            yield r

    eng.builtin_models["str"] = bi_str
    eng.builtin_models["new.str"] = bi_str


def _patch_contains():
    from .exprs import ExprMixin

    orig = ExprMixin.contains

    def contains(self, st, container, item):
        if self.is_str(container) and self.is_str(item):
            yield st, z3.Contains(self.str_term(container), self.str_term(item))
            return
        for r in orig(self, st, container, item):
            yield r

    ExprMixin.contains = contains


_patch_contains()


def _precise_format():
    """str.format on a literal template with positional {} slots: the concatenation of the pieces and str() of the arguments"""
    from .builtins_model import BuiltinMixin
    import string

    orig = BuiltinMixin.bi_str_format

    def bi_str_format(self, st, args, kw):
        if not getattr(self, "precise_format", False):
            for r in orig(self, st, args, kw):
                yield r
            return
        fmt, rest = args[0], list(args[1:])
        kw = {k: v for k, v in kw.items() if k != "__node__"}
        if not isinstance(fmt, str) or kw:
            raise Unsupported("format on a symbolic template")
        pieces = []
        i = 0
        for lit, field, spec, conv in string.Formatter().parse(fmt):
            if lit:
                pieces.append(lit)
            if field is not None:
                if field not in ("",) or spec or conv:
                    raise Unsupported("format field %r" % field)
                if i >= len(rest):
                    yield self.raise_(st, "IndexError", "Replacement index out of range")
                    return
                pieces.append(rest[i])
                i += 1
        states = [(st, [])]
        for pce in pieces:
            nxt = []
            for s, acc in states:
                if isinstance(pce, str):
                    nxt.append((s, acc + [Sv(pce)]))
                else:
                    for s2, r in self.call_builtin("str", s, [pce], {}):
                        if isinstance(r, Raised):
                            yield s2, r
                        else:
                            nxt.append((s2, acc + [self.str_term(r)]))
            states = nxt
        for s, acc in states:
            yield s, Sym("str", acc[0] if len(acc) == 1 else z3.Concat(*acc)) if acc else ""

    BuiltinMixin.bi_str_format = bi_str_format


_precise_format()


def verify_serialisers(repo):
    eng = Engine(repo, {}, {})
    install(eng)
    eng.precise_format = True
    recs = eng.results
    functions = []
    mod = repo.modules["mpilot/program.py"]
    q = mod.functions.get("Program.to_string.quote")
    sv = mod.functions.get("Program.to_string.serialize_value")
    if sv is None:
        recs.append({"name": TOS + "/serialize_value found", "status": "unknown", "backend": "extractor", "time_s": 0, "function": TOS, "clause": "render",
                     "reason": "nested serialize_value not found"})
        return recs, functions
    closure = {}
    if q is not None:
        closure["quote"] = FuncV(q, env=closure)
        functions.append(q.describe())
    closure["serialize_value"] = FuncV(sv, env=closure)
    functions.append(sv.describe())
    eng.inline_ok = {q.key} if q is not None else set()
    RENDER = z3.Function("render_element", Val, z3.StringSort())

    class Recursive(object):
        """serialize_value on a nested element: its own contract (the rendering of that element); decreases on nesting depth"""

        def apply(self, eng_, st, f, args, kwargs):
            yield st, Sym("str", RENDER(eng_.to_dyn(st, args[0])))

    eng.contracts = {sv.key: Recursive()}
    # ---- quote(text) = '"' + esc(text) + '"'
    if q is not None:
        eng.current = q
        st = State()
        st.add_cell("c")
        t = smt.fresh("text", z3.StringSort())
        try:
            for s1, r in eng.inline_call(q, st, None, [Sym("str", t)], {}, closure=closure):
                ok = isinstance(r, Sym) and r.kind == "str"
                eng.oblige(s1, q.key + "/quote(s) = '\"' + escape(s) + '\"' (backslashes, then double quotes)",
                           (r.t == z3.Concat(Sv('"'), esc(t), Sv('"'))) if ok else z3.BoolVal(False), kind="ensures", meta={"clause": "render"}, assume_after=False)
        except Unsupported as e:
            recs.append({"name": q.key + "/supported", "status": "unknown", "backend": "engine", "time_s": 0, "function": q.key, "clause": "render",
                         "reason": "unsupported: %s" % e})
    # ---- serialize_value per value kind
    eng.current = sv

    def run(value, is_ref, label, spec):
        st = State()
        st.add_cell("c")
        cmd = smt.fresh("cmd", z3.IntSort())
        param = smt.fresh("param", Val)
        inputs = Val.did(FLD("inputs")(cmd))
        arg = st.alloc(Obj(ClassV("Argument"), {"name": Sym("str", smt.fresh("argname", z3.StringSort()))}), fresh=False)
        st.get(arg).closed = True
        nm = st.get(arg).fields["name"].t
        RP = Val.T(z3.IntVal(eng.type_id("ResultParameter")))
        LP = Val.T(z3.IntVal(eng.type_id("ListParameter")))
        st.assume(z3.And(IS_COMMAND(cmd), Val.is_D(FLD("inputs")(cmd)), DHAS_(inputs, Val.S(nm)), DGET(inputs, Val.S(nm)) == param,
                         Val.is_O(param), IS_PARAM(Val.ref(param))))
        isres = z3.And(SUBCLASS(CLASS_OF(param), RP))
        vt = FLD("value_type")(Val.ref(param))
        islistres = z3.And(SUBCLASS(CLASS_OF(param), LP), Val.is_O(vt), IS_PARAM(Val.ref(vt)), SUBCLASS(CLASS_OF(vt), RP))
        st.assume(z3.Implies(SUBCLASS(CLASS_OF(param), LP), Val.is_O(vt)))
        refctx = z3.Or(isres, islistres)
        st.assume(refctx if is_ref else z3.Not(refctx))
        v = value(st)
        try:
            n = 0
            eng.heap_mode = False
            for s1, r in eng.inline_call(sv, st, None, [v, arg, dyn(Val.O(cmd))], {}, closure=closure):
                n += 1
                if isinstance(r, Raised):
                    nmx = "<sym>" if isinstance(r.exc, ExcSym) else s1.get(r.exc).cls.name
                    eng.oblige(s1, sv.key + "/%s: raises nothing (%s)" % (label, nmx), z3.BoolVal(False), kind="ensures", meta={"clause": "render"}, assume_after=False)
                    continue
                if isinstance(r, Sym) and r.kind == "dyn":
                    eng.oblige(s1, sv.key + "/%s" % label, z3.And(Val.is_S(r.t), spec(s1, Val.sval(r.t), v)), kind="ensures", meta={"clause": "render"}, assume_after=False)
                    continue
                ok = isinstance(r, Sym) and r.kind == "str" or isinstance(r, str)
                eng.oblige(s1, sv.key + "/%s" % label, spec(s1, eng.str_term(r), v) if ok else z3.BoolVal(False), kind="ensures", meta={"clause": "render"}, assume_after=False)
            recs.append({"name": sv.key + "/%s: paths" % label, "status": "unsat" if n else "sat", "backend": "engine", "time_s": 0, "function": sv.key, "clause": "cover"})
        except Unsupported as e:
            recs.append({"name": sv.key + "/%s: supported" % label, "status": "unknown", "backend": "engine", "time_s": 0, "function": sv.key, "clause": "render",
                         "reason": "unsupported: %s" % e})

    sval = lambda st: Sym("str", smt.fresh("v", z3.StringSort()))
    run(sval, False, "a string under a value parameter is written quoted and escaped", lambda s, r, v: r == z3.Concat(Sv('"'), esc(v.t), Sv('"')))
    run(sval, True, "a reference given by name is written bare", lambda s, r, v: r == v.t)

    def cmdval(st):
        from .dyn import IS_ARGUMENT
        c = smt.fresh("refcmd", z3.IntSort())
        st.assume(z3.And(IS_COMMAND(c), z3.Not(IS_ARGUMENT(c)), Val.is_S(FLD("result_name")(c))))
        return dyn(Val.O(c))

    run(cmdval, True, "a reference given as a Command object is written as its result name",
        lambda s, r, v: r == Val.sval(FLD("result_name")(Val.ref(v.t))))
    ival = lambda st: Sym("num", z3.ToReal(smt.fresh("n", z3.IntSort())), True)
    run(ival, False, "an integer is written as str(n)", lambda s, r, v: r == STR_I(z3.ToInt(v.t)))
    fval = lambda st: Sym("num", smt.fresh("x", z3.RealSort()), False)

    def fspec(s, r, v):
        rp = REPR_F(v.t)
        bare_exp = z3.And(z3.Contains(rp, Sv("e")), z3.Not(z3.Contains(rp, Sv("."))))
        return r == z3.If(bare_exp, REPL(rp, Sv("e"), Sv(".0e")), rp)

    run(fval, False, "a float is written as repr(x), with a decimal point added to a bare exponent form", fspec)
    # ---- lexeme lemmas: what is written is what the lexer's number / string rules read (regular languages)
    rules, ignore = lexprops.extract_rules(repo)
    by = {r_.name: r_ for r_ in rules}
    D = rx.rng(48, 57)
    sign = z3.Option(rx.lit("-"))
    expo = z3.Concat(rx.lit("e"), rx.chars("+-"), z3.Plus(D))
    plain_f = z3.Concat(sign, z3.Plus(D), rx.lit("."), z3.Plus(D), z3.Option(expo))  # repr of a finite float with a point
    bare_f = z3.Concat(sign, z3.Plus(D), rx.lit(".0"), expo)  # image of the bare exponent form under the added point
    repr_i = z3.Concat(sign, z3.Plus(D))

    def lem(name, regex):
        stt, w = rx.nonempty(regex)
        recs.append({"name": TOS + "/" + name, "status": {"unsat": "unsat", "sat": "sat"}.get(stt, "unknown"), "backend": "z3(seq)", "time_s": 0,
                     "function": TOS, "clause": "render", "witness": w})

    if "FLOAT" in by and "INT" in by:
        lem("L-OUT: every written float is a FLOAT lexeme", z3.Intersect(z3.Union(plain_f, bare_f), z3.Complement(by["FLOAT"].re)))
        lem("L-OUT: every written integer is an INT lexeme", z3.Intersect(repr_i, z3.Complement(by["INT"].re)))
    if "STRING" in by:
        # escaped content: no bare double quote, every backslash starts a two-character escape of \\ or \"
        body = z3.Star(z3.Union(z3.Intersect(rx.ANYCHAR, z3.Complement(rx.chars('"\\'))), rx.lit("\\\\"), rx.lit('\\"')))
        lem("L-OUT: every written string is one STRING lexeme", z3.Intersect(z3.Concat(rx.lit('"'), body, rx.lit('"')), z3.Complement(by["STRING"].re)))
    return recs, functions
