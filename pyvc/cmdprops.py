"""Properties decided over the EEMS command `execute` bodies (C03..C09, parts of C01/C02)."""
import itertools
import json
import os
import time
from concurrent.futures import ProcessPoolExecutor

from . import registry, replay, spec as S, cmdspec, smt
from .decl import CommandDecl, ParamDecl
from .engine import Engine
from .extract import Repo
from .values import Unsupported

FUZZY_OPERATORS = ["FuzzyOr", "FuzzyAnd", "FuzzyNot", "FuzzyUnion", "FuzzyWeightedUnion", "FuzzySelectedUnion", "FuzzyXOr"]
ARITH = ["Sum", "WeightedSum", "Multiply", "AMinusB", "ADividedByB", "Minimum", "Maximum", "Mean", "WeightedMean", "Copy"]
CONVERSIONS = ["CvtToFuzzy", "CvtFromFuzzy", "CvtToBinary", "CvtToFuzzyCat", "CvtToFuzzyCurve", "CvtToFuzzyZScore",
               "CvtToFuzzyCurveZScore", "CvtToFuzzyMeanToMid", "Normalize", "NormalizeZScore", "NormalizeCat",
               "NormalizeCurve", "NormalizeMeanToMid", "NormalizeCurveZScore"]
ALL_DATA = sorted(set(FUZZY_OPERATORS + ARITH + CONVERSIONS))

# property -> (commands or None for "by rule", clauses selected from each command's VCs)
SELECT = {
    "C03": (ALL_DATA, {"kind", "mask", "value", "invariant", "callsite"}),
    "C04": ("fuzzy", {"fuzzy_range", "invariant", "callsite"}),
    "C05": (ALL_DATA, {"shape", "invariant", "callsite"}),
    "C06": (FUZZY_OPERATORS, {"value", "raises", "raises_only", "invariant", "callsite"}),
    "C07": (ARITH, {"value", "dtype", "raises", "raises_only", "invariant", "callsite"}),
    "C08": (CONVERSIONS, {"value", "raises", "raises_only", "invariant", "callsite"}),
    "C09": (ALL_DATA + ["PrintVars"], {"frame", "invariant"}),
    "C01cmd": (ALL_DATA + ["PrintVars"], {"touches"}),
    "C02cmd": (ALL_DATA, {"kind", "dtype", "fuzzy_range"}),
}


def _clause_of(r):
    if r.get("clause"):
        return r["clause"]
    k = r.get("kind")
    if k == "invariant":
        return "invariant"
    if k == "callsite-requires":
        return "callsite"
    return k or "other"


def _verify_one(args):
    """worker: verify one command; returns serialisable VC records (+ concrete cases for counter-models)."""
    name, root = args
    t0 = time.time()
    repo = Repo(root)
    SPECS, classes = registry.load(repo)
    out = {"command": name, "records": [], "error": None, "unsupported": None, "function": None, "wall_s": 0}
    if name not in classes:
        out["error"] = "class %s not found in the EEMS libraries" % name
        return out
    if name not in SPECS:
        out["error"] = "no specification for %s" % name
        return out
    ci = classes[name]
    eng = Engine(repo, S.CONTRACTS, S.LOOPS)
    fi = repo.find_method(ci, "execute")
    out["function"] = fi.describe() if fi is not None else None
    try:
        res = cmdspec.verify_execute(eng, ci, SPECS[name])
    except Unsupported as e:
        out["unsupported"] = str(e)
        res = eng.results
    except Exception as e:  # engine bug: checker error, never a verdict
        import traceback

        out["error"] = "%s: %s\n%s" % (type(e).__name__, e, traceback.format_exc()[-1200:])
        res = eng.results
    for r in res:
        rec = {k: v for k, v in r.items() if k not in ("model_obj", "state")}
        rec["clause"] = _clause_of(r)
        if r["status"] == "sat" and "model_obj" in r and eng.x is not None:
            try:
                rec["case"] = replay.concretize(eng.x, r["state"], r["model_obj"], ci)
            except Exception as e:
                rec["case_error"] = "%s: %s" % (type(e).__name__, e)
        out["records"].append(rec)
    out["assumed"] = sorted("%s:%s" % a for a in eng.assumed_used)
    out["wall_s"] = round(time.time() - t0, 2)
    out["solver"] = dict(smt.STATS)
    return out


def _expect_one(args):
    name, root, case = args
    repo = Repo(root)
    SPECS, classes = registry.load(repo)
    try:
        e = replay.expected(repo, classes[name], SPECS[name], case, S.CONTRACTS, S.LOOPS)
    except Exception as ex:
        import traceback

        return {"error": "%s: %s %s" % (type(ex).__name__, ex, traceback.format_exc()[-800:])}
    return {"admissible": e.admissible, "note": e.note, "exc": e.exc, "result": e.result,
            "may_raise": getattr(e, "may_raise", []), "inconsistent": getattr(e, "inconsistent", False)}


class _E(object):
    pass


def _mk_expected(d):
    e = replay.Expected()
    e.admissible, e.note, e.exc, e.result = d["admissible"], d["note"], d["exc"], d["result"]
    e.may_raise = d.get("may_raise", [])
    return e


def fuzzy_commands(repo, classes):
    out = []
    for n in ALL_DATA:
        if n in classes and CommandDecl(repo, classes[n]).is_fuzzy is True:
            out.append(n)
    return out


def verify_commands(names, root, workers=16):
    with ProcessPoolExecutor(max_workers=min(workers, max(1, len(names)))) as ex:
        return list(ex.map(_verify_one, [(n, root) for n in names]))


def evaluate_cases(tasks, root, workers=16):
    """tasks: list of (command, case). returns list of (expected dict, real outcome, violated clauses)."""
    if not tasks:
        return []
    outs = replay.run_real([c for _, c in tasks], repo_root=root)
    with ProcessPoolExecutor(max_workers=min(workers, len(tasks))) as ex:
        exps = list(ex.map(_expect_one, [(n, root, c) for n, c in tasks], chunksize=max(1, len(tasks) // (workers * 4))))
    res = []
    for (n, c), o, e in zip(tasks, outs, exps):
        if "error" in e:
            res.append((e, o, [("checker-error", e["error"])]))
        elif not e["admissible"]:
            res.append((e, o, None))
        else:
            res.append((e, o, replay.compare(_mk_expected(e), o, c)))
    return res


# --------------------------------------------------------------------------- bounded battery (labelled bounded)
VALUES_F = [-1.0, -0.5, 0.0, 0.25, 1.0, 2.5]
VALUES_FZ = [-1.0, -0.4, 0.0, 0.3, 1.0]
VALUES_I = [-2, 0, 1, 3]


def battery(repo, classes, name, tier, seed=0):
    """Systematic small concrete cases for one command (bounded stand-in / cross-check of the axioms)."""
    import random

    rnd = random.Random(1000003 * seed + hash(name) % 1000)
    decl = CommandDecl(repo, classes[name])
    ncases = 12 if tier == "quick" else 60
    cases = []
    shapes = [[3], [2, 2], [1, 3]] if tier != "quick" else [[3], [2, 2]]
    for i in range(ncases):
        shape = shapes[i % len(shapes)]
        N = 1
        for d in shape:
            N *= d
        case = {"module": classes[name].module.dotted, "class": name, "inputs": {}, "params": {}, "shape": shape}

        def arr(fuzzy, dtype=None):
            if fuzzy:
                dt, vals = "float", VALUES_FZ
            else:
                dt = dtype or rnd.choice(["int", "float"])
                vals = VALUES_I if dt == "int" else VALUES_F
            data = [rnd.choice(vals) for _ in range(N)]
            mask = [rnd.random() < 0.3 for _ in range(N)]
            if all(mask):
                mask[rnd.randrange(N)] = False
            # payload under masked cells: something loud
            data = [(977 if dt == "int" else 977.5) if m else v for v, m in zip(data, mask)]
            return {"dtype": dt, "data": data, "mask": mask, "fuzzy": bool(fuzzy)}

        nlist = rnd.choice([1, 2, 3]) if i % 7 else rnd.choice([1, 4])
        for pname, p in decl.inputs.items():
            if pname == "Metadata":
                continue
            opt_absent = (not p.required) and rnd.random() < 0.5
            if p.cls == "ResultParameter":
                a = arr(p.is_fuzzy is True)
                a["kind"] = "single"
                case["inputs"][pname] = a
            elif p.cls == "ListParameter" and isinstance(p.value_type, ParamDecl) and p.value_type.cls == "ResultParameter":
                case["inputs"][pname] = {"kind": "list", "items": [arr(p.value_type.is_fuzzy is True) for _ in range(nlist)]}
            elif p.cls == "ListParameter":
                ln = nlist if pname == "Weights" else rnd.choice([2, 3])
                if pname in ("NormalValues", "FuzzyValues") and "IgnoreZeros" in decl.inputs:
                    ln = 5
                vals = [rnd.choice([-1.5, -1, 0, 0.5, 1, 2, 3]) for _ in range(ln)]
                case["params"][pname] = vals
            elif opt_absent:
                continue
            elif p.cls == "NumberParameter":
                case["params"][pname] = rnd.choice([-2, -0.5, 0, 0.75, 1, 2, 3.5])
                if pname == "NumberToConsider":
                    case["params"][pname] = rnd.choice([1, 2, nlist])
            elif p.cls == "StringParameter":
                if pname == "Direction":
                    case["params"][pname] = rnd.choice(["LowToHigh", "HighToLow", "HighToLow", "Sideways"])
                elif pname == "TruestOrFalsest":
                    case["params"][pname] = rnd.choice(["Truest", "Falsest", "Middle"])
                else:
                    case["params"][pname] = "x"
            elif p.cls == "BooleanParameter":
                case["params"][pname] = rnd.choice([True, False])
        # list-length agreement for value tables
        for a, b in (("RawValues", "NormalValues"), ("RawValues", "FuzzyValues"), ("ZScoreValues", "NormalValues"), ("ZScoreValues", "FuzzyValues")):
            if a in case["params"] and b in case["params"] and "IgnoreZeros" not in decl.inputs:
                ln = len(case["params"][a])
                raws = rnd.sample([-2, -1, 0, 0.5, 1, 2, 3], ln)
                case["params"][a] = raws
                case["params"][b] = (case["params"][b] * 3)[:ln]
        cases.append(case)
    return cases
