"""Properties decided over the EEMS command `execute` bodies (C03..C09, parts of C01/C02)."""
import itertools
import json
import os
import time
from concurrent.futures import ProcessPoolExecutor

from . import registry, replay, spec as S, cmdspec, smt
from .decl import CommandDecl, ParamDecl
from .engine import Engine
from .extract import Repo
from .values import Unsupported

FUZZY_OPERATORS = ["FuzzyOr", "FuzzyAnd", "FuzzyNot", "FuzzyUnion", "FuzzyWeightedUnion", "FuzzySelectedUnion", "FuzzyXOr"]
ARITH = ["Sum", "WeightedSum", "Multiply", "AMinusB", "ADividedByB", "Minimum", "Maximum", "Mean", "WeightedMean", "Copy"]
CONVERSIONS = ["CvtToFuzzy", "CvtFromFuzzy", "CvtToBinary", "CvtToFuzzyCat", "CvtToFuzzyCurve", "CvtToFuzzyZScore",
               "CvtToFuzzyCurveZScore", "CvtToFuzzyMeanToMid", "Normalize", "NormalizeZScore", "NormalizeCat",
               "NormalizeCurve", "NormalizeMeanToMid", "NormalizeCurveZScore"]
ALL_DATA = sorted(set(FUZZY_OPERATORS + ARITH + CONVERSIONS))

# property -> (commands or None for "by rule", clauses selected from each command's VCs)
SELECT = {
    "C03": (ALL_DATA, {"kind", "mask", "value", "invariant", "callsite"}),
    "C04": ("fuzzy", {"fuzzy_range", "invariant", "callsite"}),
    # C05: shape, plus the pointwise mask/value clauses (the equivariance under a cell bijection follows from them)
    "C05": (ALL_DATA, {"shape", "mask", "value", "invariant", "callsite"}),
    "C06": (FUZZY_OPERATORS, {"value", "mask", "raises", "raises_only", "invariant", "callsite"}),
    "C07": (ARITH, {"value", "mask", "dtype", "raises", "raises_only", "invariant", "callsite"}),
    "C08": (CONVERSIONS, {"value", "mask", "raises", "raises_only", "invariant", "callsite"}),
    "C09": (ALL_DATA + ["PrintVars"], {"frame", "invariant"}),
    "C01cmd": (ALL_DATA + ["PrintVars"], {"touches"}),
    # C02: every execute equals its spec function of the input *views* (kind, shape, dtype, mask, value), keeps the fuzzy range,
    # leaves its inputs alone (frame) and reads every reference (touches)
    "C02cmd": (ALL_DATA, {"kind", "dtype", "shape", "mask", "value", "fuzzy_range", "frame", "touches", "invariant", "callsite"}),
    "C02": (ALL_DATA, {"kind", "dtype", "shape", "mask", "value", "fuzzy_range", "frame", "touches", "invariant", "callsite"}),
}


def _clause_of(r):
    if r.get("clause"):
        return r["clause"]
    k = r.get("kind")
    if k == "invariant":
        return "invariant"
    if k == "callsite-requires":
        return "callsite"
    return k or "other"


HELPERS_FOR = {
    "C03": ["insure_fuzzy", "make_masked"],
    "C04": ["insure_fuzzy"],
    "C05": ["validate_array_shapes", "insure_fuzzy", "make_masked"],
    "C06": ["validate_array_shapes"],
    "C07": ["validate_array_shapes"],
    "C08": ["insure_fuzzy"],
    "C09": ["insure_fuzzy", "make_masked", "validate_array_shapes"],
    "C02": ["insure_fuzzy", "make_masked", "validate_array_shapes"],
}


def _verify_helper(name, root):
    from . import helperprops

    t0 = time.time()
    repo = Repo(root)
    registry.load(repo)
    key, fn = helperprops.HELPERS[name]
    out = {"command": "helper:" + name, "records": [], "error": None, "unsupported": None, "function": None, "wall_s": 0, "helper": True}
    if not repo.has_func(key):
        out["error"] = "function %s not found" % key
        return out
    out["function"] = repo.func(key).describe()
    # the body is verified against its own contract: the contract is not applied to itself
    eng = Engine(repo, {k: v for k, v in S.CONTRACTS.items() if k != key}, S.LOOPS)
    try:
        fn(eng)
    except Unsupported as e:
        out["unsupported"] = str(e)
    except Exception as e:
        import traceback

        out["error"] = "%s: %s\n%s" % (type(e).__name__, e, traceback.format_exc()[-1200:])
    for r in eng.results:
        rec = {k: v for k, v in r.items() if k not in ("model_obj", "state")}
        rec["clause"] = "helper"
        out["records"].append(rec)
    out["assumed"] = sorted("%s:%s" % a for a in eng.assumed_used)
    out["wall_s"] = round(time.time() - t0, 2)
    return out


def _verify_one(args):
    """worker: verify one command; returns serialisable VC records (+ concrete cases for counter-models)."""
    name, root = args
    if name.startswith("helper:"):
        return _verify_helper(name[len("helper:"):], root)
    t0 = time.time()
    repo = Repo(root)
    SPECS, classes = registry.load(repo)
    out = {"command": name, "records": [], "error": None, "unsupported": None, "function": None, "wall_s": 0}
    if name not in classes:
        out["error"] = "class %s not found in the EEMS libraries" % name
        return out
    if name not in SPECS:
        out["error"] = "no specification for %s" % name
        return out
    ci = classes[name]
    eng = Engine(repo, S.CONTRACTS, S.LOOPS)
    fi = repo.find_method(ci, "execute")
    out["function"] = fi.describe() if fi is not None else None
    try:
        res = cmdspec.verify_execute(eng, ci, SPECS[name])
    except Unsupported as e:
        out["unsupported"] = str(e)
        res = eng.results
    except Exception as e:  # engine bug: checker error, never a verdict
        import traceback

        out["error"] = "%s: %s\n%s" % (type(e).__name__, e, traceback.format_exc()[-1200:])
        res = eng.results
    for r in res:
        rec = {k: v for k, v in r.items() if k not in ("model_obj", "state")}
        rec["clause"] = _clause_of(r)
        if r["status"] == "sat" and "model_obj" in r and eng.x is not None:
            try:
                rec["case"] = replay.concretize(eng.x, r["state"], r["model_obj"], ci)
            except Exception as e:
                rec["case_error"] = "%s: %s" % (type(e).__name__, e)
        out["records"].append(rec)
    out["assumed"] = sorted("%s:%s" % a for a in eng.assumed_used)
    out["wall_s"] = round(time.time() - t0, 2)
    out["solver"] = dict(smt.STATS)
    return out


def int_partial_overflow(case):
    """A-REAL for products: True if, at some cell, the integer-typed inputs of a Multiply alone multiply to something outside int64 - the machine
    result then depends on where the floats sit in the list (an integer partial product wraps before it meets a float)"""
    if case.get("class") != "Multiply":
        return False
    for spec in case.get("inputs", {}).values():
        items = spec.get("items") if spec.get("kind") == "list" else None
        if not items:
            continue
        ints = [it for it in items if it.get("dtype") == "int"]
        if len(ints) < 2:
            continue
        for cell in range(min(len(it["data"]) for it in ints)):
            prod = 1
            for it in ints:
                prod *= max(1, abs(int(it["data"][cell])))
            if prod >= 2 ** 62:
                return True
    return False


def _expect_one(args):
    name, root, case = args
    if int_partial_overflow(case):
        return {"admissible": False, "note": "an integer partial product exceeds int64 (machine overflow is outside A-REAL)", "exc": None, "result": None,
                "may_raise": [], "inconsistent": False}
    repo = Repo(root)
    SPECS, classes = registry.load(repo)
    try:
        e = replay.expected(repo, classes[name], SPECS[name], case, S.CONTRACTS, S.LOOPS)
    except Exception as ex:
        import traceback

        return {"error": "%s: %s %s" % (type(ex).__name__, ex, traceback.format_exc()[-800:])}
    res = e.result
    if e.admissible and res and res.get("value") is None and name in MEANTOMID and not e.exc:
        try:
            derived = meantomid_reference(repo, SPECS, classes, name, case, root)
            if derived == "rounding-sensitive":
                return {"admissible": False, "note": "double rounding changes which control points coincide (outside A-REAL)", "exc": e.exc, "result": res,
                        "may_raise": getattr(e, "may_raise", []), "inconsistent": getattr(e, "inconsistent", False)}
            if derived is not None:
                res = dict(res, value=derived, value_source="bounded reference: NormalizeCurve / CvtToFuzzyCurve contract at the documented control points")
                e.result = res
        except Exception as ex:
            return {"error": "mean-to-mid reference: %s: %s" % (type(ex).__name__, ex)}
    if e.admissible and res and res.get("dtype") == "int" and res.get("value") and any(v is not None and abs(v) >= 2.0 ** 62 for v in res["value"]):
        # A-REAL: integers are mathematical; a case whose exact integer result does not fit int64 is outside what is claimed
        return {"admissible": False, "note": "the exact integer result exceeds int64 (machine overflow is outside A-REAL)", "exc": e.exc, "result": res,
                "may_raise": getattr(e, "may_raise", []), "inconsistent": getattr(e, "inconsistent", False)}
    return {"admissible": e.admissible, "note": e.note, "exc": e.exc, "result": e.result,
            "may_raise": getattr(e, "may_raise", []), "inconsistent": getattr(e, "inconsistent", False)}


MEANTOMID = {"NormalizeMeanToMid": "NormalizeCurve", "CvtToFuzzyMeanToMid": "CvtToFuzzyCurve"}


def meantomid_reference(repo, SPECS, classes, name, case, root):
    """Bounded reference for the value clause the MeanToMid contracts leave open (documented definition): a piecewise-linear
    curve through (min, mean of the values <= mean, mean, mean of the values > mean, max) of the valid data, where
    IgnoreZeros removes zeros from the three means only; coinciding end points are merged. The curve itself is evaluated by
    the NormalizeCurve / CvtToFuzzyCurve contract."""
    from fractions import Fraction

    inp = case["inputs"]["InFieldName"]
    vals = [Fraction(v) for v, m in zip(inp["data"], inp["mask"]) if not m]
    if not vals:
        return None
    lo, hi = min(vals), max(vals)
    pool = [v for v in vals if v != 0] if case["params"].get("IgnoreZeros") else list(vals)
    if not pool:
        return None
    mean = sum(pool) / len(pool)
    below = [v for v in pool if v <= mean]
    above = [v for v in pool if v > mean]
    if not below or not above:
        return None
    raw = [lo, sum(below) / len(below), mean, sum(above) / len(above), hi]
    # A-REAL: the claim is about real arithmetic. Where double rounding changes one of the comparisons that shape the curve
    # (which cells lie below the mean, whether end points coincide), the case is outside it.
    fvals = [float(v) for v in vals]
    fpool = [v for v in fvals if v != 0] if case["params"].get("IgnoreZeros") else list(fvals)
    fmean = sum(fpool) / len(fpool)
    fbelow, fabove = [v for v in fpool if v <= fmean], [v for v in fpool if v > fmean]
    if len(fbelow) != len(below) or len(fabove) != len(above) or not fbelow or not fabove:
        return "rounding-sensitive"
    fraw = [min(fvals), sum(fbelow) / len(fbelow), fmean, sum(fabove) / len(fabove), max(fvals)]
    if (fraw[-1] == fraw[-2]) != (raw[-1] == raw[-2]) or (fraw[0] == fraw[1]) != (raw[0] == raw[1]):
        return "rounding-sensitive"
    pname = "NormalValues" if name == "NormalizeMeanToMid" else "FuzzyValues"
    normal = list(case["params"][pname])
    if len(normal) != 5:
        return None
    if raw[-1] == raw[-2]:
        del raw[-2]
        del normal[-2]
    if raw[0] == raw[1]:
        del raw[1]
        del normal[1]
    if len(set(raw)) != len(raw):
        return None  # DuplicateRawValues territory: the curve contract decides, not this reference
    curve = MEANTOMID[name]
    c2 = {"module": classes[curve].module.dotted, "class": curve, "shape": case["shape"], "inputs": {"InFieldName": case["inputs"]["InFieldName"]},
          "params": {"RawValues": [float(r) for r in raw], pname: normal}}
    e2 = replay.expected(repo, classes[curve], SPECS[curve], c2, S.CONTRACTS, S.LOOPS)
    if not e2.admissible or e2.exc or not e2.result or e2.result.get("value") is None:
        return None
    return e2.result["value"]


class _E(object):
    pass


def _mk_expected(d):
    e = replay.Expected()
    e.admissible, e.note, e.exc, e.result = d["admissible"], d["note"], d["exc"], d["result"]
    e.may_raise = d.get("may_raise", [])
    return e


def fuzzy_commands(repo, classes):
    out = []
    for n in ALL_DATA:
        if n in classes and CommandDecl(repo, classes[n]).is_fuzzy is True:
            out.append(n)
    return out


def verify_commands(names, root, workers=16):
    with ProcessPoolExecutor(max_workers=min(workers, max(1, len(names)))) as ex:
        return list(ex.map(_verify_one, [(n, root) for n in names]))


def evaluate_cases(tasks, root, workers=16):
    """tasks: list of (command, case). returns list of (expected dict, real outcome, violated clauses)."""
    if not tasks:
        return []
    outs = replay.run_real([c for _, c in tasks], repo_root=root)
    with ProcessPoolExecutor(max_workers=min(workers, len(tasks))) as ex:
        exps = list(ex.map(_expect_one, [(n, root, c) for n, c in tasks], chunksize=max(1, len(tasks) // (workers * 4))))
    res = []
    for (n, c), o, e in zip(tasks, outs, exps):
        if "error" in e:
            res.append((e, o, [("checker-error", e["error"])]))
        elif not e["admissible"]:
            res.append((e, o, None))
        else:
            res.append((e, o, replay.compare(_mk_expected(e), o, c)))
    return res


# --------------------------------------------------------------------------- bounded battery (labelled bounded)
VALUES_F = [-1.0, -0.5, 0.0, 0.25, 1.0, 2.5, 2.6]
VALUES_FZ = [-1.0, -0.5, -0.4, 0.0, 0.3, 1.0]
VALUES_I = [-2, 0, 1, 3, 2]
SHAPES_QUICK = [[3], [2, 2], [1, 3], [2, 1, 2]]
SHAPES_FOCUS = SHAPES_QUICK + [[4], [3, 1], [2, 3, 2], [1, 1, 3], [5], [2, 2, 2]]


def _size(shape):
    n = 1
    for d in shape:
        n *= d
    return n


def battery(repo, classes, name, tier, seed=0, focus=False):
    """Systematic small concrete cases for one command (bounded stand-in / cross-check of the axioms).
    focus=True: the larger, more varied set used when the proof of this command is undecided and in the thorough tier."""
    import random

    rnd = random.Random(1000003 * seed + sum(ord(ch) for ch in name))
    decl = CommandDecl(repo, classes[name])
    ncases = 300 if focus else (16 if tier == "quick" else 80)
    shapes = SHAPES_FOCUS if (focus or tier != "quick") else SHAPES_QUICK
    cases = []
    has_cats = "RawValues" in decl.inputs and "IgnoreZeros" not in decl.inputs
    for i in range(ncases):
        shape = shapes[i % len(shapes)]
        N = _size(shape)
        case = {"module": classes[name].module.dotted, "class": name, "inputs": {}, "params": {}, "shape": shape}
        style = rnd.choice(["plain", "plain", "largeclose", "dups", "frac"])
        maskstyle = rnd.choice(["none", "same", "staggered", "random", "random"])
        same_mask = [rnd.random() < 0.35 for _ in range(N)]
        if all(same_mask):
            same_mask[rnd.randrange(N)] = False
        raws = None
        if has_cats:
            ln = rnd.choice([1, 2, 3])
            pool = [250000, 250001, 250002, 250003, 250004] if style == "largeclose" else [-2, -1, 0, 0.5, 1, 2, 3]
            raws = rnd.sample(pool, ln)
        counter = [0]
        fortran = len(shape) >= 2 and (i % 3 == 1)

        def arr(fuzzy, sh, dtype=None):
            n_ = _size(sh)
            if fuzzy:
                dt, vals = "float", VALUES_FZ
            else:
                dt = dtype or rnd.choice(["int", "float"])
                vals = VALUES_I if dt == "int" else VALUES_F
                if style == "largeclose":
                    vals = [250000, 250001, 250002, 250003] if dt == "int" else [250000.0, 250001.0, 250002.0, 250003.0]
                elif style == "frac" and dt == "float":
                    vals = [0.4, 1.4, 2.0000001, 2.6, 3.0]
            data = [rnd.choice(vals) for _ in range(n_)]
            if style == "dups":
                data = [data[0]] * (n_ - 1) + [data[-1]]
            idx = counter[0]
            counter[0] += 1
            if maskstyle == "none":
                mask = [False] * n_
            elif maskstyle == "same":
                mask = (same_mask * 3)[:n_]
            elif maskstyle == "staggered":
                mask = [(j == idx % n_) for j in range(n_)]
            else:
                mask = [rnd.random() < 0.3 for _ in range(n_)]
            if all(mask):
                mask[rnd.randrange(n_)] = False
            # payload under masked cells: loud, or colliding with a category / a plausible value
            pay = rnd.choice(["loud", "collide", "loud"])
            loud = 977 if dt == "int" else 977.5
            if fuzzy:
                loud = 5.5
            coll = (raws[0] if raws else (vals[0]))
            if dt == "int":
                coll = int(coll)
            data = [((coll if pay == "collide" else loud) if m else v) for v, m in zip(data, mask)]
            out_ = {"dtype": dt, "data": data, "mask": mask, "fuzzy": bool(fuzzy)}
            if fortran and len(sh) >= 2:
                out_["layout"] = "F"  # memory layout must not matter: column-major (non C-contiguous) inputs
            return out_

        nlist = rnd.choice([1, 2, 2, 3, 3, 4, 5]) if (focus or tier != "quick") else rnd.choice([1, 2, 3, 3, 4])
        for pname, p in decl.inputs.items():
            if pname == "Metadata":
                continue
            opt_absent = (not p.required) and rnd.random() < 0.5
            if p.cls == "ResultParameter":
                a = arr(p.is_fuzzy is True, shape)
                a["kind"] = "single"
                case["inputs"][pname] = a
            elif p.cls == "ListParameter" and isinstance(p.value_type, ParamDecl) and p.value_type.cls == "ResultParameter":
                items = []
                for _k in range(nlist):
                    sh = shape
                    if _k > 0 and rnd.random() < 0.06:
                        sh = rnd.choice([[N, 1], [1, N], [N + 1]]) if len(shape) == 1 else [N]
                    it = arr(p.value_type.is_fuzzy is True, sh)
                    if sh is not shape and list(sh) != list(shape):
                        it["shape"] = sh
                    items.append(it)
                case["inputs"][pname] = {"kind": "list", "items": items}
            elif p.cls == "ListParameter":
                if pname == "Weights":
                    ln = nlist if rnd.random() < 0.9 else nlist + 1
                    vals = [rnd.choice([1, 2, 0.5, 1.5, -1, 0, 3]) for _ in range(ln)]
                elif pname == "RawValues":
                    vals = list(raws)
                elif "IgnoreZeros" in decl.inputs:
                    vals = [rnd.choice([-1.5, -1, -0.5, 0, 0.5, 1, 2]) for _ in range(5)]
                else:
                    ln = len(raws) if raws is not None else rnd.choice([2, 3])
                    if rnd.random() < 0.07:
                        ln += 1
                    vals = [rnd.choice([-40, -1.5, -1, 0, 0.5, 1, 2.5, 3]) for _ in range(ln)]
                    if pname == "ZScoreValues":
                        vals = rnd.sample([-2, -1, -0.5, 0, 0.5, 1, 2], min(ln, 3))
                case["params"][pname] = vals
            elif opt_absent:
                continue
            elif p.cls == "NumberParameter":
                if pname == "NumberToConsider":
                    case["params"][pname] = rnd.choice([1, 2, nlist, nlist, nlist + 1])
                elif "Default" in pname:
                    case["params"][pname] = rnd.choice([-40, -1, 0, 0.1, 1, 2.5])
                else:
                    case["params"][pname] = rnd.choice([-2, -0.5, 0, 0, 0.75, 1, 2, 3, 3.5, 5])
            elif p.cls == "StringParameter":
                if pname == "Direction":
                    case["params"][pname] = rnd.choice(["LowToHigh", "HighToLow", "HighToLow", "LowToHigh", "Sideways"])
                elif pname == "TruestOrFalsest":
                    case["params"][pname] = rnd.choice(["Truest", "Falsest", "Truest", "Falsest", "Middle"])
                else:
                    case["params"][pname] = "x"
            elif p.cls == "BooleanParameter":
                case["params"][pname] = rnd.choice([True, False])
        for a, b in (("ZScoreValues", "NormalValues"), ("ZScoreValues", "FuzzyValues")):
            if a in case["params"] and b in case["params"] and rnd.random() < 0.93:
                ln = len(case["params"][a])
                case["params"][b] = (case["params"][b] * 3)[:ln]
        cases.append(case)
    return cases


# --------------------------------------------------------------------------- C09: a produced result survives every consumer
def immutability_cases(repo, classes, tier, seed=0):
    """every data command as producer (battery inputs incl. out-of-range parameters) followed by a chain of consumers: every command
    that can take the result in a data input of compatible fuzziness - unary ones, the single-input forms of the n-ary ones, the CSV writer"""
    import random

    rnd = random.Random(4242 + seed)
    consumers = []
    extra = {}
    for ci in repo.all_classes():
        if ci.module.relpath.endswith("csv/io.py") and ci.name == "EEMSWrite":
            extra["EEMSWrite"] = ci
    for cname in ALL_DATA + ["PrintVars"]:
        decl = CommandDecl(repo, classes[cname])
        tmpl = battery(repo, classes, cname, "quick", seed)[0]["params"]
        step = {"module": classes[cname].module.dotted, "class": cname, "params": {}, "single": [], "lists": [], "paths": [], "fuzzy_in": None}
        ok = True
        for pn, p in decl.inputs.items():
            if pn == "Metadata":
                continue
            if p.cls == "ResultParameter":
                step["single"].append(pn)
                step["fuzzy_in"] = p.is_fuzzy
            elif p.cls == "ListParameter" and isinstance(p.value_type, ParamDecl) and p.value_type.cls == "ResultParameter":
                step["lists"].append(pn)
                step["fuzzy_in"] = p.value_type.is_fuzzy
            elif p.cls == "PathParameter":
                if p.required:
                    step["paths"].append(pn)
            elif pn == "Weights":
                step["params"][pn] = [1]
            elif pn == "NumberToConsider":
                step["params"][pn] = 1
            elif pn in tmpl:
                step["params"][pn] = tmpl[pn]
            elif p.required:
                ok = False
        if ok and (step["single"] or step["lists"]):
            consumers.append(step)
    if "EEMSWrite" in extra:
        consumers.append({"module": extra["EEMSWrite"].module.dotted, "class": "EEMSWrite", "params": {}, "single": [], "lists": ["OutFieldNames"], "paths": ["OutFileName"],
                          "fuzzy_in": None})
    cases = []
    per = 10 if tier == "quick" else 40
    for pname in ALL_DATA:
        pdecl = CommandDecl(repo, classes[pname])
        fz = bool(pdecl.is_fuzzy)
        chain = [dict(c) for c in consumers if c["fuzzy_in"] is None or c["fuzzy_in"] == fz]
        for base in battery(repo, classes, pname, tier, seed + 5)[:per]:
            ch = list(chain)
            # the n-ary consumers also in a two-input form fed the same result twice (weights 1 and 3: an accumulator must not be the input itself)
            for c in chain:
                if c["lists"] and c["class"] != "EEMSWrite":
                    c2 = dict(c, params=dict(c["params"]), double=True)
                    if "Weights" in c2["params"]:
                        c2["params"]["Weights"] = [1, 3]
                    ch.append(c2)
            rnd.shuffle(ch)
            cases.append(dict(base, then=[{k: v for k, v in c.items() if k != "fuzzy_in"} for c in ch]))
    # results holding non-finite cells and no mask at all (only their staying untouched is judged here, values are outside A-REAL)
    nan = float("nan")
    for pname, fz, data in (("FuzzyNot", True, [0.5, nan, -0.25, float("inf")]), ("Copy", False, [2.0, nan, -1.0, float("-inf")])):
        if pname not in classes:
            continue
        chain = [dict(c) for c in consumers if c["fuzzy_in"] is None or c["fuzzy_in"] == fz]
        for nomask in (True, False):
            inp = {"kind": "single", "dtype": "float", "data": data, "mask": [False] * 4, "fuzzy": fz}
            if nomask:
                inp["nomask"] = True
            cases.append({"module": classes[pname].module.dotted, "class": pname, "inputs": {"InFieldName": inp}, "params": {}, "shape": [4],
                          "then": [{k: v for k, v in c.items() if k != "fuzzy_in"} for c in chain]})
    return cases


SHAPE_PAIRS = [([4, 1], [4]), ([4], [1, 4]), ([2, 1, 2], [2, 2]), ([1, 3], [3]), ([3], [3, 1]), ([2, 2], [4]), ([2, 3], [3, 2]), ([1, 1, 3], [1, 3]),
               ([2, 2], [2, 2, 1]), ([1], [1, 1]), ([4], [2]), ([2, 1], [1, 2])]


def shape_confusion_cases(repo, classes, names, tier, seed=0):
    """commands with two or more data inputs, fed inputs whose shapes differ (also only by length-1 axes, by a transposition, or by
    a reshape of the same cells): C05 lets them raise or return the shape of *every* input - which no result can do here"""
    cases = []
    for n in names:
        decl = CommandDecl(repo, classes[n])
        singles = [pn for pn, p in decl.inputs.items() if p.cls == "ResultParameter"]
        lists = [pn for pn, p in decl.inputs.items() if p.cls == "ListParameter" and isinstance(p.value_type, ParamDecl) and p.value_type.cls == "ResultParameter"]
        if not lists and len(singles) < 2:
            continue
        base = None
        for b in battery(repo, classes, n, "thorough", seed + 3):
            if lists and len(b["inputs"][lists[0]].get("items", [])) < 2:
                continue
            if any("shape" in it for pn in lists for it in b["inputs"][pn]["items"]):
                continue
            base = b
            break
        if base is None:
            continue

        def fit(spec, sh, own):
            m = _size(sh)
            d = dict(spec)
            d["data"] = (list(spec["data"]) * (m + 1))[:m]
            d["mask"] = [False] * m
            d.pop("layout", None)
            if own:
                d["shape"] = sh
            return d

        for (s1, s2) in SHAPE_PAIRS:
            for (x, y) in ((s1, s2), (s2, s1)):
                c = dict(base, shape=x, inputs={}, params=dict(base["params"]))
                for pn, spec in base["inputs"].items():
                    if spec.get("kind") == "single":
                        c["inputs"][pn] = fit(spec, y if (not lists and pn == singles[-1]) else x, not lists and pn == singles[-1])
                    else:
                        items = spec["items"]
                        c["inputs"][pn] = {"kind": "list", "items": [fit(it, y if k == len(items) - 1 else x, k == len(items) - 1) for k, it in enumerate(items)]}
                cases.append(c)
    return cases


def judge_shape_confusion(case, o):
    if o.get("outcome") == "harness-error":
        return [("harness-error", o.get("error", "")[-300:])]
    if o.get("outcome") != "return":
        return []
    r = o.get("result") or {}
    shapes = []
    for pn, spec in case["inputs"].items():
        for it in ([spec] if spec.get("kind") == "single" else spec["items"]):
            shapes.append(list(it.get("shape", case["shape"])))
    got = r.get("shape")
    wrong = [sh for sh in shapes if sh != got]
    if wrong:
        return [("shape", "%s accepted inputs of shapes %s and returned %s of shape %s: not the shape of its inputs" % (case["class"], shapes, r.get("kind"), got))]
    return []


def reorder_cases(repo, classes, names, tier, seed=0):
    """the list-input commands among `names` over shared input objects, evaluated in the listed order and then in a permuted one
    (weights move with their layers; a first weight of 1 and a repeated layer are among the cases)"""
    import random

    rnd = random.Random(777 + seed)
    cases = []
    per = 12 if tier == "quick" else 60
    for n in names:
        decl = CommandDecl(repo, classes[n])
        lists = [pn for pn, p in decl.inputs.items() if p.cls == "ListParameter" and isinstance(p.value_type, ParamDecl) and p.value_type.cls == "ResultParameter"]
        if len(lists) != 1:
            continue
        got = 0
        for base in battery(repo, classes, n, "thorough", seed + 11):
            items = base["inputs"][lists[0]].get("items", [])
            k = len(items)
            if k < 2 or any(tuple(it.get("shape", base["shape"])) != tuple(base["shape"]) for it in items):
                continue
            if int_partial_overflow(base):
                continue  # outside A-REAL: the wrapped integer partial product depends on the order by construction
            c = dict(base, params=dict(base["params"]))
            w = c["params"].get("Weights")
            if isinstance(w, list) and len(w) == k and got % 2 == 0:
                c["params"]["Weights"] = [1] + list(w[1:])
            perm = list(range(k))
            while perm == list(range(k)):
                rnd.shuffle(perm)
            if got % 3 == 2:
                perm = perm[::-1] if perm[::-1] != list(range(k)) else perm
            c["reorder"] = perm
            cases.append(c)
            got += 1
            if got >= per:
                break
    return cases


def judge_reorder(case, o):
    if o.get("outcome") == "harness-error":
        return [("harness-error", o.get("error", "")[-300:])]
    r = o.get("reordered")
    if not r or o.get("outcome") != "return":
        return []
    a = o.get("result") or {}
    if r.get("outcome") != "return":
        return [("value", "%s accepts its inputs in the listed order but raises %s for the order %s" % (case["class"], r.get("exc_class"), case["reorder"]))]
    b = r.get("result") or {}
    if a.get("kind") == "other" or b.get("kind") == "other":
        return []
    if a.get("shape") != b.get("shape") or a.get("mask") != b.get("mask"):
        return [("mask", "%s: shape / missing cells differ between the listed order and the order %s: %s vs %s" % (case["class"], case["reorder"], a.get("mask"), b.get("mask")))]
    for i, (x, y, m) in enumerate(zip(a["data"], b["data"], a["mask"])):
        if m:
            continue
        if isinstance(x, str) or isinstance(y, str):
            if x != y:
                return [("value", "%s: cell %d differs between orders: %s vs %s" % (case["class"], i, x, y))]
        elif not replay.close(x, y):
            return [("value", "%s: cell %d is %r in the listed order and %r in the order %s (same input objects, weights moved with their layers)" % (case["class"], i, x, y, case["reorder"]))]
    return []


def judge_immutability(case, o):
    if o.get("outcome") == "harness-error":
        return [("harness-error", o.get("error", "")[-300:])]
    t = o.get("then")
    if not t:
        return []
    s0 = t["snapshot"]

    def same(a, b):
        if a.get("kind") != b.get("kind") or a.get("dtype") != b.get("dtype") or a.get("shape") != b.get("shape") or a.get("mask") != b.get("mask"):
            return False
        for x, y, m in zip(a["data"], b["data"], a["mask"]):
            if not m and not (x == y or (isinstance(x, str) and x == y) or (not isinstance(x, str) and not isinstance(y, str) and replay.close(x, y))):
                return False
        return True

    for rec in t["chain"]:
        if not same(s0, rec["after"]):
            return [("frame", "the result of %s changed after it was consumed by %s (%s): %s -> %s" % (case["class"], rec["consumer"], rec["outcome"],
                                                                                                 {k: s0[k] for k in ("dtype", "mask", "data")}, {k: rec["after"][k] for k in ("dtype", "mask", "data")}))]
    return []
