"""C16: EEMS 2.0 command files translate to equivalent MPilot programs.

TABLE (exhaustive over the extracted literal), the contracts of utils.convert_eems2_commands and its nested
find_argument (verified with the symbolic executor), and the bounded comparison of v2 files with their v3
transcriptions on the real loader."""
import ast
import json
import os
import subprocess
import tempfile

import z3

from . import smt, spec as S, replay
from .dyn import Val, dyn, FLD, py_eq
from .engine import Engine
from .state import State
from .values import Unsupported, Sym, Ref, PyList, SeqV, PyDict, Bag, Obj, ClassV, Raised, ExcSym, TupleV

UTILS = "mpilot/utils.py"
CONV = UTILS + "::convert_eems2_commands"
FIND = UTILS + "::convert_eems2_commands.find_argument"
I_ = z3.IntSort()
IS_CMDNODE = z3.Function("is_command_node", I_, z3.BoolSort())
MINIDX = z3.Function("first_match_index", I_, z3.StringSort(), I_)
HASMATCH = z3.Function("has_match", I_, z3.StringSort(), z3.BoolSort())


# --------------------------------------------------------------------------- TABLE
def literal_dict(repo, relpath, name):
    node = repo.modules[relpath].globals.get(name)
    if not isinstance(node, ast.Dict):
        return None
    return {ast.literal_eval(k): ast.literal_eval(v) for k, v in zip(node.keys, node.values)}


def library_command_names(repo):
    """command name -> module, over the classes of the modules under EEMS_CSV_LIBRARIES / EEMS_NETCDF_LIBRARIES"""
    prog = repo.modules["mpilot/program.py"]
    libs = set()
    for g in ("EEMS_CSV_LIBRARIES", "EEMS_NETCDF_LIBRARIES"):
        node = prog.globals.get(g)
        if isinstance(node, (ast.Tuple, ast.List)):
            libs |= set(ast.literal_eval(node))
    names = {}
    for ci in repo.all_classes():
        dotted = ci.module.dotted
        if not any(dotted == l or dotted.startswith(l + ".") for l in libs):
            continue
        if ci.name == "Command" or not repo.is_subclass(ci, "Command"):
            continue
        c, e = repo.find_class_attr(ci, "name")
        nm = ast.literal_eval(e) if (e is not None and isinstance(e, ast.Constant)) else ci.name
        names.setdefault(nm, []).append(dotted)
    return names, sorted(libs)


def table_records(repo):
    recs = []
    table = literal_dict(repo, UTILS, "EEMS_COMMANDS")
    fn = UTILS + "::EEMS_COMMANDS"
    if table is None:
        return [{"name": fn + "/is a literal table", "status": "unknown", "backend": "extractor", "time_s": 0, "function": fn, "clause": "table",
                 "reason": "EEMS_COMMANDS is not a dict literal"}], {}
    names, libs = library_command_names(repo)
    from contracts.eems2_reference import REFERENCE

    for k, v in table.items():
        recs.append({"name": fn + "/%s -> %s names an existing command" % (k, v), "status": "unsat" if v in names else "sat", "backend": "exhaustive",
                     "time_s": 0, "function": fn, "clause": "table", "goal": "%r in the EEMS libraries %s" % (v, libs), "v2": k, "v3": v})
    for k, ref in REFERENCE.items():
        if ref is None:
            continue
        got = table.get(k)
        recs.append({"name": fn + "/%s is mapped to the command with its EEMS 2.0 meaning (%s)" % (k, ref), "status": "unsat" if got == ref else "sat",
                     "backend": "exhaustive", "time_s": 0, "function": fn, "clause": "table", "goal": "table[%r] == %r (is %r)" % (k, ref, got), "v2": k, "v3": got})
    extra = sorted(set(table) - set(REFERENCE))
    recs.append({"name": fn + "/the table covers exactly the EEMS 2.0 vocabulary", "status": "unsat" if not extra and set(REFERENCE) <= set(table) else "sat",
                 "backend": "exhaustive", "time_s": 0, "function": fn, "clause": "table", "goal": "extra %s missing %s" % (extra, sorted(set(REFERENCE) - set(table)))})
    return recs, table


# --------------------------------------------------------------------------- find_argument / convert_eems2_commands
def match(nd, k, name):
    args = Val.items(FLD("arguments")(nd))
    return z3.And(k >= 0, k < z3.Length(args), FLD("name")(Val.ref(args[k])) == Val.S(name))


def argval(nd, k):
    args = Val.items(FLD("arguments")(nd))
    return FLD("value")(Val.ref(FLD("value")(Val.ref(args[k]))))


def FA(nd, name):
    """spec: the value of the first argument of node nd called `name`, None when there is none"""
    return z3.If(HASMATCH(nd, name), argval(nd, MINIDX(nd, name)), Val.N)


def fa_axioms(st, nd, name):
    """characterisation of MINIDX / HASMATCH for (nd, name): position-quantified, instantiated on demand"""
    st.note_k(MINIDX(nd, name))
    st.assume(z3.Implies(HASMATCH(nd, name), match(nd, MINIDX(nd, name), name)))
    st.assume_all_k(lambda k: z3.Implies(match(nd, k, name), z3.And(HASMATCH(nd, name), MINIDX(nd, name) <= k)))


def node_invariants(st, nd):
    """shape of a CommandNode as the parser's actions build it (their postconditions, C10)"""
    args = Val.items(FLD("arguments")(nd))
    st.assume(z3.And(Val.is_L(FLD("arguments")(nd)), Val.is_S(FLD("command")(nd)),
                     z3.Or(Val.is_N(FLD("result_name")(nd)), Val.is_S(FLD("result_name")(nd)))))
    st.assume_all_k(lambda k: z3.Implies(z3.And(k >= 0, k < z3.Length(args)), z3.And(
        Val.is_O(args[k]), Val.is_S(FLD("name")(Val.ref(args[k]))), Val.is_O(FLD("value")(Val.ref(args[k]))))))


class FindLoop(S.LoopContract):
    """after j iterations no argument 0..j-1 has the wanted name"""

    def inv(self, I):
        I.temps("argument")
        eng, st = I.eng, I.st
        nd, name = eng.cv["nd"], eng.cv["name"]
        j = I.j
        st.ghost["fa_j"] = j
        I.forall_k("no-earlier-match", lambda k: z3.Implies(z3.And(k >= 0, k < j), z3.Not(match(nd, k, name))))


class FindContract(object):
    """find_argument(node, name) = FA(node, name). Pure."""

    def apply(self, eng, st, f, args, kwargs):
        node, name = args
        if not (isinstance(node, Sym) and node.kind == "dyn"):
            raise Unsupported("find_argument on a non-dynamic node")
        nd = Val.ref(node.t)
        nm = eng.str_term(name)
        fa_axioms(st, nd, nm)
        yield st, dyn(FA(nd, nm))


class ConvLoop(S.LoopContract):
    """`converted` grows by exactly one element per node (its content is checked element-wise in the body)"""

    def __init__(self, temps=()):
        self.extra_temps = tuple(temps)  # every other local the body assigns (read off the loop's AST): scratch values

    def inv(self, I):
        I.temps("node")
        acc = I.a("converted")
        for t in self.extra_temps:
            if t != acc:
                I.covered.add(t)
                if I.mode == "abstract":
                    I.st.env.pop(t, None)
        I.covered.add(acc)
        I.bound(acc)
        eng, st = I.eng, I.st
        j = I.j
        if I.mode == "check":
            c = st.get(st.env[acc])
            n = z3.IntVal(len(c.items)) if c.items is not None else c.seq.n
            eng.oblige(st, I.label + "/one element per node", n == j, kind="invariant")
            # the element appended in this iteration is the conversion of this iteration's node
            last = c.items[-1] if c.items is not None else c.seq.get(z3.simplify(j - 1))
            nd = eng.cv["cur_node"]
            for (what, goal) in conv_spec(eng, st, last, nd):
                eng.oblige(st, I.label + "/appended node: " + what, goal, kind="invariant")
        else:
            st.env[acc] = st.alloc(PyList(seq=SeqV(j, lambda k: dyn(smt.fresh("converted_item", Val)))))


def conv_spec(eng, st, obj, nd):
    """the CommandNode built for parsed node nd (DESIGN C16 / the property statement)"""
    out = []
    if not (isinstance(obj, Ref) and isinstance(st.get(obj), Obj) and st.get(obj).cls.name == "CommandNode"):
        return [("is a CommandNode", z3.BoolVal(False))]
    f = st.get(obj).fields
    rn = FLD("result_name")(nd)
    new, inn = FA(nd, z3.StringVal("NewFieldName")), FA(nd, z3.StringVal("InFieldName"))
    want_rn = z3.If(eng.dyn_truthy(rn), rn, z3.If(eng.dyn_truthy(new), new, inn))
    out.append(("result name = own name, else NewFieldName, else InFieldName", eng.to_dyn(st, f["result_name"]) == want_rn))
    # a result name is a name: the loader keys its table with it (C13: nothing but SyntaxError / MPilotError may escape from loading)
    rnv = eng.to_dyn(st, f["result_name"])
    out.append(("the result name handed to the loader is text (or absent)", z3.Or(Val.is_S(rnv), Val.is_N(rnv))))
    table = eng.cv["table"]
    cmd = FLD("command")(nd)
    mapped = cmd
    for k, v in reversed(list(table.items())):
        mapped = z3.If(cmd == Val.S(z3.StringVal(k)), Val.S(z3.StringVal(v)), mapped)
    out.append(("command name mapped through EEMS_COMMANDS", eng.to_dyn(st, f["command"]) == mapped))
    out.append(("line kept", eng.to_dyn(st, f["lineno"]) == FLD("lineno")(nd)))
    a = f["arguments"]
    ok = isinstance(a, Ref) and isinstance(st.get(a), PyList) and st.get(a).seq is not None and st.get(a).seq.tag == "filter"
    if not ok:
        out.append(("arguments = the node's arguments without NewFieldName / OutFileName, in order", z3.BoolVal(False)))
    else:
        meta = st.get(a).seq.meta
        kv = smt.fresh("kf", I_)
        args = Val.items(FLD("arguments")(nd))
        base_ok = meta["base_term"] is not None and z3.is_true(z3.simplify(meta["base_term"] == args))
        elem = args[kv]
        nm = FLD("name")(Val.ref(elem))
        want_keep = z3.And(nm != Val.S(z3.StringVal("NewFieldName")), nm != Val.S(z3.StringVal("OutFileName")))
        keep = meta["cond"](st, dyn(elem))
        out.append(("arguments filter the node's own argument list", z3.BoolVal(bool(base_ok))))
        out.append(("an argument is kept iff it is not NewFieldName / OutFileName", z3.Implies(z3.And(kv >= 0, kv < z3.Length(args), Val.is_O(elem), Val.is_S(nm)), keep == want_keep)))
    return out


def install(eng, table):
    from .models import ModelMixin

    if not getattr(ModelMixin, "_filter_patch", False):
        orig = ModelMixin._comp_symbolic

        def _comp_symbolic(self, node, g, elt, st, seq, saved):
            # [x for x in xs if cond(x)] over a symbolic sequence: an order-preserving sub-sequence, described by its base and its predicate
            if g.ifs and isinstance(elt, ast.Name) and isinstance(g.target, ast.Name) and elt.id == g.target.id and seq.tag in ("dynlist",):
                tname = g.target.id
                ifs = list(g.ifs)
                fi = self.frames[-1]

                def cond(s, elem, ifs=ifs, tname=tname, fi=fi):
                    probe = s.fork()
                    probe.env = dict(saved)
                    probe.env[tname] = elem
                    # elements of a parsed argument list are ArgumentNodes with a string name (postcondition of the grammar actions)
                    probe.assume(z3.And(Val.is_O(elem.t), Val.is_S(FLD("name")(Val.ref(elem.t)))))
                    terms = []
                    self.frames.append(fi)
                    try:
                        outs = []
                        for cnd in ifs:
                            for s2, c in self.ev_truth(cnd, probe):
                                if isinstance(c, Raised):
                                    raise Unsupported("filter may raise")
                                pc = z3.And(*s2.pc[len(s.pc):]) if len(s2.pc) > len(s.pc) else z3.BoolVal(True)
                                outs.append(z3.And(pc, z3.BoolVal(c) if isinstance(c, bool) else c))
                    finally:
                        self.frames.pop()
                    return z3.Or(*outs) if outs else z3.BoolVal(False)

                n2 = smt.fresh("filtered_len", I_)
                st.assume(z3.And(n2 >= 0, n2 <= seq.n))
                st.env = dict(saved)
                new = SeqV(n2, lambda k: dyn(smt.fresh("filtered_item", Val)), tag="filter",
                           meta={"base": seq, "base_term": seq.meta.get("as_seq"), "cond": cond})
                yield st, st.alloc(PyList(seq=new))
                return
            for r in orig(self, node, g, elt, st, seq, saved):
                yield r

        ModelMixin._comp_symbolic = _comp_symbolic
        ModelMixin._filter_patch = True
    from . import parseprops

    parseprops.install_action_models(eng, {})  # namedtuple classes (CommandNode)
    eng.cv = {"table": table}


def verify_converter(repo, table):
    smt.QUANT["on"] = False
    eng = Engine(repo, {}, dict(S.LOOPS))
    install(eng, table)
    recs = eng.results
    functions = []
    mod = repo.modules[UTILS]
    # ---------------- find_argument
    if not repo.has_func(FIND) or not repo.has_func(CONV):
        recs.append({"name": CONV + "/found", "status": "unknown", "backend": "extractor", "time_s": 0, "function": CONV, "clause": "convert",
                     "reason": "convert_eems2_commands / find_argument not found"})
        return recs, functions
    fi = repo.func(FIND)
    functions.append(fi.describe())
    eng.current = fi
    eng.loop_contracts[(fi.key, "for", 0)] = FindLoop()
    st = State()
    st.add_cell("c")
    st.kterms.append(z3.IntVal(0))
    nd = smt.fresh("node", I_)
    name = smt.fresh("name", z3.StringSort())
    node_invariants(st, nd)
    fa_axioms(st, nd, name)
    eng.cv.update({"nd": nd, "name": name})
    try:
        for s1, out in eng.run_function(fi, st, {"node": dyn(Val.O(nd)), "name": Sym("str", name)}):
            if out[0] == "raise":
                nm = "<sym>" if isinstance(out[1], ExcSym) else s1.get(out[1]).cls.name
                eng.oblige(s1, fi.key + "/raises_only(%s)" % nm, z3.BoolVal(False), kind="raises", meta={"clause": "convert"}, assume_after=False)
                continue
            r = out[1]
            rt = eng.to_dyn(s1, r)
            eng.oblige(s1, fi.key + "/returns the value of the first argument with that name, else None", rt == FA(nd, name), kind="ensures",
                       meta={"clause": "convert"}, assume_after=False)
    except Unsupported as e:
        recs.append({"name": fi.key + "/supported", "status": "unknown", "backend": "engine", "time_s": 0, "function": fi.key, "clause": "convert",
                     "reason": "unsupported: %s" % e})
    # ---------------- convert_eems2_commands
    ci = repo.func(CONV)
    functions.append(ci.describe())
    eng.current = ci
    eng.contracts = {FIND: FindContract()}
    _loops0 = [n for n in ast.walk(ci.node) if isinstance(n, ast.For)]
    eng.loop_contracts[(ci.key, "for", 0)] = ConvLoop(eng.loop_names(_loops0[0])[1] if _loops0 else ())
    st = State()
    st.add_cell("c")
    st.kterms.append(z3.IntVal(0))
    nodes = smt.fresh("command_nodes", Val)
    st.assume(Val.is_L(nodes))
    items = Val.items(nodes)
    st.assume_all_k(lambda k: z3.Implies(z3.And(k >= 0, k < z3.Length(items)), Val.is_O(items[k])))

    # the loop body is verified for an arbitrary node: remember which node the current iteration handles
    from .engine import Engine as _E

    orig_assign = eng.assign

    def assign(tgt, v, s):
        if isinstance(tgt, ast.Name) and tgt.id == "node" and isinstance(v, Sym) and v.kind == "dyn":
            ndk = Val.ref(v.t)
            eng.cv["cur_node"] = ndk
            node_invariants(s, ndk)
            for nm in ("NewFieldName", "InFieldName"):
                fa_axioms(s, ndk, z3.StringVal(nm))
        for r in orig_assign(tgt, v, s):
            yield r

    eng.assign = assign
    # the only mutation of `converted` inside the loop is one append per iteration (order lemma)
    loops = [n for n in ast.walk(ci.node) if isinstance(n, ast.For)]
    # the accumulator by role: the list the function returns
    rets = [ast.unparse(n.value) for n in ast.walk(ci.node) if isinstance(n, ast.Return) and isinstance(n.value, ast.Name)]
    accn = rets[-1] if rets else "converted"
    appends = [n for n in ast.walk(loops[0]) if isinstance(n, ast.Call) and isinstance(n.func, ast.Attribute) and n.func.attr == "append"
               and ast.unparse(n.func.value) == accn] if loops else []
    others = [n for n in ast.walk(ci.node) if isinstance(n, (ast.Subscript, ast.Attribute)) and isinstance(getattr(n, "ctx", None), (ast.Store, ast.Del))
              and ast.unparse(n.value).startswith(accn)]
    recs.append({"name": ci.key + "/converted is built by exactly one append per node, in order", "status": "unsat" if (len(appends) == 1 and not others) else "unknown",
                 "backend": "syntactic", "time_s": 0, "function": ci.key, "clause": "convert"})
    try:
        for s1, out in eng.run_function(ci, st, {"command_nodes": dyn(nodes)}):
            if out[0] == "raise":
                nm = "<sym>" if isinstance(out[1], ExcSym) else s1.get(out[1]).cls.name
                okc = nm == "ProgramError"
                recs.append({"name": ci.key + "/raises_only(%s)" % nm, "status": "unsat" if okc else "sat", "backend": "engine", "time_s": 0, "function": ci.key,
                             "clause": "convert"})
                continue
            r = out[1]
            c = s1.get(r) if isinstance(r, Ref) else None
            ok = isinstance(c, PyList)
            n = (z3.IntVal(len(c.items)) if c.items is not None else c.seq.n) if ok else None
            eng.oblige(s1, ci.key + "/one converted node per parsed node", (n == z3.Length(items)) if ok else z3.BoolVal(False), kind="ensures",
                       meta={"clause": "convert"}, assume_after=False)
    except Unsupported as e:
        recs.append({"name": ci.key + "/supported", "status": "unknown", "backend": "engine", "time_s": 0, "function": ci.key, "clause": "convert",
                     "reason": "unsupported: %s" % e})
    return recs, functions


# --------------------------------------------------------------------------- bounded: v2 file vs its v3 transcription on the real loader
def v2_cases(repo, table):
    """for every mapped name: a v2 command (with / without NewFieldName / OutFileName) and the v3 command the mapping prescribes"""
    from .decl import CommandDecl, ParamDecl

    names, libs = library_command_names(repo)
    classes = {}
    for ci in repo.all_classes():
        if repo.is_subclass(ci, "Command") and ci.name != "Command" and "netcdf" not in ci.module.relpath:
            c, e = repo.find_class_attr(ci, "name")
            nm = ast.literal_eval(e) if (e is not None and isinstance(e, ast.Constant)) else ci.name
            classes[nm] = ci
    cases = []
    for v2, v3 in table.items():
        if v3 not in classes:
            continue
        decl = CommandDecl(repo, classes[v3])
        args = []
        for pn, p in decl.inputs.items():
            if pn == "Metadata" or not p.required:
                continue
            if p.cls == "ResultParameter":
                args.append((pn, "Src"))
            elif p.cls == "ListParameter" and isinstance(p.value_type, ParamDecl) and p.value_type.cls == "ResultParameter":
                args.append((pn, "[Src, Src2]"))
            elif p.cls == "ListParameter":
                args.append((pn, "[1, 2]"))
            elif p.cls == "PathParameter":
                args.append((pn, "data.csv"))
            elif p.cls == "BooleanParameter":
                args.append((pn, "true"))
            elif p.cls == "NumberParameter":
                args.append((pn, "1"))
            else:
                args.append((pn, "Truest" if pn == "TruestOrFalsest" else ("LowToHigh" if pn == "Direction" else "Elev")))
        for variant in ("new", "infield", "named", "outfile"):
            a2 = list(args)
            if variant in ("new", "outfile"):
                a2.append(("NewFieldName", "Fresh"))
                res = "Fresh"
            elif variant == "infield":
                if not any(k == "InFieldName" for k, _ in args):
                    continue
                res = dict(args)["InFieldName"]
            else:
                res = "Named"
            if variant == "outfile":
                a2.append(("OutFileName", "out.csv"))
            orders = [a2]
            if variant in ("new", "outfile"):
                orders.append(list(reversed(a2)))  # NewFieldName / OutFileName first: the result name must not depend on argument order
                orders.append(a2[-1:] + a2[:-1])
            for oi, ordr in enumerate(orders[1:], 1):
                v2alt = "%s(%s)" % (v2, ", ".join("%s = %s" % kv for kv in ordr))
                kept = [kv for kv in ordr if kv[0] not in ("NewFieldName", "OutFileName")]
                v3alt = "%s = %s(%s)" % (res, v3, ", ".join("%s = %s" % kv for kv in kept))
                if res not in ("Src", "Src2"):
                    pre0 = "Src = EEMSRead(InFileName = data.csv, InFieldName = Elev)\nSrc2 = EEMSRead(InFileName = data.csv, InFieldName = Elev2)\n"
                    cases.append({"v2": pre0 + v2alt, "v3": pre0 + v3alt, "name": v2, "variant": "%s/order%d" % (variant, oi)})
            v2src = "%s%s(%s)" % ("Named = " if variant == "named" else "", v2, ", ".join("%s = %s" % kv for kv in a2))
            v3src = "%s = %s(%s)" % (res, v3, ", ".join("%s = %s" % kv for kv in args))
            if res in ("Src", "Src2"):
                continue
            pre = "Src = EEMSRead(InFileName = data.csv, InFieldName = Elev)\nSrc2 = EEMSRead(InFileName = data.csv, InFieldName = Elev2)\n"
            cases.append({"v2": pre + v2src, "v3": pre + v3src, "name": v2, "variant": variant})
    # half-migrated files: an EEMS 2.0 file is converted as a whole, also the commands already written MPilot-style that still carry
    # NewFieldName / OutFileName (they are dropped), wherever the EEMS 2.0 command sits
    pre = "Src = EEMSRead(InFileName = data.csv, InFieldName = Elev)\nSrc2 = EEMSRead(InFileName = data.csv, InFieldName = Elev2)\n"
    legacy = "SUM(InFieldNames = [Src, Src2], NewFieldName = Tot)"
    legacy3 = "Tot = Sum(InFieldNames = [Src, Src2])"
    migrated = [("AB = Sum(InFieldNames = [Src, Src2], OutFileName = out.csv)", "AB = Sum(InFieldNames = [Src, Src2])"),
                ("CP = Copy(InFieldName = Src, NewFieldName = Ignored, OutFileName = out.csv)", "CP = Copy(InFieldName = Src)"),
                ("MX = Maximum(InFieldNames = [Src, Src2], NewFieldName = Other)", "MX = Maximum(InFieldNames = [Src, Src2])"),
                # MPilot's own command names written the EEMS 2.0 way (no result name): not in the table, passed through under the same name
                ("Sum(InFieldNames = [Src, Src2], NewFieldName = Tot2)", "Tot2 = Sum(InFieldNames = [Src, Src2])"),
                ("CvtToFuzzyZScore(InFieldName = Src, TrueThresholdZScore = 1, FalseThresholdZScore = -1, NewFieldName = BFz)",
                 "BFz = CvtToFuzzyZScore(InFieldName = Src, TrueThresholdZScore = 1, FalseThresholdZScore = -1)"),
                ("NormalizeZScore(InFieldName = Src2, NewFieldName = NZ, OutFileName = out.csv)", "NZ = NormalizeZScore(InFieldName = Src2)")]
    for (m2, m3) in migrated:
        for first in (True, False):
            v2t = pre + ((legacy + "\n" + m2) if first else (m2 + "\n" + legacy))
            v3t = pre + ((legacy3 + "\n" + m3) if first else (m3 + "\n" + legacy3))
            cases.append({"v2": v2t, "v3": v3t, "name": "mixed", "variant": "half-migrated/%s" % ("legacy-first" if first else "legacy-last")})
    # the mapping is the same for every load: programs over a smaller library selection loaded earlier in the process (last: the cases run in one process)
    hist = [{"src": "Z = Copy(InFieldName = Q)\n", "libraries": ["mpilot.libraries.eems.basic"]},
            {"src": "READ(InFileName = data.csv, InFieldName = Elev)\nSUM(InFieldNames = [Elev, Elev], NewFieldName = T)\n", "libraries": ["mpilot.libraries.eems.basic"]},
            {"src": "F = FuzzyNot(InFieldName = G)\n", "libraries": ["mpilot.libraries.eems.fuzzy"]}]
    v2h = "READ(InFileName = data.csv, InFieldName = Elev)\nCVTTOFUZZY(InFieldName = Elev, TrueThreshold = 10, FalseThreshold = 0, NewFieldName = Fz)\nNOT(InFieldName = Fz, NewFieldName = NFz)\nSUM(InFieldNames = [Elev, Elev], NewFieldName = T)"
    v3h = "Elev = EEMSRead(InFileName = data.csv, InFieldName = Elev)\nFz = CvtToFuzzy(InFieldName = Elev, TrueThreshold = 10, FalseThreshold = 0)\nNFz = FuzzyNot(InFieldName = Fz)\nT = Sum(InFieldNames = [Elev, Elev])"
    cases.append({"v2": v2h, "v3": v3h, "name": "history", "variant": "before-other-selections"})
    cases.append({"v2": v2h, "v3": v3h, "name": "history", "variant": "after-other-selections", "history": hist})
    return cases


def run_v2(cases, repo_root="/repo"):
    d = replay.workdir()
    runner = os.path.join(replay.HERE, "runner", "run_v2.py")
    fin = tempfile.NamedTemporaryFile("w", suffix=".v2in.json", dir=d, delete=False)
    json.dump(cases, fin)
    fin.close()
    fout = fin.name.replace(".v2in.json", ".v2out.json")
    try:
        p = subprocess.run([replay.VENV_PY, runner, fin.name, fout, repo_root], capture_output=True, text=True, timeout=600)
        if p.returncode != 0 or not os.path.exists(fout):
            raise RuntimeError("runner failed: %s %s" % (p.stdout[-500:], p.stderr[-1500:]))
        return json.load(open(fout))
    finally:
        for f in (fin.name, fout):
            try:
                os.unlink(f)
            except OSError:
                pass
