"""C12 / C13: assembling the load-time, pre-pass, cleaner, exception-class and CLI obligations into the two properties."""
import json
import time

from .extract import Repo
from .report import Report
from . import registry
from . import spec as S


def _strip(r):
    r = {k: v for k, v in r.items() if k not in ("model_obj", "state")}
    r.setdefault("clause", r.get("kind"))
    return r


def _verify_load(args):
    which, root = args
    from . import loadprops

    t0 = time.time()
    repo = Repo(root)
    out = {"command": which, "records": [], "functions": [], "error": None}
    try:
        f = {"add_command": loadprops.verify_add_command, "from_source": loadprops.verify_from_source, "resolve_list": loadprops.verify_resolve_list,
             "cli": loadprops.verify_cli}[which]
        recs, fns = f(repo)
        out["records"] = [_strip(r) for r in recs]
        out["functions"] = fns
    except Exception as e:
        import traceback
        from .values import Unsupported

        if isinstance(e, Unsupported):
            # code outside the modelled subset / contracts that no longer bind: undecided, never a violation
            out["records"].append({"name": "%s/supported" % which, "status": "unknown", "backend": "engine", "time_s": 0, "clause": "cover", "function": which,
                                   "reason": "unsupported construct: %s" % e})
        else:
            out["error"] = "%s: %s\n%s" % (type(e).__name__, e, traceback.format_exc()[-1500:])
    out["wall_s"] = round(time.time() - t0, 2)
    return out


def add_records(rep, recs, clauses, how="counter-model (symbolic; not concretised)"):
    n = 0
    for r in recs:
        cl = r.get("clause") or r.get("kind")
        structural = r["status"] != "unsat" and (cl in ("cover", "supported") or r["name"].endswith("/supported"))
        if clauses is not None and cl not in clauses and not structural:
            continue  # (a function that could not be analysed at all is reported whatever clauses were asked for)
        n += 1
        rep.add_vc(r["name"], r["status"], r.get("function"), cl, r.get("backend"), r.get("time_s", 0),
                   detail={"trail": r.get("trail"), "goal": r.get("goal"), "reason": r.get("reason")})
        if r["status"] == "sat":
            rep.violations.append({"obligation": r["name"], "function": r.get("function"), "how": how, "detail": {"trail": r.get("trail"), "goal": r.get("goal")},
                                   "solver_output": "sat (%s)" % r.get("backend"), "confirmed": False})
        elif r["status"] != "unsat":
            rep.undecided.append({"obligation": r["name"], "reason": r.get("reason") or "unknown"})
    return n


def load_part(rep, root, clauses, which=("add_command", "from_source", "resolve_list")):
    from concurrent.futures import ProcessPoolExecutor

    with ProcessPoolExecutor(max_workers=len(which)) as ex:
        results = list(ex.map(_verify_load, [(w, root) for w in which]))
    for out in results:
        if out["error"]:
            rep.errors.append("%s: %s" % (out["command"], out["error"]))
            continue
        rep.functions += out["functions"]
        n = add_records(rep, out["records"], clauses)
        if out["records"] and not rep.samples:
            r = out["records"][0]
            rep.samples.append({"obligation": r["name"], "clause": r.get("clause"), "goal": r.get("goal"), "verdict": r["status"]})


def heap_part(rep, root, which, clauses):
    from concurrent.futures import ProcessPoolExecutor
    from .run import _verify_heap

    with ProcessPoolExecutor(max_workers=len(which)) as ex:
        results = list(ex.map(_verify_heap, [(w, root) for w in which]))
    for out in results:
        if out["error"]:
            rep.errors.append("%s: %s" % (out["command"], out["error"]))
            continue
        if out["function"]:
            rep.functions.append(out["function"])
        add_records(rep, out["records"], clauses, how="counter-model (quantified heap; not concretised)")
        if out["unsupported"]:
            rep.undecided.append({"obligation": "%s/*" % out["command"], "reason": "unsupported construct: %s" % out["unsupported"]})


def exception_part(rep, repo, clauses=None):
    from . import excprops
    from .engine import Engine

    for ci in excprops.exception_classes(repo):
        eng = Engine(repo, {}, {})
        try:
            recs = [_strip(r) for r in excprops.verify_exception_class(eng, ci)]
            add_records(rep, recs, clauses)
        except Exception as e:
            rep.errors.append("exception class %s: %s" % (ci.name, e))


def exception_battery(rep, root, stages):
    """bounded: every MPilotError subclass constructed with arguments of the kinds its callers pass, and rendered (runner/run_exceptions.py)"""
    import os
    import subprocess
    import tempfile
    from . import replay

    out = tempfile.mktemp(suffix=".exc.json", dir=replay.workdir())
    p = subprocess.run([replay.VENV_PY, os.path.join(replay.HERE, "runner", "run_exceptions.py"), out, root], capture_output=True, text=True, timeout=600)
    try:
        d = json.load(open(out))
    except Exception:
        rep.errors.append("exception battery: %s" % p.stderr[-300:])
        return {"name": "error-classes", "evaluations": 0, "distinct_nontrivial": 0, "failures": 0}
    finally:
        try:
            os.unlink(out)
        except OSError:
            pass
    if isinstance(d, dict):
        rep.errors.append("exception battery: %s" % d.get("harness_error", "")[-300:])
        return {"name": "error-classes", "evaluations": 0, "distinct_nontrivial": 0, "failures": 0}
    fails = 0
    for r in d:
        bad = [f for f in r["failures"] if f["stage"] in stages]
        if bad:
            fails += 1
            rep.violations.append({"obligation": "%s::%s/bounded:%s" % (r["module"].replace(".", "/") + ".py", r["cls"], bad[0]["stage"]), "function": r["cls"],
                                   "how": "bounded-concrete", "case": {"exception_class": r["cls"], "module": r["module"], "arguments": bad[0]["args"]},
                                   "real": bad[:3], "violated": sorted(set(f["stage"] for f in bad)), "confirmed": True})
    return {"name": "error-classes", "evaluations": sum(r["cases"] for r in d), "distinct_nontrivial": sum(r["cases"] for r in d), "failures": fails, "classes": len(d)}


def parser_part(rep, repo, clauses):
    from . import parseprops

    for f in (parseprops.verify_token_functions, parseprops.verify_parse_entry, parseprops.verify_actions):
        try:
            r, fns = f(repo)
            rep.functions += fns
            add_records(rep, [_strip(x) for x in r], clauses)
        except Exception as e:
            rep.errors.append("%s: %s: %s" % (f.__name__, type(e).__name__, e))


def battery(rep, name, cases, outs, judge, clauses, function, known=None):
    distinct, fails = set(), 0
    for c, o in zip(cases, outs):
        distinct.add(json.dumps([c.get("source"), c.get("files"), c.get("mode")], sort_keys=True))
        bad = judge(c, o)
        if any(b[0] == "harness-error" for b in bad):
            rep.errors.append("%s battery: %s" % (name, bad[0][1]))
            continue
        rel = [b for b in bad if clauses is None or b[0] in clauses]
        if rel:
            fails += 1
            rep.violations.append({"obligation": "%s/bounded:%s:%s" % (function, name, rel[0][0]), "function": function, "how": "bounded-concrete",
                                   "case": {k: v for k, v in c.items()}, "real": o, "violated": sorted(set(b[0] for b in bad)), "violated_detail": bad[:4],
                                   "confirmed": True})
    return {"name": name, "evaluations": len(cases), "distinct_nontrivial": len(distinct), "failures": fails}


def load_property(prop, tier, seed, REPO):
    from . import loadcases as L
    from .run import param_part

    root = REPO
    repo = Repo(root)
    rep = Report(prop, tier, seed, "proof", "./check %s --tier %s" % (prop, tier))
    rep.ledger_promote = True
    rep.trusted = [
        "Parser.parse (C10) returns a ProgramNode whose command / argument / expression nodes have the shapes the grammar actions build, or raises SyntaxError / ProgramError; "
        "convert_eems2_commands (C16) returns a list of such nodes or raises ProgramError; Program.__init__ (C19) yields an empty program with a command library or raises MPilotError",
        "the command library is a mapping from names to Command subclasses whose `inputs` / `required_inputs` are dicts of Parameter objects (metaclass, assumed)",
        "behavioural contract of Parameter.clean (raises only the parameter-error family, typed result): proved per class under C20 and included here",
        "plugin contract of Command.execute for third-party commands; for the built-ins what execute raises is wrapped by Command.run (proved)",
        "A-LOCALS: operations on freshly created local list/dict/set objects raise nothing and have no effect outside them",
        "os.path.exists, open/readlines, sys.stderr.write, sys.exit: assumed contracts (exit raises SystemExit with the given status; write appends to the stream)",
    ]
    t0 = time.time()
    parts = []
    if prop == "C12":
        load_part(rep, root, {"wf", "cover", "raises_only", "lineno"})
        heap_part(rep, root, ["program"], {"prepass", "before-side-effects", "cover"})
        param_part(rep, "C12", tier, seed, clauses={"typed", "cover"})
        # `exists in the selected libraries`: the selection predicate of Program.__init__ and the lookup (the obligations of C19 this property rests on)
        try:
            from . import libprops, loadprops

            lrecs, lfns = libprops.records(repo)
            known = set(json.dumps(f, sort_keys=True, default=str) for f in rep.functions)
            rep.functions += [f for f in lfns if json.dumps(f, sort_keys=True, default=str) not in known]
            add_records(rep, [_strip(dict(r, clause="wf")) for r in lrecs], None)
            frecs, ffns = loadprops.verify_find_command_class(Repo(root))
            rep.functions += ffns
            add_records(rep, [_strip(r) for r in frecs], None)
            lcases = libprops.cases("quick", seed)
            louts = libprops.run_real(lcases, root)
            lf = 0
            for c, o in zip(lcases, louts):
                bad = libprops.judge(c, o)
                if any(b[0] == "harness-error" for b in bad):
                    rep.errors.append("registry battery: %s" % (bad[0][1],))
                elif bad:
                    lf += 1
                    rep.violations.append({"obligation": "mpilot/program.py::Program.__init__/bounded:lookup", "function": "mpilot/program.py::Program.__init__",
                                           "how": "bounded-concrete", "case": {"history": c["history"], "final": c["final"]}, "real": o,
                                           "violated": [b[0] for b in bad], "violated_detail": bad, "confirmed": True})
            parts.append({"name": "library-selection", "evaluations": len(lcases), "distinct_nontrivial": len(lcases), "failures": lf,
                          "rule": "the registry battery of C19 (prefix-related package names, duplicate and renamed commands, histories): a name is accepted exactly when a selected library defines it"})
        except Exception as e:
            rep.errors.append("library selection: %s: %s" % (type(e).__name__, e))
        cases = L.fault_cases(repo, tier)
        outs = L.run_real(cases, root, workers=16)
        parts.append(battery(rep, "fault-injection", cases, outs, L.judge_fault, {"accept", "reject", "raises_only", "specific-error", "before-side-effects", "names-offender"},
                             "mpilot/program.py::Program.from_source+run"))
        rule = ("every command of the CSV libraries x every declared parameter x every wrong kind (number/word/list/nested list for the declared kind, unknown result, "
                "wrong fuzziness, non-data result), each required parameter removed, an undeclared parameter added, a duplicated result name, a misspelt command; the "
                "faulty command after (thorough: also before) a valid chain that would write a file; the unfaulted model must load, run and write; a faulted one must be "
                "rejected with a ProgramError naming the offender, with zero execute() calls and no new file")
        rep.explanation = (
            "Proved on the real bodies: Program.from_source raises CommandDoesNotExist for exactly the first node whose name the library lacks (with that node's name and line) "
            "and hands add_command the library's class, the node's result name, line and the arguments built for it; Program.add_command rejects duplicates, missing required "
            "and undeclared parameters with the specific error and otherwise stores one command under the result name; every stored argument is an Argument carrying the node's "
            "name and line; in Program.run every declared argument of every command is cleaned, against this program, inside the pre-pass, a rejection by a cleaner called from "
            "Program.run precedes every execute(), and a rejection before execution leaves every command's state as it was; each cleaner returns only values of its declared "
            "kind (C20 `typed`). Bounded: the fault-injection matrix on the real libraries (execute() calls and files observed).")
    else:
        load_part(rep, root, {"raises_only", "cover", "cli"}, which=("add_command", "from_source", "resolve_list", "cli"))
        heap_part(rep, root, ["run", "result", "validate", "program"], {"raises_only", "cover"})
        param_part(rep, "C13", tier, seed)
        exception_part(rep, repo)
        parser_part(rep, repo, {"raises_only", "cover"})
        cases = L.confusion_cases(repo, tier, seed)
        outs = L.run_real(cases, root, workers=16)
        parts.append(battery(rep, "kind-confusion", cases, outs, L.judge_escape, None, "mpilot/program.py::Program.from_source+run"))
        cases = L.v2_confusion_cases()
        outs = L.run_real(cases, root, workers=16)
        parts.append(battery(rep, "v2-confusion", cases, outs, L.judge_escape, None, "mpilot/program.py::Program.from_source+run"))
        cases = L.data_cases()
        outs = L.run_real(cases, root, workers=16)
        parts.append(battery(rep, "csv-content", cases, outs, L.judge_escape, None, "mpilot/program.py::Program.from_source+run"))
        from . import parsecases

        cc = parsecases.corruption_cases(tier, seed)
        lc = [{"source": c["sources"][0], "files": {"input.csv": L.CSV}, "label": "corruption:" + str(c.get("corruption")),
               "libraries": ["mpilot.libraries.eems.csv", "mpilot.libraries.eems.basic", "mpilot.libraries.eems.fuzzy"]} for c in cc]
        outs = L.run_real(lc, root, workers=16)
        parts.append(battery(rep, "corrupted-text", lc, outs, L.judge_escape, None, "mpilot/program.py::Program.from_source+run"))
        cases = L.cli_cases(repo)
        outs = L.run_real(cases, root, workers=8)
        parts.append(battery(rep, "cli", cases, outs, L.judge_cli, {"cli", "raises_only"}, "mpilot/cli/mpilot.py::main"))
        parts.append(exception_battery(rep, root, {"construct", "str"}))
        rule = ("every command x parameter (incl. Metadata) x a 28-value alphabet of every kind (thorough: all; quick: 9 sampled per parameter), five EEMS 2.0 forms without a "
                "result name x the same alphabet where a name is expected, 17 CSV contents (empty, "
                "header only, ragged, non-numeric, empty cells, missing column, CRLF, BOM, nan/inf, overflow) x 3 models, single-token corruptions of valid programs loaded "
                "and run, and 11 command-line runs (exit status, problem/solution text on stderr, no traceback); only SyntaxError / MPilotError may escape")
        rep.explanation = (
            "Proved on the real bodies: Program.from_source, add_command and the nested resolve_list raise only SyntaxError / MPilotError given the parser's and converter's "
            "contracts; Parser.parse, the token functions and the grammar actions raise only SyntaxError / ProgramError; every cleaner raises only the parameter-error family "
            "and its errors render; Command.run wraps whatever execute or validate_params raise into UnexpectedError unless it already is an MPilotError; Program.run raises "
            "only MPilotError; every MPilotError subclass is constructible and its __str__ returns the problem/solution text without raising; the CLI handler writes the "
            "message to stderr and exits with a non-zero status on every MPilotError path. Assumed: the PLY engines, numpy/csv inside execute (wrapped by Command.run). "
            "Bounded: kind confusion, CSV contents, corrupted texts and CLI runs on the real code.")
    if rep.bounded:
        parts.insert(0, dict(rep.bounded, name="cleaners"))
    rep.bounded = {"label": "bounded (never counted as proved)", "parts": parts, "evaluations": sum(p["evaluations"] for p in parts),
                   "distinct_nontrivial": sum(p["distinct_nontrivial"] for p in parts), "failures": sum(p["failures"] for p in parts),
                   "wall_s": round(time.time() - t0, 1), "rule": rule}

    prev = rep.rerun_witness

    def rerun(w):
        if w and w.get("kind") == "load-case":
            o = L.run_real([w["case"]], root, workers=1)[0]
            j = {"fault": L.judge_fault, "escape": L.judge_escape, "cli": L.judge_cli}[w.get("judge", "escape")]
            return [b[0] for b in j(w["case"], o)]
        return prev(w) if prev else None

    rep.rerun_witness = rerun
    return rep


def lineno_parts(rep, root, repo, tier, seed):
    """C11 beyond the parser: line threading through from_source / add_command / the pre-pass / the cleaners / the error classes / the CLI window"""
    from . import loadcases as L
    from .run import param_part

    load_part(rep, root, {"lineno"}, which=("add_command", "from_source", "resolve_list", "cli"))
    heap_part(rep, root, ["program"], {"lineno"})
    exception_part(rep, repo, {"lineno"})
    # the constructor: each command gets its line and a table of argument lines of its own
    try:
        from . import loadprops

        irecs, ifns = loadprops.verify_command_init(Repo(root))
        rep.functions += ifns
        add_records(rep, [_strip(r) for r in irecs], None)
    except Exception as e:
        rep.errors.append("Command.__init__: %s: %s" % (type(e).__name__, e))
    prev_b = rep.bounded
    rep.bounded = None
    param_part(rep, "C11", tier, seed)
    pb = rep.bounded
    rep.bounded = prev_b
    parts = [dict(pb, name="cleaners")] if pb else []
    cases = L.fault_cases(repo, tier)
    outs = L.run_real(cases, root, workers=16)
    parts.append(battery(rep, "fault-lines", cases, outs, L.judge_fault, {"lineno"}, "mpilot/program.py::Program.from_source+run"))
    cases = L.cli_cases(repo)
    outs = L.run_real(cases, root, workers=8)
    parts.append(battery(rep, "cli-marks", cases, outs, L.judge_cli, {"lineno"}, "mpilot/cli/mpilot.py::main"))
    cases = L.cmdline_cases()
    outs = L.run_real(cases, root, workers=8)
    parts.append(battery(rep, "command-lines", cases, outs, L.judge_cmdline, {"lineno"}, "mpilot/program.py::Program.from_source+run"))
    parts.append(exception_battery(rep, root, {"lineno"}))
    return parts
