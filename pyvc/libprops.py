"""C19: command lookup depends only on the libraries requested.

Expression-level contracts on Program.__init__ and CommandMeta.__new__ (the sub-expressions that decide which
registry entries are selected, what counts as a duplicate, how the lookup table is built and when a class is
registered are extracted from the real source and proved equivalent to the statement's definitions), plus the
bounded history battery on the real code (runner/run_registry.py)."""
import ast
import itertools
import json
import os
import subprocess
import tempfile

import z3

from . import smt, replay
from .dyn import Val, dyn, FLD, py_eq
from .engine import Engine
from .state import State
from .values import Unsupported, Sym, Raised

PRG = "mpilot/program.py::Program.__init__"
META = "mpilot/commands.py::CommandMeta.__new__"
RUNNER = os.path.join(replay.HERE, "runner", "run_registry.py")


def under(m, lib):
    """the statement's notion: m is the requested library or one of its sub-modules"""
    return z3.Or(m == lib, z3.PrefixOf(z3.Concat(lib, z3.StringVal(".")), m))


def _eval_truth(eng, fi, node, env, hyps=()):
    st = State()
    for h in hyps:
        st.assume(h)
    st.add_cell("c")
    st.env = dict(env)
    st.env["__fi__"] = fi
    eng.frames.append(fi)
    try:
        outs = list(eng.ev_truth(node, st))
    finally:
        eng.frames.pop()
    return outs


def _eval(eng, fi, node, env, hyps=()):
    st = State()
    for h in hyps:
        st.assume(h)
    st.add_cell("c")
    st.env = dict(env)
    st.env["__fi__"] = fi
    eng.frames.append(fi)
    try:
        outs = list(eng.ev(node, st))
    finally:
        eng.frames.pop()
    return outs


def _merge_truth(outs):
    """combine the forked outcomes of a pure boolean expression into one z3 Bool (no outcome may raise)"""
    terms = []
    for st, c in outs:
        if isinstance(c, Raised):
            return None
        pc = z3.And(*st.pc) if st.pc else z3.BoolVal(True)
        cb = z3.BoolVal(c) if isinstance(c, bool) else c
        terms.append(z3.And(pc, cb))
    return z3.Or(*terms) if terms else None


def records(repo):
    recs = []
    eng = Engine(repo, {}, {})

    def add(name, status, fn, goal=None, backend="z3", reason=None, t=0.0):
        recs.append({"name": name, "status": status, "backend": backend, "time_s": round(t, 3), "function": fn, "clause": "lookup",
                     "goal": (str(goal)[:300] if goal is not None else None), "reason": reason})

    def prove(name, fn, hyps, goal, strings=True):
        v = smt.check(hyps, goal, strings=strings)
        add(name, v.status, fn, goal, v.backend, v.reason, v.time_s)
        return v

    # ------------------------------------------------------------------ Program.__init__
    if not repo.has_func(PRG):
        add(PRG + "/found", "unknown", PRG, reason="Program.__init__ not found")
        return recs, []
    fi = repo.func(PRG)
    functions = [fi.describe()]
    comps = [n for n in ast.walk(fi.node) if isinstance(n, (ast.ListComp, ast.DictComp, ast.GeneratorExp))]
    # the local that holds the selected registry entries, by role: the target of the assignment whose value is the filtered selection
    SEL = "library_commands"
    for a in ast.walk(fi.node):
        if isinstance(a, ast.Assign) and len(a.targets) == 1 and isinstance(a.targets[0], ast.Name) and isinstance(a.value, ast.ListComp) \
                and a.value.generators[0].ifs and "get_commands" in ast.unparse(a.value.generators[0].iter):
            SEL = a.targets[0].id
    # (F) the selection filter: any(<pred(info, lib)> for lib in libraries)
    found = False
    for comp in comps:
        if not isinstance(comp, ast.ListComp) or not comp.generators[0].ifs:
            continue
        cond = comp.generators[0].ifs[0]
        if isinstance(cond, ast.Call) and ast.unparse(cond.func) == "any" and cond.args and isinstance(cond.args[0], ast.GeneratorExp):
            g = cond.args[0]
            if ast.unparse(g.generators[0].iter) != "libraries" or g.generators[0].ifs:
                continue
            info_name = comp.generators[0].target.id if isinstance(comp.generators[0].target, ast.Name) else None
            lib_name = g.generators[0].target.id if isinstance(g.generators[0].target, ast.Name) else None
            if not info_name or not lib_name:
                continue
            found = True
            i = smt.fresh("info", z3.IntSort())
            m = smt.fresh("module", z3.StringSort())
            lib = smt.fresh("lib", z3.StringSort())
            env = {info_name: dyn(Val.O(i)), lib_name: Sym("str", lib)}
            try:
                outs = _eval_truth(eng, fi, g.elt, env, [FLD("module")(i) == Val.S(m)])
                term = _merge_truth(outs)
            except Unsupported as e:
                add(PRG + "/selection = requested library or its sub-module", "unknown", fi.key, reason="unsupported: %s" % e)
                break
            if term is None:
                add(PRG + "/selection = requested library or its sub-module", "unknown", fi.key, reason="the filter expression may raise")
                break
            hyp = [FLD("module")(i) == Val.S(m)]
            prove(PRG + "/selection = requested library or its sub-module", fi.key, hyp, term == under(m, lib))
            # iteration source of the selection: the whole registry
            src = ast.unparse(comp.generators[0].iter)
            add(PRG + "/selection ranges over the whole registry", "unsat" if src == "Command.get_commands()" else "unknown", fi.key,
                goal=src, backend="syntactic", reason=None if src == "Command.get_commands()" else "selection iterates over %s" % src)
            sel_target = None
            break
    if not found:
        add(PRG + "/selection = requested library or its sub-module", "unknown", fi.key, reason="selection comprehension not recognised")
    # (K) duplicate detection: Counter over command names, threshold > 1
    kfound = False
    for comp in comps:
        if isinstance(comp, ast.ListComp) and comp.generators[0].ifs and "Counter(" in ast.unparse(comp.generators[0].iter):
            it = comp.generators[0].iter  # Counter(<genexp>).items()
            call = None
            for n in ast.walk(it):
                if isinstance(n, ast.Call) and ast.unparse(n.func) == "Counter":
                    call = n
            tgt = comp.generators[0].target
            if call is None or not call.args or not isinstance(call.args[0], ast.GeneratorExp) or not isinstance(tgt, ast.Tuple):
                continue
            kfound = True
            g = call.args[0]
            cvar = g.generators[0].target.id
            c = smt.fresh("entry", z3.IntSort())
            try:
                outs = _eval(eng, fi, g.elt, {cvar: dyn(Val.O(c))}, [Val.is_O(FLD("command")(c))])
                ok = len(outs) >= 1 and all(isinstance(v, Sym) and v.kind == "dyn" for _, v in outs)
                if ok:
                    # whatever the class behind the entry, the counted key is its command name
                    goals = []
                    for st_, v in outs:
                        goals.append(z3.Implies(z3.And(*st_.pc) if st_.pc else z3.BoolVal(True),
                                                v.t == FLD("name")(Val.ref(FLD("command")(c)))))
                    prove(PRG + "/duplicates are counted per command name", fi.key, [Val.is_O(FLD("command")(c))], z3.And(*goals))
                else:
                    add(PRG + "/duplicates are counted per command name", "unknown", fi.key, reason="key expression not a plain attribute chain")
                ctn = tgt.elts[1].id
                ct = smt.fresh("ct", z3.IntSort())
                outs = _eval_truth(eng, fi, comp.generators[0].ifs[0], {ctn: Sym("num", z3.ToReal(ct), True), tgt.elts[0].id: dyn(smt.fresh("nm", Val))})
                term = _merge_truth(outs)
                prove(PRG + "/duplicate <=> a name selected more than once", fi.key, [ct >= 1], term == (ct >= 2))
                src = ast.unparse(g.generators[0].iter)
                add(PRG + "/duplicates are searched among the selected entries", "unsat" if src == SEL else "unknown", fi.key,
                    goal=src, backend="syntactic", reason=None if src == SEL else "counts %s" % src)
            except Unsupported as e:
                add(PRG + "/duplicates are counted per command name", "unknown", fi.key, reason="unsupported: %s" % e)
            break
    if not kfound:
        add(PRG + "/duplicates are counted per command name", "unknown", fi.key, reason="duplicate detection not recognised")
    # duplicates raise MPilotError before the table is built
    raises = [n for n in ast.walk(fi.node) if isinstance(n, ast.Raise)]
    ok = any(isinstance(r.exc, ast.Call) and ast.unparse(r.exc.func) == "MPilotError" for r in raises)
    add(PRG + "/duplicates raise MPilotError", "unsat" if ok else "unknown", fi.key, backend="syntactic", reason=None if ok else "no raise MPilotError(...)")
    # (M) the lookup table
    mfound = False
    for comp in comps:
        if isinstance(comp, ast.DictComp):
            mfound = True
            var = comp.generators[0].target.id
            e = smt.fresh("entry", z3.IntSort())
            try:
                ko = _eval(eng, fi, comp.key, {var: dyn(Val.O(e))}, [Val.is_O(FLD("command")(e))])
                vo = _eval(eng, fi, comp.value, {var: dyn(Val.O(e))}, [Val.is_O(FLD("command")(e))])
                cmdv = FLD("command")(e)
                goals = []
                for st_, v in ko:
                    goals.append(z3.Implies(z3.And(*st_.pc) if st_.pc else z3.BoolVal(True), v.t == FLD("name")(Val.ref(cmdv))))
                for st_, v in vo:
                    goals.append(z3.Implies(z3.And(*st_.pc) if st_.pc else z3.BoolVal(True), v.t == cmdv))
                prove(PRG + "/command_library maps each selected command's name to its class", fi.key, [Val.is_O(cmdv)], z3.And(*goals))
                src = ast.unparse(comp.generators[0].iter)
                okk = src == SEL and not comp.generators[0].ifs
                add(PRG + "/command_library is built from exactly the selected entries", "unsat" if okk else "unknown", fi.key, goal=src,
                    backend="syntactic", reason=None if okk else "table built from %s" % src)
            except Unsupported as ex:
                add(PRG + "/command_library maps each selected command's name to its class", "unknown", fi.key, reason="unsupported: %s" % ex)
            break
    if not mfound:
        add(PRG + "/command_library maps each selected command's name to its class", "unknown", fi.key, reason="table comprehension not recognised")
    # ------------------------------------------------------------------ CommandMeta.__new__
    if repo.has_func(META):
        mi = repo.func(META)
        functions.append(mi.describe())
        rfound = False
        for n in ast.walk(mi.node):
            if isinstance(n, ast.If) and isinstance(n.test, ast.UnaryOp) and isinstance(n.test.op, ast.Not) and isinstance(n.test.operand, ast.Call) \
                    and ast.unparse(n.test.operand.func) == "any" and isinstance(n.test.operand.args[0], ast.GeneratorExp):
                g = n.test.operand.args[0]
                rfound = True
                var = g.generators[0].target.id
                i = smt.fresh("info", z3.IntSort())
                nc = smt.fresh("new_class", z3.IntSort())
                cn = smt.fresh("command_name", Val)
                # locals by role: the class just created (result of super().__new__) and its command name (attrs.get("name", name))
                NC, CN = "new_class", "command_name"
                for a in ast.walk(mi.node):
                    if isinstance(a, ast.Assign) and len(a.targets) == 1 and isinstance(a.targets[0], ast.Name) and isinstance(a.value, ast.Call):
                        txt = ast.unparse(a.value)
                        if ".__new__(" in txt and txt.startswith("super("):
                            NC = a.targets[0].id
                        elif txt.startswith("attrs.get('name'") or txt.startswith('attrs.get("name"'):
                            CN = a.targets[0].id
                env = {var: dyn(Val.O(i)), NC: dyn(Val.O(nc)), CN: dyn(cn), "name": dyn(smt.fresh("clsname", Val))}
                try:
                    cmd = FLD("command")(i)
                    # module names and command names are strings (class statement / `name` attribute of a Command subclass)
                    strs = [Val.is_O(cmd), Val.is_S(FLD("module")(i)), Val.is_S(FLD("__module__")(nc)), Val.is_S(cn),
                            Val.is_S(FLD("name")(Val.ref(cmd))), Val.is_S(FLD("__name__")(Val.ref(cmd)))]
                    outs = _eval_truth(eng, mi, g.elt, env, strs)
                    term = _merge_truth(outs)
                    from .dyn import HASATTR
                    nm = z3.If(HASATTR("name")(Val.ref(cmd)), FLD("name")(Val.ref(cmd)), FLD("__name__")(Val.ref(cmd)))
                    spec = z3.And(py_eq(FLD("module")(i), FLD("__module__")(nc)), py_eq(nm, cn))
                    if term is None:
                        add(META + "/already registered <=> same (module, command name)", "unknown", mi.key, reason="the test may raise")
                    else:
                        prove(META + "/already registered <=> same (module, command name)", mi.key, strs, term == spec)
                    body = ast.unparse(n.body[0]) if n.body else ""
                    okb = ("_commands.add(CommandInfo(%s.__module__, %s))" % (NC, NC)) in body
                    add(META + "/first registration wins: the entry is only ever added", "unsat" if okb else "unknown", mi.key, goal=body[:120],
                        backend="syntactic", reason=None if okb else "registration statement changed")
                    src = ast.unparse(g.generators[0].iter)
                    add(META + "/the test ranges over the whole registry", "unsat" if src == "mcs._commands" else "unknown", mi.key, goal=src,
                        backend="syntactic", reason=None if src == "mcs._commands" else "iterates over %s" % src)
                except Unsupported as ex:
                    add(META + "/already registered <=> same (module, command name)", "unknown", mi.key, reason="unsupported: %s" % ex)
                break
        if not rfound:
            add(META + "/already registered <=> same (module, command name)", "unknown", mi.key, reason="registration test not recognised")
        # the registry is never cleared or replaced
        bad = [ast.unparse(x)[:60] for x in ast.walk(mi.node) if isinstance(x, ast.Call) and isinstance(x.func, ast.Attribute)
               and x.func.attr in ("clear", "remove", "discard", "pop", "difference_update") and "_commands" in ast.unparse(x.func.value)]
        add(META + "/registry is monotone (never cleared)", "unsat" if not bad else "sat", mi.key, goal=str(bad), backend="syntactic")
    return recs, functions


# --------------------------------------------------------------------------- bounded history battery
def run_real(cases, repo_root="/repo", timeout=1200):
    d = replay.workdir()
    fin = tempfile.NamedTemporaryFile("w", suffix=".rin.json", dir=d, delete=False)
    json.dump(cases, fin)
    fin.close()
    fout = fin.name.replace(".rin.json", ".rout.json")
    try:
        p = subprocess.run([replay.VENV_PY, RUNNER, fin.name, fout, repo_root], capture_output=True, text=True, timeout=timeout)
        if p.returncode != 0 or not os.path.exists(fout):
            raise RuntimeError("runner failed: %s %s" % (p.stdout[-500:], p.stderr[-1500:]))
        return json.load(open(fout))
    finally:
        for f in (fin.name, fout):
            try:
                os.unlink(f)
            except OSError:
                pass


PKGS = {
    "plug": {"mods": {"__init__": ["Alpha"], "sub": ["Beta"]}},
    "plugx": {"mods": {"__init__": ["Gamma"], "deep": ["Delta"]}},
    "plug_y": {"mods": {"__init__": ["Alpha"]}},
    "pl": {"mods": {"__init__": ["Eps"]}},
    "other": {"mods": {"__init__": ["Beta:Renamed"], "plug": ["Zeta"]}},
    # library names that differ only where one has a dot (a dot is the only character of a module path that means something in a pattern)
    "ext": {"mods": {"__init__": [], "cmds": ["Shared", "Inner"]}},
    "ext_cmds": {"mods": {"__init__": ["Shared", "Other"]}},
    "extxcmds": {"mods": {"__init__": ["Third"]}},
}


def expected_library(final):
    """the statement's answer, computed from the package description alone"""
    lib = {}
    dup = set()
    for pkg, spec in PKGS.items():
        for mod, classes in spec["mods"].items():
            module = pkg if mod == "__init__" else "%s.%s" % (pkg, mod)
            if any(module == l or module.startswith(l + ".") for l in final):
                for c in classes:
                    nm, _, alias = c.partition(":")
                    name = alias or nm
                    if name in lib:
                        dup.add(name)
                    lib[name] = module
    return lib, dup


def cases(tier, seed=0, focus=False):
    import random

    rnd = random.Random(99 + seed)
    names = list(PKGS)
    subsets = [list(c) for r in (1, 2) for c in itertools.permutations(names, r)]
    out = []
    hist_pool = [[], [["program", ["plugx"]]], [["program", ["plug_y"]], ["program", ["other"]]], [["program", ["pl"]], ["define", "plugz.late", "Late"]],
                 [["program", ["other", "plugx"]]], [["define", "plug", "Late"]], [["program", ["plug"]], ["program", ["plug"]]],
                 [["define", "plug.sub", "Beta"]], [["program", ["plug_y", "pl"]], ["program", ["plugx"]], ["define", "plugx", "Gamma"]]]
    # scenarios every run executes: prefix / dotted-name neighbours loaded first, and classes defined between two constructions
    core = [
        ([["program", ["plugx"]]], ["plug"]),
        ([["program", ["plug_y"]], ["program", ["pl"]]], ["plug"]),
        ([["program", ["plug"]]], ["pl"]),
        ([["program", ["ext_cmds"]], ["program", ["extxcmds"]]], ["ext.cmds"]),
        ([["program", ["ext_cmds"]]], ["ext"]),
        ([["program", ["ext.cmds"]]], ["ext_cmds"]),
        ([["program", ["plug"]], ["define", "plug", "Late"]], ["plug"]),
        ([["program", ["plug"]], ["define", "plug.sub", "Later"], ["program", ["plug"]]], ["plug"]),
        ([["program", ["plug"]], ["define", "plug_y", "Beta"]], ["plug", "plug_y"]),
        ([["program", ["other"]]], ["other.plug"]),
        ([], ["plug", "plug_y"]),
        ([["program", ["plug", "plugx"]]], ["plugx", "plug"]),
    ]
    for h, final in core:
        out.append({"packages": PKGS, "history": h, "final": final})
    chosen = subsets if (tier != "quick" or focus) else rnd.sample(subsets, 8)
    for final in chosen:
        hs = hist_pool if (tier != "quick" or focus) else rnd.sample(hist_pool, 2)
        for h in hs:
            out.append({"packages": PKGS, "history": h, "final": final})
    return out


def judge(case, out):
    bad = []
    for k in ("with_history", "fresh"):
        if "harness_error" in out.get(k, {}) or "harness_error" in out:
            return [("harness-error", str(out)[:300])]
    wh, fr = out["with_history"]["final"], out["fresh"]["final"]
    defined_here = [s for s in case["history"] if s[0] == "define"]
    lib, dup = expected_library(case["final"])
    # classes defined at run time in a module under a requested library legitimately belong to it
    for s in defined_here:
        if any(s[1] == l or s[1].startswith(l + ".") for l in case["final"]):
            if s[2] in lib and lib[s[2]] != s[1]:
                dup.add(s[2])
            lib.setdefault(s[2], s[1])
    if dup:
        if wh["outcome"] != "raise" or not wh.get("is_mpilot"):
            bad.append(("lookup", "libraries defining %s twice were accepted: %s" % (sorted(dup), wh)))
        return bad
    if wh["outcome"] != "ok":
        bad.append(("lookup", "construction failed although the requested libraries define no name twice: %s" % wh))
        return bad
    if wh["library"] != lib:
        bad.append(("lookup", "after the history the program sees %s, the requested libraries define %s" % (wh["library"], lib)))
    if not defined_here and fr["outcome"] == "ok" and fr["library"] != wh["library"]:
        bad.append(("lookup", "history dependence: fresh process %s, with history %s" % (fr["library"], wh["library"])))
    # name resolution (find_command_class): exact names resolve to the table's entry; whatever any spelling resolves to comes from a requested
    # library and does not depend on the history
    res = wh.get("resolved", {})
    for n, origin in sorted(res.items()):
        if n in lib and origin != lib[n]:
            bad.append(("lookup", "%r resolves to %s, the requested libraries define it in %s" % (n, origin, lib[n])))
        elif origin is not None and not any(origin == l or origin.startswith(l + ".") for l in case["final"]):
            bad.append(("lookup", "%r resolves to %s, which belongs to none of the requested libraries %s" % (n, origin, case["final"])))
    if not defined_here and fr["outcome"] == "ok" and fr.get("resolved", {}) != res:
        diff = [n for n in res if res[n] != fr.get("resolved", {}).get(n)]
        bad.append(("lookup", "history dependence of name resolution: %s" % diff[:4]))
    return bad
