"""Extractor: re-reads /repo on every run and indexes functions, classes and module data.

Nothing is imported or executed from /repo here; everything is `ast` over the source text.
What is dropped/normalised is listed in DESIGN.md section 3.
"""
import ast
import hashlib
import os

REPO = os.environ.get("MPILOT_REPO", "/repo")


class FuncInfo(object):
    def __init__(self, module, qualname, node, src, cls=None, parent=None):
        self.module = module  # ModuleInfo
        self.qualname = qualname
        self.node = node
        self.src = src
        self.cls = cls  # ClassInfo or None
        self.parent = parent  # enclosing FuncInfo (nested def)
        self.sha256 = hashlib.sha256(src.encode()).hexdigest()

    @property
    def key(self):
        return "%s::%s" % (self.module.relpath, self.qualname)

    @property
    def lines(self):
        return (self.node.lineno, self.node.end_lineno)

    def describe(self):
        return {
            "file": self.module.relpath,
            "qualname": self.qualname,
            "lines": list(self.lines),
            "sha256": self.sha256,
        }

    def decorators(self):
        out = []
        for d in self.node.decorator_list:
            out.append(ast.unparse(d))
        return out


class ClassInfo(object):
    def __init__(self, module, name, node):
        self.module = module
        self.name = name
        self.node = node
        self.base_exprs = node.bases
        self.methods = {}  # name -> FuncInfo
        self.attrs = {}  # name -> ast expr (class-level simple assignments)
        self.decorators = [ast.unparse(d) for d in node.decorator_list]

    @property
    def key(self):
        return "%s::%s" % (self.module.relpath, self.name)


class ModuleInfo(object):
    def __init__(self, relpath, dotted, tree, src):
        self.relpath = relpath
        self.dotted = dotted
        self.tree = tree
        self.src = src
        self.functions = {}  # qualname -> FuncInfo (incl. methods and nested)
        self.classes = {}  # name -> ClassInfo
        self.globals = {}  # name -> ast expr (module-level simple assignments)
        self.imports = {}  # local name -> (module dotted, name or None)
        self.is_package = relpath.endswith("__init__.py")


class Repo(object):
    def __init__(self, root=None, package="mpilot"):
        self.root = root or REPO
        self.package = package
        self.modules = {}  # relpath -> ModuleInfo
        self.by_dotted = {}
        self._load()

    # ------------------------------------------------------------------ loading
    def _load(self):
        base = os.path.join(self.root, self.package)
        for dirpath, dirnames, filenames in os.walk(base):
            dirnames[:] = [d for d in dirnames if d != "__pycache__"]
            for fn in sorted(filenames):
                if not fn.endswith(".py"):
                    continue
                full = os.path.join(dirpath, fn)
                rel = os.path.relpath(full, self.root)
                with open(full, "r", encoding="utf-8") as f:
                    src = f.read()
                tree = ast.parse(src, filename=rel)
                dotted = rel[:-3].replace(os.sep, ".")
                if dotted.endswith(".__init__"):
                    dotted = dotted[: -len(".__init__")]
                mod = ModuleInfo(rel, dotted, tree, src)
                self.modules[rel] = mod
                self.by_dotted[dotted] = mod
                self._index_module(mod)

    def _resolve_relative(self, mod, level, name):
        if level == 0:
            return name
        parts = mod.dotted.split(".")
        if not mod.is_package:
            parts = parts[:-1]
        if level > 1:
            parts = parts[: -(level - 1)]
        return ".".join(parts + ([name] if name else []))

    def _index_module(self, mod):
        def visit_body(body, prefix, cls, parent, toplevel):
            for node in body:
                if isinstance(node, (ast.FunctionDef,)):
                    q = prefix + node.name
                    fi = FuncInfo(mod, q, node, ast.get_source_segment(mod.src, node) or "", cls, parent)
                    mod.functions[q] = fi
                    if cls is not None and parent is None:
                        cls.methods[node.name] = fi
                    # nested defs
                    visit_body(node.body, q + ".", None, fi, False)
                elif isinstance(node, ast.ClassDef) and toplevel:
                    ci = ClassInfo(mod, node.name, node)
                    mod.classes[node.name] = ci
                    for sub in node.body:
                        if isinstance(sub, ast.Assign) and len(sub.targets) == 1 and isinstance(sub.targets[0], ast.Name):
                            ci.attrs[sub.targets[0].id] = sub.value
                    visit_body(node.body, node.name + ".", ci, None, False)
                elif isinstance(node, ast.Assign) and toplevel:
                    if len(node.targets) == 1 and isinstance(node.targets[0], ast.Name):
                        mod.globals[node.targets[0].id] = node.value
                elif isinstance(node, ast.Import) and toplevel:
                    for a in node.names:
                        mod.imports[a.asname or a.name.split(".")[0]] = (a.name if a.asname else a.name.split(".")[0], None)
                elif isinstance(node, ast.ImportFrom) and toplevel:
                    target = self._resolve_relative(mod, node.level, node.module or "")
                    for a in node.names:
                        mod.imports[a.asname or a.name] = (target, a.name)
                elif isinstance(node, ast.If) and toplevel:
                    # `if six.PY3:` guarded imports (A-PY3): take the true branch
                    if ast.unparse(node.test) == "six.PY3":
                        visit_body(node.body, prefix, cls, parent, toplevel)
                elif isinstance(node, (ast.If, ast.For, ast.While, ast.With, ast.Try)) and not toplevel:
                    # nested defs inside control flow of a function
                    for fld in ("body", "orelse", "finalbody"):
                        visit_body(getattr(node, fld, []) or [], prefix, cls, parent, False)
                    for h in getattr(node, "handlers", []) or []:
                        visit_body(h.body, prefix, cls, parent, False)

        visit_body(mod.tree.body, "", None, None, True)

    # ------------------------------------------------------------------ queries
    def func(self, key):
        rel, q = key.split("::")
        return self.modules[rel].functions[q]

    def has_func(self, key):
        rel, q = key.split("::")
        return rel in self.modules and q in self.modules[rel].functions

    def cls(self, key):
        rel, q = key.split("::")
        return self.modules[rel].classes[q]

    def resolve_class_name(self, mod, expr):
        """Resolve a base-class expression in module `mod` to a ClassInfo or an external name string."""
        if isinstance(expr, ast.Name):
            name = expr.id
            if name in mod.classes:
                return mod.classes[name]
            if name in mod.imports:
                target, attr = mod.imports[name]
                tm = self.by_dotted.get(target)
                if tm is not None and attr:
                    if attr in tm.classes:
                        return tm.classes[attr]
                    # re-exported
                    if attr in tm.imports:
                        return self.resolve_class_name(tm, ast.Name(id=attr, ctx=ast.Load()))
                return "%s.%s" % (target, attr) if attr else target
            return name
        if isinstance(expr, ast.Attribute) and isinstance(expr.value, ast.Name):
            base = expr.value.id
            if base in mod.imports:
                target, attr = mod.imports[base]
                dotted = target if attr is None else "%s.%s" % (target, attr)
                tm = self.by_dotted.get(dotted)
                if tm is not None and expr.attr in tm.classes:
                    return tm.classes[expr.attr]
                return "%s.%s" % (dotted, expr.attr)
        return ast.unparse(expr)

    def bases(self, ci):
        return [self.resolve_class_name(ci.module, b) for b in ci.base_exprs]

    def mro(self, ci):
        """C3 linearisation over the extracted class table; external bases appear as strings."""

        def lin(c):
            if isinstance(c, str):
                return [c]
            bs = self.bases(c)
            seqs = [lin(b) for b in bs] + [list(bs)]
            res = [c]
            while True:
                seqs = [s for s in seqs if s]
                if not seqs:
                    return res
                for s in seqs:
                    cand = s[0]
                    if not any(cand is x or cand == x for t in seqs for x in t[1:]):
                        break
                else:
                    raise ValueError("inconsistent MRO for %s" % c.name)
                res.append(cand)
                for s in seqs:
                    if s and (s[0] is cand or s[0] == cand):
                        del s[0]

        return lin(ci)

    def find_method(self, ci, name, after=None):
        """Look up `name` along the MRO of ci; if `after` is given start after that class (super())."""
        mro = self.mro(ci)
        start = 0
        if after is not None:
            for i, c in enumerate(mro):
                if c is after:
                    start = i + 1
                    break
        for c in mro[start:]:
            if isinstance(c, str):
                continue
            if name in c.methods:
                return c.methods[name]
        return None

    def find_class_attr(self, ci, name):
        for c in self.mro(ci):
            if isinstance(c, str):
                continue
            if name in c.attrs:
                return c, c.attrs[name]
        return None, None

    def is_subclass(self, ci, other):
        for c in self.mro(ci):
            if c is other or c == other:
                return True
            if isinstance(other, str) and not isinstance(c, str) and c.name == other:
                return True
            if isinstance(other, str) and isinstance(c, str) and c.split(".")[-1] == other.split(".")[-1]:
                return True
        return False

    def all_classes(self):
        for mod in self.modules.values():
            for ci in mod.classes.values():
                yield ci

    def subclasses_of(self, name):
        out = []
        for ci in self.all_classes():
            for c in self.mro(ci):
                n = c if isinstance(c, str) else c.name
                if n.split(".")[-1] == name:
                    out.append(ci)
                    break
        return out
