"""Python regular expressions -> z3 regular expressions (mechanical, through CPython's own regex parser)."""
try:
    import re._parser as sre_parse  # py >= 3.11
    import re._constants as sre_c
except ImportError:  # pragma: no cover
    import sre_parse
    import sre_constants as sre_c

import z3

S = z3.StringSort()
ANYCHAR = z3.AllChar(z3.ReSort(S))


def ch(c):
    return z3.Re(z3.StringVal(chr(c) if isinstance(c, int) else c))


def rng(a, b):
    return z3.Range(z3.StringVal(chr(a)), z3.StringVal(chr(b)))


def union(xs):
    xs = list(xs)
    if not xs:
        return z3.Empty(z3.ReSort(S))
    return xs[0] if len(xs) == 1 else z3.Union(*xs)


def concat(xs):
    xs = list(xs)
    if not xs:
        return z3.Re(z3.StringVal(""))
    return xs[0] if len(xs) == 1 else z3.Concat(*xs)


def category(cat):
    if cat == sre_c.CATEGORY_DIGIT:
        return rng(48, 57)  # ASCII digits (A-ASCII-CLASSES: \d is taken as [0-9])
    if cat == sre_c.CATEGORY_SPACE:
        return union([ch(c) for c in " \t\n\r\f\v"])
    if cat == sre_c.CATEGORY_WORD:
        return union([rng(48, 57), rng(65, 90), rng(97, 122), ch("_")])
    raise ValueError("regex category %s not supported" % cat)


def in_class(items):
    neg = False
    parts = []
    for op, av in items:
        if op == sre_c.NEGATE:
            neg = True
        elif op == sre_c.LITERAL:
            parts.append(ch(av))
        elif op == sre_c.RANGE:
            parts.append(rng(av[0], av[1]))
        elif op == sre_c.CATEGORY:
            parts.append(category(av))
        else:
            raise ValueError("regex class item %s not supported" % op)
    u = union(parts)
    if neg:
        return z3.Intersect(ANYCHAR, z3.Complement(u))
    return u


def translate(parsed):
    out = []
    for op, av in parsed:
        if op == sre_c.LITERAL:
            out.append(ch(av))
        elif op == sre_c.NOT_LITERAL:
            out.append(z3.Intersect(ANYCHAR, z3.Complement(ch(av))))
        elif op == sre_c.ANY:
            # Python's `.` (no DOTALL) excludes only \n
            out.append(z3.Intersect(ANYCHAR, z3.Complement(ch("\n"))))
        elif op == sre_c.IN:
            out.append(in_class(av))
        elif op == sre_c.BRANCH:
            out.append(union([translate(b) for b in av[1]]))
        elif op == sre_c.SUBPATTERN:
            out.append(translate(av[3]))
        elif op in (sre_c.MAX_REPEAT, sre_c.MIN_REPEAT):
            lo, hi, sub = av
            r = translate(sub)
            if hi == sre_c.MAXREPEAT:
                if lo == 0:
                    out.append(z3.Star(r))
                elif lo == 1:
                    out.append(z3.Plus(r))
                else:
                    out.append(z3.Concat(z3.Loop(r, lo, lo), z3.Star(r)))
            else:
                out.append(z3.Loop(r, lo, hi) if not (lo == 0 and hi == 1) else z3.Option(r))
        else:
            raise ValueError("regex construct %s not supported (language-level translation only)" % op)
    return concat(out)


def to_z3(pattern):
    return translate(sre_parse.parse(pattern))


def lit(s):
    return z3.Re(z3.StringVal(s))


def chars(s):
    return union([ch(c) for c in s])


def nonempty(regex, rlimit=20000000, timeout_ms=30000):
    """Is L(regex) non-empty? returns ('sat', witness) | ('unsat', None) | ('unknown', None)"""
    w = z3.String("w")
    s = z3.Solver()
    s.set("rlimit", rlimit)
    s.add(z3.InRe(w, regex))
    r = s.check()
    if r == z3.sat:
        v = s.model().eval(w, model_completion=True)
        return "sat", (v.as_string() if z3.is_string_value(v) else str(v))
    return str(r), None
