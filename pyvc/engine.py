"""Symbolic executor for the Python subset used by mpilot (statements, control flow, calls)."""
import ast
import time

import z3

from . import smt
from .state import State
from .values import (
    Unsupported, Sym, Ref, TupleV, FuncV, LambdaV, BuiltinV, ClassV, ModuleV, SuperV, Raised, ExcSym,
    PyList, SeqV, PyDict, Bag, Obj, ArrState, DataView, MaskView, Idx, StackState, Slice, is_concrete, num_term, isint_of,
    is_num, zand, zor, znot,
)
from .exprs import ExprMixin
from .models import ModelMixin
from .builtins_model import BuiltinMixin
from .ma import MAMixin
from .dyn import DynMixin

BUILTIN_EXC_BASES = {
    "BaseException": None,
    "Exception": "BaseException",
    "ValueError": "Exception",
    "TypeError": "Exception",
    "KeyError": "LookupError",
    "IndexError": "LookupError",
    "LookupError": "Exception",
    "AttributeError": "Exception",
    "StopIteration": "Exception",
    "NotImplementedError": "RuntimeError",
    "RuntimeError": "Exception",
    "ZeroDivisionError": "ArithmeticError",
    "ArithmeticError": "Exception",
    "OverflowError": "ArithmeticError",
    "UnicodeDecodeError": "ValueError",
    "UnicodeEncodeError": "ValueError",
    "UFuncTypeError": "TypeError",
    "SyntaxError": "Exception",
    "OSError": "Exception",
    "IOError": "Exception",
    "FileNotFoundError": "OSError",
    "SystemExit": "BaseException",
    "KeyboardInterrupt": "BaseException",
    "RecursionError": "RuntimeError",
    "AssertionError": "Exception",
    "NameError": "Exception",
    "UnboundLocalError": "NameError",
}


class Engine(DynMixin, ExprMixin, ModelMixin, BuiltinMixin, MAMixin):
    def __init__(self, repo, contracts=None, loop_contracts=None, prop=None):
        self.repo = repo
        self.contracts = contracts or {}
        self.loop_contracts = loop_contracts or {}
        self.prop = prop
        self.results = []  # one entry per VC
        self.current = None  # FuncInfo being verified
        self.frames = []  # stack of FuncInfo for name resolution
        self.builtin_models = {}
        self.method_models = {}
        self.assumed_used = set()
        self.unsupported = []
        self.rlimit = None
        self.check_feasibility = True
        self.loop_counters = {}

    # ------------------------------------------------------------ obligations
    def oblige(self, st, name, goal, kind="ensures", meta=None, assume_after=True):
        """Generate and discharge one VC: hyps(st) -> goal."""
        if isinstance(goal, bool):
            goal = z3.BoolVal(goal)
        v = smt.check(st.hyps(), goal, rlimit=self.rlimit)
        rec = {
            "name": name,
            "kind": kind,
            "status": v.status,
            "backend": v.backend,
            "time_s": round(v.time_s, 4),
            "function": self.current.key if self.current else None,
            "trail": list(st.trail)[-12:],
            "goal": str(z3.simplify(goal))[:400],
        }
        if meta:
            rec.update(meta)
        if v.status == "sat" and v.model is not None:
            rec["model_obj"] = v.model
            rec["state"] = st
        if v.status != "unsat":
            rec["reason"] = v.reason
        self.results.append(rec)
        if assume_after and v.status == "unsat":
            st.assume(goal)
        return v.status == "unsat"

    def note_unsupported(self, where, msg):
        self.unsupported.append({"where": where, "msg": msg})

    def feasible(self, st):
        if not self.check_feasibility:
            return True
        # pruning only: 'unknown' keeps the path (its obligations are still generated and must be discharged)
        r = smt.satisfiable(st.hyps(), rlimit=2000000, timeout_ms=400)
        return r != "unsat"

    # ------------------------------------------------------------ branching
    def branch(self, st, cond):
        """cond: python bool or z3 Bool. yields (state, taken: bool)."""
        if isinstance(cond, bool):
            yield st, cond
            return
        c = z3.simplify(cond)
        if z3.is_true(c):
            yield st, True
            return
        if z3.is_false(c):
            yield st, False
            return
        s1 = st.fork()
        s1.assume(c)
        if self.feasible(s1):
            yield s1, True
        s2 = st.fork()
        s2.assume(z3.Not(c))
        if self.feasible(s2):
            yield s2, False

    # ------------------------------------------------------------ exceptions
    def make_exc(self, st, clsname, fields=None, msg=None):
        f = dict(fields or {})
        if msg is not None:
            f["args"] = TupleV([msg])
        return st.alloc(Obj(ClassV(clsname, self.find_exc_class(clsname)), f))

    def find_exc_class(self, name):
        for mod in self.repo.modules.values():
            if name in mod.classes:
                return mod.classes[name]
        return None

    def lookup_class(self, name):
        return ClassV(name, self.find_exc_class(name))

    def raise_(self, st, clsname, msg=None, fields=None):
        return st, Raised(self.make_exc(st, clsname, fields, msg))

    def class_is_subclass(self, cv, basename):
        """ClassV <= class named basename ?  (python bool)"""
        if cv.info is not None:
            for c in self.repo.mro(cv.info):
                n = c if isinstance(c, str) else c.name
                n = n.split(".")[-1]
                if n == basename:
                    return True
                if isinstance(c, str):
                    # continue through builtin chain
                    b = n
                    while b is not None:
                        if b == basename:
                            return True
                        b = BUILTIN_EXC_BASES.get(b)
            return basename == "object"
        b = cv.name
        while b is not None:
            if b == basename:
                return True
            b = BUILTIN_EXC_BASES.get(b)
        return basename == "object"

    def exc_matches(self, st, exc, cls):
        """Does exception value `exc` match except-clause class value `cls`? python bool or z3 Bool."""
        if isinstance(cls, TupleV):
            rs = [self.exc_matches(st, exc, c) for c in cls.items]
            if all(isinstance(r, bool) for r in rs):
                return any(rs)
            return zor(*rs)
        if not isinstance(cls, ClassV):
            raise Unsupported("except clause with non-class %r" % (cls,))
        if isinstance(exc, ExcSym):
            # symbolic class below exc.base
            if self.class_is_subclass(ClassV(exc.base, self.find_exc_class(exc.base)), cls.name):
                return True
            if cls.name in exc.is_a:
                return exc.is_a[cls.name]
            # a class unrelated to base and not tracked: is the handler class below base?
            hc = cls
            if self.class_is_subclass(hc, exc.base):
                b = smt.fresh("isa_" + cls.name, z3.BoolSort())
                exc.is_a[cls.name] = b
                return b
            return False
        o = st.get(exc)
        return self.class_is_subclass(o.cls, cls.name)

    # ------------------------------------------------------------ function entry
    def bind_params(self, fi, st, self_val, args, kwargs, defaults_env=None):
        """Bind call arguments to parameters of fi. Returns env dict. kwargs: dict name->value."""
        a = fi.node.args
        names = [x.arg for x in a.args]
        env = {}
        pos = list(args)
        if self_val is not None:
            pos = [self_val] + pos
        if len(pos) > len(names) and a.vararg is None:
            raise Unsupported("too many positional args for %s" % fi.key)
        for n, v in zip(names, pos):
            env[n] = v
        if a.vararg is not None:
            env[a.vararg.arg] = TupleV(pos[len(names):])
        extra = {}
        for k, v in kwargs.items():
            if k in names or k in [x.arg for x in a.kwonlyargs]:
                if k in env:
                    raise Unsupported("multiple values for %s" % k)
                env[k] = v
            else:
                extra[k] = v
        ndef = len(a.defaults)
        for i, d in enumerate(a.defaults):
            n = names[len(names) - ndef + i]
            if n not in env:
                env[n] = self.const_eval(d, fi.module, st)
        for ka, d in zip(a.kwonlyargs, a.kw_defaults):
            if ka.arg not in env and d is not None:
                env[ka.arg] = self.const_eval(d, fi.module, st)
        for n in names:
            if n not in env:
                raise Unsupported("missing argument %s for %s" % (n, fi.key))
        if a.kwarg is not None:
            env[a.kwarg.arg] = st.alloc(PyDict(extra))
        elif extra:
            raise Unsupported("unexpected keyword %s for %s" % (list(extra), fi.key))
        return env

    def run_function(self, fi, st, env, cls=None):
        """Symbolically execute fi's body from state st with local env. yields (st, ('return',v)|('raise',exc))."""
        saved = st.env
        st.env = dict(env)
        st.env["__fi__"] = fi
        st.env["__cls__"] = cls or fi.cls
        self.frames.append(fi)
        try:
            for st2, out in self.exec_block(fi.node.body, st):
                st2.env = saved
                if out[0] == "normal":
                    out = ("return", None)
                elif out[0] not in ("return", "raise"):
                    raise Unsupported("break/continue outside loop")
                # the consumer continues in the caller: the callee's frame is not current while it does
                self.frames.pop()
                try:
                    yield st2, out
                finally:
                    self.frames.append(fi)
        finally:
            self.frames.pop()

    def inline_call(self, fi, st, self_val, args, kwargs, cls=None, closure=None):
        env = {}
        if closure:
            env.update(closure)
        env.update(self.bind_params(fi, st, self_val, args, kwargs))
        for st2, out in self.run_function(fi, st, env, cls=cls):
            if out[0] == "return":
                yield st2, out[1]
            else:
                yield st2, Raised(out[1])

    # ------------------------------------------------------------ statements
    def exec_block(self, stmts, st):
        if not stmts:
            yield st, ("normal", None)
            return
        first, rest = stmts[0], stmts[1:]
        for st1, out in self.exec_stmt(first, st):
            if out[0] == "normal":
                for r in self.exec_block(rest, st1):
                    yield r
            else:
                yield st1, out

    def exec_stmt(self, node, st):
        m = getattr(self, "st_" + type(node).__name__, None)
        if m is None:
            raise Unsupported("statement %s at line %d" % (type(node).__name__, node.lineno))
        for r in m(node, st):
            yield r

    def st_Expr(self, node, st):
        if isinstance(node.value, ast.Constant):
            yield st, ("normal", None)
            return
        for st1, v in self.ev(node.value, st):
            if isinstance(v, Raised):
                yield st1, ("raise", v.exc)
            else:
                yield st1, ("normal", None)

    def st_Pass(self, node, st):
        yield st, ("normal", None)

    def st_Import(self, node, st):
        yield st, ("normal", None)

    def st_ImportFrom(self, node, st):
        # local import (e.g. `from . import commands` inside ResultParameter.clean)
        fi = st.env.get("__fi__")
        mod = fi.module
        target = self.repo._resolve_relative(mod, node.level, node.module or "")
        for a in node.names:
            full = "%s.%s" % (target, a.name) if target else a.name
            if full in self.repo.by_dotted:
                st.env[a.asname or a.name] = ModuleV(full)
            else:
                tm = self.repo.by_dotted.get(target)
                if tm is not None:
                    st.env[a.asname or a.name] = self.module_attr(tm, a.name, st)
                else:
                    st.env[a.asname or a.name] = BuiltinV(full)
        yield st, ("normal", None)

    def st_Return(self, node, st):
        if node.value is None:
            yield st, ("return", None)
            return
        for st1, v in self.ev(node.value, st):
            if isinstance(v, Raised):
                yield st1, ("raise", v.exc)
            else:
                yield st1, ("return", v)

    def st_Raise(self, node, st):
        if node.exc is None:
            cur = st.ghost.get("cur_exc")
            if cur is None:
                raise Unsupported("bare raise outside handler")
            yield st, ("raise", cur)
            return
        for st1, v in self.ev(node.exc, st):
            if isinstance(v, Raised):
                yield st1, ("raise", v.exc)
                continue
            if isinstance(v, ClassV):
                for st2, inst in self.instantiate(v, st1, [], {}):
                    if isinstance(inst, Raised):
                        yield st2, ("raise", inst.exc)
                    else:
                        yield st2, ("raise", inst)
            else:
                yield st1, ("raise", v)

    def st_Assign(self, node, st):
        for st1, v in self.ev(node.value, st):
            if isinstance(v, Raised):
                yield st1, ("raise", v.exc)
                continue
            states = [st1]
            for tgt in node.targets:
                nxt = []
                for s in states:
                    for s2, r in self.assign(tgt, v, s):
                        if isinstance(r, Raised):
                            yield s2, ("raise", r.exc)
                        else:
                            nxt.append(s2)
                states = nxt
            for s in states:
                yield s, ("normal", None)

    def st_AugAssign(self, node, st):
        # x op= e   ==>  tmp = load(x); tmp' = inplace(tmp, e); store(x, tmp')
        load = ast.copy_location(self._as_load(node.target), node)
        for st1, cur in self.ev(load, st):
            if isinstance(cur, Raised):
                yield st1, ("raise", cur.exc)
                continue
            for st2, rhs in self.ev(node.value, st1):
                if isinstance(rhs, Raised):
                    yield st2, ("raise", rhs.exc)
                    continue
                for st3, res in self.binop(st2, node.op, cur, rhs, inplace=True):
                    if isinstance(res, Raised):
                        yield st3, ("raise", res.exc)
                        continue
                    for st4, r in self.assign(node.target, res, st3):
                        if isinstance(r, Raised):
                            yield st4, ("raise", r.exc)
                        else:
                            yield st4, ("normal", None)

    def _as_load(self, tgt):
        import copy

        t = copy.deepcopy(tgt)
        for n in ast.walk(t):
            if hasattr(n, "ctx"):
                n.ctx = ast.Load()
        return t

    def st_Delete(self, node, st):
        states = [st]
        for tgt in node.targets:
            nxt = []
            for s in states:
                if isinstance(tgt, ast.Subscript):
                    for s1, obj in self.ev(tgt.value, s):
                        if isinstance(obj, Raised):
                            yield s1, ("raise", obj.exc)
                            continue
                        for s2, idx in self.ev_index(tgt.slice, s1):
                            if isinstance(idx, Raised):
                                yield s2, ("raise", idx.exc)
                                continue
                            for s3, r in self.del_item(s2, obj, idx):
                                if isinstance(r, Raised):
                                    yield s3, ("raise", r.exc)
                                else:
                                    nxt.append(s3)
                elif isinstance(tgt, ast.Name):
                    s.env.pop(tgt.id, None)
                    nxt.append(s)
                else:
                    raise Unsupported("del target")
            states = nxt
        for s in states:
            yield s, ("normal", None)

    def st_If(self, node, st):
        for st1, c in self.ev_truth(node.test, st):
            if isinstance(c, Raised):
                yield st1, ("raise", c.exc)
                continue
            for st2, taken in self.branch(st1, c):
                st2.trail.append("L%d:%s" % (node.lineno, "T" if taken else "F"))
                for r in self.exec_block(node.body if taken else node.orelse, st2):
                    yield r

    def st_With(self, node, st):
        states = [st]
        for item in node.items:
            nxt = []
            for s in states:
                for s1, v in self.ev(item.context_expr, s):
                    if isinstance(v, Raised):
                        yield s1, ("raise", v.exc)
                        continue
                    if item.optional_vars is not None:
                        for s2, r in self.assign(item.optional_vars, v, s1):
                            if isinstance(r, Raised):
                                yield s2, ("raise", r.exc)
                            else:
                                nxt.append(s2)
                    else:
                        nxt.append(s1)
            states = nxt
        for s in states:
            # __exit__ of files/datasets: closes, never swallows (assumed)
            for r in self.exec_block(node.body, s):
                yield r

    def st_Try(self, node, st):
        if node.finalbody:
            # try / except / else / finally: whatever way the protected part ends, the finally block runs next; if it ends
            # normally the pending outcome (value returned, exception raised, break / continue) resumes, otherwise its own
            # outcome replaces it
            for st1, out in self._try_core(node, st):
                for st2, fout in self.exec_block(node.finalbody, st1):
                    if fout[0] == "normal":
                        yield st2, out
                    else:
                        yield st2, fout
            return
        for r in self._try_core(node, st):
            yield r

    def _try_core(self, node, st):
        for st1, out in self.exec_block(node.body, st):
            if out[0] == "raise" and node.handlers:
                for r in self._handle(node, st1, out[1]):
                    yield r
            elif out[0] == "normal" and node.orelse:
                for r in self.exec_block(node.orelse, st1):
                    yield r
            else:
                yield st1, out

    def _handle(self, node, st, exc):
        def go(handlers, s):
            if not handlers:
                yield s, ("raise", exc)
                return
            h = handlers[0]
            if h.type is None:
                conds = [(s, True)]
            else:
                conds = []
                for s1, cls in self.ev(h.type, s):
                    if isinstance(cls, Raised):
                        raise Unsupported("except type raised")
                    m = self.exc_matches(s1, exc, cls)
                    for s2, taken in self.branch(s1, m):
                        conds.append((s2, taken))
            for s2, taken in conds:
                if taken:
                    if h.name:
                        s2.env[h.name] = exc
                    prev = s2.ghost.get("cur_exc")
                    s2.ghost["cur_exc"] = exc
                    s2.trail.append("L%d:except" % h.lineno)
                    for s3, out in self.exec_block(h.body, s2):
                        s3.ghost["cur_exc"] = prev
                        yield s3, out
                else:
                    for r in go(handlers[1:], s2):
                        yield r

        for r in go(node.handlers, st):
            yield r

    # ------------------------------------------------------------ loops
    def loop_ordinal(self, kind, node):
        fi = self.frames[-1] if self.frames else None
        if fi is None:
            return None
        # ordinal of `node` among nodes of the same kind inside fi (source order)
        n = 0
        for x in ast.walk(fi.node):
            pass
        cnt = 0
        for x in self._ordered_nodes(fi.node):
            if kind == "for" and isinstance(x, (ast.For, ast.While)):
                if x is node:
                    return cnt
                cnt += 1
            elif kind in ("reduce", "sum", "comp") and x is node:
                return cnt
            elif kind == "reduce" and isinstance(x, ast.Call) and ast.unparse(x.func) == "reduce":
                cnt += 1
            elif kind == "sum" and isinstance(x, ast.Call) and ast.unparse(x.func) == "sum":
                cnt += 1
            elif kind == "comp" and isinstance(x, (ast.ListComp, ast.GeneratorExp, ast.DictComp)):
                cnt += 1
        return None

    def _ordered_nodes(self, root):
        out = []

        def rec(n):
            out.append(n)
            for c in ast.iter_child_nodes(n):
                if isinstance(c, (ast.FunctionDef, ast.Lambda)) and c is not root:
                    if isinstance(c, ast.Lambda):
                        rec(c)
                    continue
                rec(c)

        rec(root)
        return out

    def st_For(self, node, st):
        if node.orelse:
            raise Unsupported("for/else")
        if isinstance(node.iter, ast.GeneratorExp) and len(node.iter.generators) == 1 and not getattr(node, "_desugared", False):
            # for x in (e for y in ys if c): body   ==>   for y in ys: if c: x = e; body      (A-GEN)
            g = node.iter.generators[0]
            inner = [ast.Assign(targets=[node.target], value=node.iter.elt, lineno=node.lineno, col_offset=0)] + list(node.body)
            if g.ifs:
                test = g.ifs[0] if len(g.ifs) == 1 else ast.BoolOp(op=ast.And(), values=list(g.ifs))
                inner = [ast.If(test=test, body=inner, orelse=[], lineno=node.lineno, col_offset=0)]
            new = ast.For(target=g.target, iter=g.iter, body=inner, orelse=[], lineno=node.lineno, col_offset=0)
            ast.fix_missing_locations(new)
            new._desugared = True
            new._ordinal_node = node
            for r in self.st_For(new, st):
                yield r
            return
        for st1, it in self.ev(node.iter, st):
            if isinstance(it, Raised):
                yield st1, ("raise", it.exc)
                continue
            for st2, seq in self.as_sequence(st1, it):
                if isinstance(seq, Raised):
                    yield st2, ("raise", seq.exc)
                    continue
                if isinstance(seq, list):
                    for r in self._unrolled(node, st2, seq, 0):
                        yield r
                else:
                    for r in self._symbolic_loop(node, st2, seq):
                        yield r

    def _unrolled(self, node, st, items, i):
        if i >= len(items):
            yield st, ("normal", None)
            return
        for s1, r in self.assign(node.target, items[i], st):
            if isinstance(r, Raised):
                yield s1, ("raise", r.exc)
                continue
            for s2, out in self.exec_block(node.body, s1):
                if out[0] in ("normal", "continue"):
                    for r2 in self._unrolled(node, s2, items, i + 1):
                        yield r2
                elif out[0] == "break":
                    yield s2, ("normal", None)
                else:
                    yield s2, out

    def _symbolic_loop(self, node, st, seq):
        fi = self.frames[-1]
        ordn = self.loop_ordinal("for", getattr(node, "_ordinal_node", node))
        key = (fi.key, "for", ordn)
        lc = self.loop_contracts.get(key)
        if lc is None:
            raise Unsupported("loop %s#%s over a sequence of symbolic length needs an invariant" % (fi.key, ordn))
        lc._alias = self.loop_alias(fi, "for", ordn, node)

        def body(s, elem, j):
            for s1, r in self.assign(node.target, elem, s):
                if isinstance(r, Raised):
                    yield s1, ("raise", r.exc)
                    continue
                for s2, out in self.exec_block(node.body, s1):
                    yield s2, out

        if getattr(lc, "summary", False):
            for r in self.summarised(st, seq, body, lc, "%s/loop%d" % (fi.key, ordn)):
                yield r
            return
        for r in self.iterate(st, seq, body, lc, "%s/loop%d" % (fi.key, ordn)):
            yield r

    def summarised(self, st, seq, body, lc, label):
        """Loop rule for contracts whose invariant does not depend on the iteration count (`summary = True`): the body is
        checked once from the abstract state (an arbitrary iteration; leaving by break included), escaping exceptions and
        returns are propagated, and ONE post-state - the abstract state again - continues. The invariant must hold of the
        pre-state as it is (it only says which locals hold unconstrained values and what the body must leave alone)."""
        pre = st.fork()
        j = smt.fresh("j", z3.IntSort())
        sj = st.fork()
        sj.assume(z3.And(j >= 0, j < seq.n))
        sj.note_k(j)
        lc.abstract(self, pre, sj, j, seq)
        if self.feasible(sj):
            sj.trail.append(label + ":iter j")
            for s2, out2 in body(sj, seq.get(j), j):
                if out2[0] in ("normal", "continue", "break"):
                    lc.check(self, pre, s2, j + 1, seq, label + ":preserve")
                else:
                    yield s2, out2
        post = st.fork()
        lc.abstract(self, pre, post, seq.n, seq)
        post.trail.append(label + ":summary")
        yield post, ("normal", None)

    # ------------------------------------------------------------ loop-local names by role
    @staticmethod
    def loop_names(node):
        """(names bound by the loop header, names the body assigns) in source order — the *roles* a loop invariant talks about"""
        def flat(t):
            if isinstance(t, ast.Name):
                return [t.id]
            if isinstance(t, (ast.Tuple, ast.List)):
                return [n for e in t.elts for n in flat(e)]
            return []

        if isinstance(node, ast.For):
            targets = flat(node.target)
            body = node.body
        elif isinstance(node, (ast.ListComp, ast.GeneratorExp, ast.DictComp, ast.SetComp)):
            targets = [n for g in node.generators for n in flat(g.target)]
            body = []
        else:
            targets, body = [], getattr(node, "body", [])
        assigned = []

        def walk(n):  # comprehensions have a scope of their own
            yield n
            for c in ast.iter_child_nodes(n):
                if isinstance(c, (ast.ListComp, ast.GeneratorExp, ast.DictComp, ast.SetComp, ast.Lambda, ast.FunctionDef)):
                    continue
                for x in walk(c):
                    yield x

        for stmt in body:
            for n in walk(stmt):
                name = None
                if isinstance(n, ast.Name) and isinstance(n.ctx, ast.Store):
                    name = n.id
                elif isinstance(n, ast.AugAssign) and isinstance(n.target, ast.Name):
                    name = n.target.id
                elif isinstance(n, (ast.Subscript, ast.Attribute)) and isinstance(n.ctx, ast.Store) and isinstance(n.value, ast.Name):
                    name = n.value.id
                elif isinstance(n, ast.Call) and isinstance(n.func, ast.Attribute) and isinstance(n.func.value, ast.Name) \
                        and n.func.attr in ("append", "add", "extend", "update", "insert", "setdefault"):
                    name = n.func.value.id
                if name and name != "self" and name not in targets and name not in assigned:
                    assigned.append(name)
        return targets, assigned

    def loop_alias(self, fi, kind, ordn, node):
        """Loop invariants name locals as they were called when the contract was written (baseline/loop_names.json). If the
        current loop binds / assigns the same number of names, the i-th recorded name stands for the i-th current one, so a
        renamed local does not unbind the invariant."""
        tab = getattr(self, "_loop_names_table", None)
        if tab is None:
            import json
            import os

            path = os.path.join(os.path.dirname(os.path.dirname(os.path.abspath(__file__))), "baseline", "loop_names.json")
            tab = json.load(open(path)) if os.path.exists(path) else {}
            self._loop_names_table = tab
        rec = tab.get("%s|%s|%s" % (fi.key, kind, ordn))
        if not rec:
            return {}
        targets, assigned = self.loop_names(node)
        alias = {}
        if len(rec["targets"]) == len(targets):
            alias.update(dict(zip(rec["targets"], targets)))
        if len(rec["assigned"]) == len(assigned):
            alias.update(dict(zip(rec["assigned"], assigned)))
        return {k: v for k, v in alias.items() if k != v}

    def iterate(self, st, seq, body, lc, label):
        """Generic invariant rule with the first iteration peeled (see DESIGN 2.4)."""
        m = seq.n
        for s0, nonempty in self.branch(st, m >= 1):
            if not nonempty:
                s0.trail.append(label + ":0iter")
                yield s0, ("normal", None)
                continue
            pre = s0.fork()
            s0.note_k(z3.IntVal(0))
            s0.note_k(z3.IntVal(1))
            # --- peeled first iteration: establishes Inv(1) on every normally ending path
            rep = None
            s0.ghost["iter_log_base"] = len(s0.log)
            for s1, out in body(s0, seq.get(z3.IntVal(0)), z3.IntVal(0)):
                if out[0] not in ("normal", "continue"):
                    if out[0] == "break":
                        # the loop is left at once with the state reached in the first iteration (no invariant is claimed for it)
                        s1.trail.append(label + ":break@0")
                        yield s1, ("normal", None)
                        continue
                    yield s1, out
                    continue
                lc.check(self, pre, s1, z3.IntVal(1), seq, label + ":establish")
                if rep is None:
                    rep = s1
            if rep is None:
                continue

            def from_pre(extra):
                """a state that knows only the pre-loop facts (plus `extra`); the locals' shapes come from the peeled run.
                Building it from `pre` keeps the rule sound (no branch condition of the first iteration leaks) and gives
                one continuation per loop instead of one per path of the first iteration."""
                s = pre.fork()
                for oid, content in rep.store.items():
                    if oid not in s.store:
                        s.store[oid] = content
                s.fresh_oids |= rep.fresh_oids
                for fid, fam in rep.fams.items():
                    if fid not in s.fams:
                        s.fams[fid] = fam
                s.env = dict(rep.env)
                s.heap = dict(rep.heap)
                s.log = list(rep.log)
                s.ghost = dict(rep.ghost)
                s.assume(extra)
                return s

            # --- arbitrary iteration j in [1, m): preservation
            j = smt.fresh("j", z3.IntSort())
            sj = from_pre(z3.And(j >= 1, j < m))
            sj.note_k(z3.IntVal(0))
            sj.note_k(z3.IntVal(1))
            sj.note_k(j)
            sj.note_k(j + 1)
            lc.abstract(self, pre, sj, j, seq)
            general = []
            if self.feasible(sj):
                sj.trail.append(label + ":iter j")
                base_len = len(sj.log)
                sj.ghost["iter_log_base"] = base_len
                for s2, out2 in body(sj, seq.get(j), j):
                    if out2[0] in ("normal", "continue"):
                        lc.check(self, pre, s2, j + 1, seq, label + ":preserve")
                        general = [("forall",) + tuple(ev) for ev in s2.log[base_len:] if ev and ev[0] == "touch"]
                    elif out2[0] == "break":
                        # left in an arbitrary iteration j: the state is Inv(j) plus the part of the body before the break
                        s2.trail.append(label + ":break@j")
                        yield s2, ("normal", None)
                    else:
                        yield s2, out2
            # --- exit with Inv(m)
            se = from_pre(z3.BoolVal(True))
            se.note_k(z3.IntVal(0))
            se.note_k(z3.IntVal(1))
            se.note_k(m)
            se.note_k(m - 1)
            lc.abstract(self, pre, se, m, seq)
            se.log.extend(general)
            se.trail.append(label + ":exit")
            yield se, ("normal", None)

    def st_While(self, node, st):
        raise Unsupported("while loop at line %d" % node.lineno)

    def st_FunctionDef(self, node, st):
        fi = st.env.get("__fi__")
        q = fi.qualname + "." + node.name
        info = fi.module.functions.get(q)
        if info is None:
            raise Unsupported("nested def %s not indexed" % q)
        st.env[node.name] = FuncV(info, env=st.env)
        yield st, ("normal", None)

    def st_Break(self, node, st):
        yield st, ("break", None)

    def st_Continue(self, node, st):
        yield st, ("continue", None)

    def st_Assert(self, node, st):
        yield st, ("normal", None)
