"""Dispatch: property id -> implementation."""
from . import run as R


def run(prop, tier, seed):
    if prop in ("C03", "C04", "C05", "C06", "C07", "C08", "C09"):
        return R.command_property(prop, tier, seed)
    if prop in ("C01", "C14"):
        return R.heap_property(prop, tier, seed)
    if prop in ("C10", "C11"):
        return R.parser_property(prop, tier, seed)
    if prop == "C15":
        return R.ser_property(prop, tier, seed)
    if prop == "C16":
        return R.conv_property(prop, tier, seed)
    if prop in ("C17", "C18"):
        return R.io_property(prop, tier, seed)
    if prop == "C19":
        return R.lib_property(prop, tier, seed)
    if prop == "C20":
        return R.param_property(prop, tier, seed)
    if prop == "C02":
        from . import evalrun

        return evalrun.eval_property(prop, tier, seed, R.REPO)
    if prop in ("C12", "C13"):
        from . import loadrun

        return loadrun.load_property(prop, tier, seed, R.REPO)
    raise SystemExit("unknown property %s" % prop)


def replay(prop, path):
    from . import replaycmd

    return replaycmd.replay(prop, path)
