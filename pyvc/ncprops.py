"""C18: the parameter and array logic of the NetCDF EEMSRead.execute under contract. The netCDF4 library is abstracted to
what it delivers for one variable (an assumed contract):
    HASVAR            the dataset has a variable of that name
    FSHAPE, FDT       its shape and element kind (int / float)
    FVAL(c), FMISS(c) its values and the cells the library already masks (_FillValue)
RINT is numpy.rint (assumed: an integer within 1/2 of its argument; the identity on integers)."""
import z3

from . import smt
from . import spec as S
from .cmdspec import CommandSpec, verify_execute
from .engine import Engine
from .smt import Val, INT, FLT, Shape, Cell
from .ma import RANK
from .cmdspec import FUZZY_LO, FUZZY_HI
from .values import Sym, Ref, Obj, PyList, SeqV, ClassV, BuiltinV, Raised, Unsupported, ArrState, TupleV, DataView, MaskView, is_num, num_term

NCIO = "mpilot/libraries/eems/netcdf/io.py"
HASVAR = z3.Bool("nc_has_variable")
FSHAPE = z3.Const("nc_shape", Shape)
FDT = z3.Const("nc_dtype", smt.DT)
FVAL = z3.Function("nc_value", Cell, z3.RealSort())
FMISS = z3.Function("nc_masked", Cell, z3.BoolSort())
RINT = z3.Function("rint", z3.RealSort(), z3.RealSort())
RAWDT = z3.String("raw_DataType")

NAMES = ("Float", "Integer", "Positive Float", "Positive Integer", "Fuzzy")


def trunc(t):
    return z3.If(t >= 0, z3.ToReal(z3.ToInt(t)), -z3.ToReal(z3.ToInt(-t)))


def install(eng):
    E = Engine
    if getattr(E, "_nc_patch", False):
        return

    def bi_netCDF4_Dataset(self, st, args, kw):
        yield st, st.alloc(Obj(ClassV("NcDataset"), {"path": args[0]}))

    orig_obj_attr = E.obj_attr

    def obj_attr(self, st, ref, o, name):
        if o.cls.name == "NcDataset" and name == "variables":
            yield st, st.alloc(Obj(ClassV("NcVariables"), {}))
            return
        for r in orig_obj_attr(self, st, ref, o, name):
            yield r

    orig_contains = E.contains

    def contains(self, st, container, item):
        c = st.store.get(container.oid) if isinstance(container, Ref) else None
        if isinstance(c, Obj) and c.cls.name == "NcVariables":
            yield st, HASVAR
            return
        if isinstance(container, TupleV) and isinstance(item, Sym) and item.kind == "dt" and all(isinstance(x, ClassV) for x in container.items):
            # `data_type in (int, numpy.uint)`: the cleaned type object against a tuple of type objects
            conds = [item.t == self.dtype_of_class(x) for x in container.items if x.name in ("int", "numpy.uint", "float", "numpy.float64")]
            yield st, (z3.Or(*conds) if conds else False)
            return
        if isinstance(container, TupleV) and isinstance(item, ClassV) and all(isinstance(x, ClassV) for x in container.items):
            yield st, any(x.name == item.name for x in container.items)
            return
        for r in orig_contains(self, st, container, item):
            yield r

    orig_get_item = E.get_item

    def get_item(self, st, o, idx):
        c = st.store.get(o.oid) if isinstance(o, Ref) else None
        if isinstance(c, Obj) and c.cls.name == "NcDataset":
            yield st, st.alloc(Obj(ClassV("NcVariable"), {}))
            return
        if isinstance(c, Obj) and c.cls.name == "NcVariable":
            # variable[:] : a fresh masked array with the file's shape, element kind, values and library mask
            arr = ArrState("MA", FDT, FSHAPE, lambda cc: FVAL(cc), lambda cc: FMISS(cc))
            arr.stats = self.lx["file_stats"]
            yield st, st.alloc(arr)
            return
        for r in orig_get_item(self, st, o, idx):
            yield r

    def bi_numpy_issubdtype(self, st, args, kw):
        a, b = args
        if not (isinstance(a, Sym) and a.kind == "dt"):
            raise Unsupported("issubdtype(%r, ...)" % (a,))
        nm = b.name if isinstance(b, (ClassV, BuiltinV)) else None
        if nm in ("numpy.float64", "float", "numpy.floating"):
            yield st, Sym("bool", a.t == FLT)
        elif nm in ("numpy.integer", "int"):
            yield st, Sym("bool", a.t == INT)
        else:
            raise Unsupported("issubdtype(..., %r)" % (b,))

    def bi_numpy_rint(self, st, args, kw):
        kw = {k: v for k, v in kw.items() if k != "__node__"}
        src = args[0]
        s = self.arr_state(st, src)
        new = s.clone(val=lambda c, s=s: RINT(s.val(c)))
        out = kw.get("out")
        if out is None:
            yield st, st.alloc(new)
            return
        if not (isinstance(out, Ref) and isinstance(src, Ref) and out == src):
            raise Unsupported("rint(out=another array)")
        self.mutate(st, src, new)
        yield st, src

    def bi_numpy_ma_getmaskarray(self, st, args, kw):
        s = self.arr_state(st, args[0])
        miss = s.miss if s.kind == "MA" else (lambda c: z3.BoolVal(False))
        out = ArrState("ND", smt.BOOLDT, s.shape, lambda c, miss=miss: z3.If(miss(c), z3.RealVal(1), z3.RealVal(0)), lambda c: z3.BoolVal(False))
        src = args[0].base if isinstance(args[0], (DataView, MaskView)) else args[0]
        if isinstance(src, Ref) and not st.is_fresh(src):
            out.shares = src  # getmaskarray hands out the array's own mask when it has one: an in-place update would change the input
        yield st, st.alloc(out)

    orig_binop = E.bi_arr_binop

    def bi_arr_binop(self, st, args, kw):
        opn, a, b, inplace = args
        if opn in ("BitOr", "BitAnd") and self.is_arr(st, a) and self.is_arr(st, b):
            sa, sb = self.arr_state(st, a), self.arr_state(st, b)
            if sa.kind != "ND" or sb.kind != "ND" or sa.sel is not None or sb.sel is not None:
                raise Unsupported("| on masked arrays / selections")
            for s1, ok in self.same_shape_or_raise(st, sa.shape, sb.shape):
                if not ok:
                    yield self.raise_(s1, "ValueError", "operands could not be broadcast together")
                    continue
                comb = z3.Or if opn == "BitOr" else z3.And
                new = ArrState("ND", smt.BOOLDT, sa.shape, lambda c, sa=sa, sb=sb: z3.If(comb(sa.val(c) != 0, sb.val(c) != 0), z3.RealVal(1), z3.RealVal(0)),
                               lambda c: z3.BoolVal(False))
                if inplace:
                    self.mutate(s1, a, new)
                    yield s1, a
                else:
                    yield s1, s1.alloc(new)
            return
        for r in orig_binop(self, st, args, kw):
            yield r

    E.bi_arr_binop = bi_arr_binop

    def bi_arr_soften_mask(self, st, args, kw):
        yield st, args[0]

    E.bi_arr_soften_mask = bi_arr_soften_mask
    def bi_numpy_isclose(self, st, args, kw):
        """numpy.isclose(a, b, rtol=1e-05, atol=1e-08): |a - b| <= atol + rtol * |b| (finite numbers; A-REAL)"""
        kw = {k: v for k, v in kw.items() if k != "__node__"}
        a, b = args[0], args[1]
        rtol = smt.rv(kw.get("rtol", args[2] if len(args) > 2 else 1e-05))
        atol = smt.rv(kw.get("atol", args[3] if len(args) > 3 else 1e-08))
        if not self.is_arr(st, a) or not is_num(b):
            raise Unsupported("isclose of %r, %r" % (a, b))
        s = self.arr_state(st, a)
        t = num_term(b)
        ab = lambda v: z3.If(v >= 0, v, -v)
        yield st, st.alloc(ArrState("ND", smt.BOOLDT, s.shape, lambda c, s=s: z3.If(ab(s.val(c) - t) <= atol + rtol * ab(t), z3.RealVal(1), z3.RealVal(0)),
                                    lambda c: z3.BoolVal(False)))

    E.bi_numpy_isclose = bi_numpy_isclose
    E.bi_netCDF4_Dataset = bi_netCDF4_Dataset
    E.obj_attr = obj_attr
    E.contains = contains
    E.get_item = get_item
    E.bi_numpy_issubdtype = bi_numpy_issubdtype
    E.bi_numpy_rint = bi_numpy_rint
    E.bi_numpy_ma_getmaskarray = bi_numpy_ma_getmaskarray
    E._nc_patch = True


class GetArgumentValueContract(object):
    """Command.get_argument_value(name, default): the raw (uncleaned) value of that argument, else the default (a loop over self.arguments;
    its body is four lines and is exercised by the bounded stand-in). For DataType the raw value is the name the cleaned type was looked up from."""

    def apply(self, eng, st, f, args, kwargs):
        name = args[0]
        default = args[1] if len(args) > 1 else kwargs.get("default")
        if name != "DataType" or not isinstance(default, str):
            raise Unsupported("get_argument_value(%r)" % (name,))
        has = eng.x.present["DataType"]
        yield st, Sym("str", z3.If(has, RAWDT, z3.StringVal(default)))


class NcReadSpec(CommandSpec):
    def requires(self, x):
        dt = x.strs["DataType"]
        has = x.present["DataType"]
        raw_ok = z3.Or(*[RAWDT == z3.StringVal(n) for n in NAMES])
        is_int = z3.Or(RAWDT == z3.StringVal("Integer"), RAWDT == z3.StringVal("Positive Integer"))
        # numpy.rint at the values of the file (instances of: an integer within 1/2 of its argument, the identity on integers)
        rint_ax = lambda v: z3.And(z3.IsInt(RINT(v)), RINT(v) - v <= 0.5, v - RINT(v) <= 0.5, z3.Implies(z3.IsInt(v), RINT(v) == v))
        x.st0.assume_all_cells(lambda c: rint_ax(FVAL(c)))
        x.st0.assume_all_cells(lambda c: z3.Implies(FDT == INT, z3.IsInt(FVAL(c))))
        return [z3.Implies(has, z3.And(raw_ok, (dt == INT) == is_int)),  # the DataTypeParameter's table (valid_types)
                z3.Or(FDT == INT, FDT == FLT), RANK(FSHAPE) >= 1]

    def _kind(self, x):
        has = x.present["DataType"]
        raw = z3.If(has, RAWDT, z3.StringVal("Float"))
        dt = z3.If(has, x.strs["DataType"], FLT)
        return raw, dt

    def raises(self, x):
        raw, dt = self._kind(x)
        stats = x.eng.lx["file_stats"]
        positive = z3.Or(raw == z3.StringVal("Positive Integer"), raw == z3.StringVal("Positive Float"))
        fuzzy = raw == z3.StringVal("Fuzzy")
        # the documented tolerance: one per cent of the fuzzy range on either side, in double arithmetic as the code computes it
        pad = 0.01 * (1 - -1)
        hi, lo = smt.rv(1 + pad), smt.rv(-1 - pad)
        return [("NoSuchVariable", z3.Not(HASVAR)),
                ("InvalidPositiveData", z3.And(HASVAR, positive, stats["vmin"] < 0)),
                ("InvalidFuzzyData", z3.And(HASVAR, fuzzy, z3.Or(stats["vmax"] > hi, stats["vmin"] < lo)))]

    def result(self, x):
        raw, dt = self._kind(x)
        fuzzy = raw == z3.StringVal("Fuzzy")
        has_mv = x.present["MissingValue"]
        mv = x.nums["MissingValue"][0]
        conv = lambda v: z3.If(z3.And(dt == INT, FDT == FLT), RINT(v), v)
        clamp = lambda v: z3.If(fuzzy, z3.If(v < FUZZY_LO, FUZZY_LO, z3.If(v > FUZZY_HI, FUZZY_HI, v)), v)
        val = lambda c: clamp(conv(FVAL(c)))
        cmv = z3.If(dt == INT, trunc(mv), mv)
        return dict(shape=FSHAPE, dtype=dt, miss=lambda c: z3.Or(FMISS(c), z3.And(has_mv, val(c) == cmv)), value=val)


def verify_nc_read(repo):
    from . import registry, cmdspec

    registry.load(repo)
    contracts = dict(S.CONTRACTS)
    contracts["mpilot/commands.py::Command.get_argument_value"] = GetArgumentValueContract()
    eng = Engine(repo, contracts, dict(S.LOOPS))
    install(eng)
    eng.lx = {}
    ci = repo.modules[NCIO].classes["EEMSRead"]
    fi = repo.find_method(ci, "execute")
    spec = NcReadSpec()
    orig_build = cmdspec.build_inputs

    def build(eng_, ci_, fuzzy_pre=True):
        st, x = orig_build(eng_, ci_, fuzzy_pre)
        x.eng = eng_
        # whole-array statistics of the file's data (uninterpreted, axiomatised over the valid cells by the engine)
        probe = ArrState("MA", FDT, FSHAPE, lambda cc: FVAL(cc), lambda cc: FMISS(cc))
        eng_.ensure_stats(st, probe)
        eng_.lx["file_stats"] = probe.stats
        return st, x

    cmdspec.build_inputs = build
    try:
        recs = verify_execute(eng, ci, spec)
    finally:
        cmdspec.build_inputs = orig_build
    return list(recs), [dict(fi.describe(), verified_for_class="EEMSRead (netcdf)")]


def verify(repo):
    out, fns = [], []
    for f, label in ((verify_nc_read, "EEMSRead"), (verify_nc_write, "EEMSWrite")):
        try:
            r, fn = f(repo)
            out += r
            fns += fn
        except Unsupported as e:
            out.append({"name": "%s::%s.execute/supported" % (NCIO, label), "status": "unknown", "backend": "engine", "time_s": 0, "clause": "supported",
                        "function": "%s::%s.execute" % (NCIO, label), "reason": "unsupported construct: %s" % e})
    return out, fns


# =========================================================================== NetCDF EEMSWrite
# Everything the netCDF4 library hands out (datasets, variables, dimensions, attribute lists) is an *external object*: any
# attribute, call, subscript or iteration on it yields external objects again, has no effect on mpilot's arrays, and is
# recorded in the event log. The contract is about which calls the writer makes with which arrays.
class Ext(object):
    pass


def ext(st, path, **fields):
    o = Obj(ClassV("Ext"), dict(fields, path=path))
    return st.alloc(o)


def is_ext(st, v):
    return isinstance(v, Ref) and isinstance(st.store.get(v.oid), Obj) and st.get(v).cls.name == "Ext"


def install_writer(eng):
    E = Engine
    if getattr(E, "_ncw_patch", False):
        return

    def bi_netCDF4_Dataset(self, st, args, kw):
        if getattr(self, "nc_write_mode", False):
            st.log.append(("ext-call", "Dataset", list(args), dict(kw)))
            yield st, ext(st, "Dataset(%s)" % (len([e for e in st.log if e[0] == "ext-call" and e[1] == "Dataset"])))
        else:
            yield st, st.alloc(Obj(ClassV("NcDataset"), {"path": args[0]}))

    orig_obj_attr = E.obj_attr

    def obj_attr(self, st, ref, o, name):
        if o.cls.name == "Ext":
            yield st, ext(st, o.fields["path"] + "." + name, parent=ref)
            return
        for r in orig_obj_attr(self, st, ref, o, name):
            yield r

    orig_call = E.call

    def call(self, st, f, args, kw, node=None):
        if is_ext(st, f):
            kw = {k: v for k, v in kw.items() if k != "__node__"}
            o = st.get(f)
            idx = len(st.log)
            st.log.append(("ext-call", o.fields["path"], list(args), dict(kw)))
            yield st, ext(st, o.fields["path"] + "()", call_index=idx)
            return
        for r in orig_call(self, st, f, args, kw, node):
            yield r

    orig_get_item = E.get_item

    def get_item(self, st, o, idx):
        if is_ext(st, o):
            yield st, ext(st, st.get(o).fields["path"] + "[]", parent=o)
            return
        for r in orig_get_item(self, st, o, idx):
            yield r

    orig_set_item = E.set_item

    def set_item(self, st, o, idx, v):
        if is_ext(st, o):
            st.log.append(("ext-store", o, idx, v))
            yield st, None
            return
        for r in orig_set_item(self, st, o, idx, v):
            yield r

    orig_as_sequence = E.as_sequence

    def as_sequence(self, st, v):
        if is_ext(st, v):
            n = smt.fresh("ext_len", z3.IntSort())
            st.assume(n >= 0)
            elem = ext(st, st.get(v).fields["path"] + "[k]")
            yield st, SeqV(n, lambda k, elem=elem: elem, tag="ext")
            return
        for r in orig_as_sequence(self, st, v):
            yield r

    orig_truth = E.truth

    def truth(self, st, v):
        if is_ext(st, v):
            # unconstrained: both outcomes, no solver call needed
            s1, s2 = st.fork(), st.fork()
            yield s1, True
            yield s2, False
            return
        for r in orig_truth(self, st, v):
            yield r

    orig_contains = E.contains

    def contains(self, st, container, item):
        if is_ext(st, container) or is_ext(st, item):
            s1, s2 = st.fork(), st.fork()
            yield s1, True
            yield s2, False
            return
        for r in orig_contains(self, st, container, item):
            yield r

    def bi_dir(self, st, args, kw):
        yield st, ext(st, "dir()")

    orig_getattr = E.bi_getattr

    def bi_getattr(self, st, args, kw):
        if is_ext(st, args[0]):
            yield st, ext(st, st.get(args[0]).fields["path"] + ".<attr>")
            return
        for r in orig_getattr(self, st, args, kw):
            yield r

    def bi_setattr(self, st, args, kw):
        if is_ext(st, args[0]):
            st.log.append(("ext-setattr", args[0], args[1], args[2]))
            yield st, None
            return
        raise Unsupported("setattr on %r" % (args[0],))

    orig_set_attr = E.set_attr

    def set_attr(self, st, o, name, v):
        if is_ext(st, o):
            st.log.append(("ext-setattr", o, name, v))
            yield st, None
            return
        for r in orig_set_attr(self, st, o, name, v):
            yield r

    def bi_numpy_ma_MaskedArray(self, st, args, kw):
        data, mask = args[0], (args[1] if len(args) > 1 else kw.get("mask"))
        s = self.arr_state(st, data)
        m = self.arr_state(st, mask)
        for s1, ok in self.same_shape_or_raise(st, s.shape, m.shape):
            if not ok:
                yield self.raise_(s1, "numpy.ma.MaskError", "Mask and data not compatible")
                continue
            yield s1, s1.alloc(ArrState("MA", s.dtype, s.shape, s.val, lambda c, m=m: m.val(c) != 0))

    E.bi_netCDF4_Dataset = bi_netCDF4_Dataset
    E.obj_attr = obj_attr
    E.call = call
    E.get_item = get_item
    E.set_item = set_item
    E.as_sequence = as_sequence
    E.truth = truth
    E.contains = contains
    E.bi_dir = bi_dir
    E.bi_getattr = bi_getattr
    E.bi_setattr = bi_setattr
    E.set_attr = set_attr
    E.bi_numpy_ma_MaskedArray = bi_numpy_ma_MaskedArray
    E._ncw_patch = True


class ExtFrameLoop(S.LoopContract):
    """a loop that only talks to the netCDF library: every local it assigns holds an external object afterwards; no array of mpilot is touched"""
    summary = True

    def __init__(self, names):
        self.names = list(names)

    def inv(self, I):
        st = I.st
        for n in self.names:
            I.covered.add(n)
            if I.mode == "abstract":
                st.env[n] = ext(st, "<loop local %s>" % n)
        if I.mode == "check":
            muts = [ev for ev in st.log[len(I.pre.log):] if ev[0] == "mutate"]
            I.eng.oblige(st, I.label + "/touches no array", z3.BoolVal(not muts), kind="invariant", meta={"clause": "frame"})


class MaskUnionLoop(S.LoopContract):
    """after j further results: `mask` holds, cell by cell, whether any of results 0..j is missing there (a fresh boolean array)"""

    def __init__(self, acc, var):
        self.acc, self.var = acc, var

    def inv(self, I):
        x = I.eng.x
        L = "OutFieldNames"
        I.temps(self.var)
        I.arr(self.acc, "ND", smt.BOOLDT, x.shape(L, z3.IntVal(0)), lambda c: z3.BoolVal(False),
              lambda c: z3.If(x.pmiss(L, I.j, c), z3.RealVal(1), z3.RealVal(0)))


class WriteLoop(S.LoopContract):
    """every iteration creates one variable named after the command and stores that command's data under the union mask"""

    def __init__(self, names, var):
        self.names, self.var = list(names), var

    def inv(self, I):
        st = I.st
        for n in self.names:
            I.covered.add(n)
            if I.mode == "abstract":
                st.env[n] = ext(st, "<loop local %s>" % n)

    def check(self, eng, pre, st, j, seq, label):
        S.LoopContract.check(self, eng, pre, st, j, seq, label)
        x = eng.x
        L = "OutFieldNames"
        n = x.n(L)
        k = z3.simplify(j - 1)  # the iteration just executed
        new = st.log[st.ghost.get("iter_log_base", len(pre.log)):]
        c0 = st.cells[0]
        # lemma PMISS-MONO (induction on the definition of the running union; its step is a separate obligation): a cell missing in
        # result k is missing in the union of all n results
        st.assume(z3.Implies(z3.And(k >= 0, k <= n - 1, x.miss(L, c0, k)), x.pmiss(L, n - 1, c0)))
        creates = [ev for ev in new if ev[0] == "ext-call" and ev[1].endswith(".createVariable")]
        stores = [ev for ev in new if ev[0] == "ext-store"]
        muts = [ev for ev in new if ev[0] == "mutate"]
        m = {"clause": "write"}
        eng.oblige(st, label + "/one variable is created and one array stored per result", z3.BoolVal(len(creates) == 1 and len(stores) == 1), kind="invariant", meta=m)
        eng.oblige(st, label + "/touches no array", z3.BoolVal(not muts), kind="invariant", meta={"clause": "frame"})
        if len(creates) != 1 or len(stores) != 1:
            return
        fam = st.fams[("cmds", L)]
        name = creates[0][2][0] if creates[0][2] else None
        eng.oblige(st, label + "/the variable is named after the result", (eng.str_term(name) == fam.namefun(k)) if name is not None and eng.is_str(name) else z3.BoolVal(False),
                   kind="invariant", meta=m)
        target = st.get(stores[0][1])
        par = target.fields.get("parent")
        from_create = par is not None and st.get(par).fields.get("call_index") is not None and st.log[st.get(par).fields["call_index"]] is creates[0]
        direct = target.fields.get("call_index") is not None and st.log[target.fields["call_index"]] is creates[0]
        eng.oblige(st, label + "/the array is stored into the variable just created", z3.BoolVal(bool(from_create or direct)), kind="invariant", meta=m)
        v = stores[0][3]
        if not (isinstance(v, Ref) and isinstance(st.store.get(v.oid), ArrState)):
            eng.oblige(st, label + "/a masked array is stored", z3.BoolVal(False), kind="invariant", meta=m)
            return
        a = st.get(v)
        c = st.cells[0]
        eng.oblige(st, label + "/stored array: shape of the results", a.shape == x.shape(L, z3.IntVal(0)), kind="invariant", meta=m)
        eng.oblige(st, label + "/stored array: element kind of this result", a.dtype == x.dtype(L, k), kind="invariant", meta=m)
        eng.oblige(st, label + "/stored array: missing exactly where any written result is missing", a.miss(c) == x.pmiss(L, n - 1, c), kind="invariant",
                   meta={"clause": "mask"})
        eng.oblige(st, label + "/stored array: this result's values where nothing is missing", z3.Implies(z3.Not(x.pmiss(L, n - 1, c)), a.val(c) == x.view(L, c, k)),
                   kind="invariant", meta={"clause": "value"})


class NcWriteSpec(CommandSpec):
    def raises(self, x):
        n = x.n("OutFieldNames")
        return [("EmptyInputs", n == 0),
                ("MixedArrayShapes", ("exists_k", lambda k: z3.And(k >= 1, k < n, x.shape("OutFieldNames", k) != x.shape("OutFieldNames", z3.IntVal(0)))))]

    def result(self, x):
        return None


def verify_nc_write(repo):
    import ast

    from . import registry, cmdspec

    registry.load(repo)
    eng = Engine(repo, dict(S.CONTRACTS), dict(S.LOOPS))
    install(eng)
    install_writer(eng)
    eng.nc_write_mode = True
    eng.lx = {}
    ci = repo.modules[NCIO].classes["EEMSWrite"]
    fi = repo.find_method(ci, "execute")
    eng.frames = [fi]
    loops = [n for n in eng._ordered_nodes(fi.node) if isinstance(n, (ast.For, ast.While))]
    eng.frames = []
    roles = {}
    # the local that holds the list of commands to write: `<name> = kwargs["OutFieldNames"]`
    cmdvars = [a.targets[0].id for a in ast.walk(fi.node) if isinstance(a, ast.Assign) and len(a.targets) == 1 and isinstance(a.targets[0], ast.Name)
               and ast.unparse(a.value).replace("'", '"') == 'kwargs["OutFieldNames"]']
    for i, n in enumerate(loops):
        targets, assigned = eng.loop_names(n)
        src = ast.unparse(n)
        key = (fi.key, "for", i)
        if "getmaskarray" in src and any(isinstance(x, ast.AugAssign) and isinstance(x.op, ast.BitOr) for x in ast.walk(n)) and len(assigned) == 1 and len(targets) == 1 \
                and "createVariable" not in src:
            eng.loop_contracts[key] = MaskUnionLoop(assigned[0], targets[0])
            roles["union"] = i
        elif "createVariable" in src and isinstance(n.iter, ast.Name) and n.iter.id in cmdvars:
            eng.loop_contracts[key] = WriteLoop(assigned + targets, targets[0] if targets else None)
            roles["write"] = i
        else:
            eng.loop_contracts[key] = ExtFrameLoop(assigned + targets)
    if "union" not in roles or "write" not in roles:
        raise Unsupported("the writer no longer has a mask-union loop followed by a loop that creates and stores one variable per result")
    spec = NcWriteSpec()
    orig_exit = cmdspec.check_exit

    def check_exit(eng_, spec_, x, st, out, label):
        orig_exit(eng_, spec_, x, st, out, label)
        if out[0] == "raise":
            return
        n = x.n("OutFieldNames")
        # every result is written: the write loop ran over the whole list (its contract is checked per iteration)
        datasets = [ev for ev in st.log if ev[0] == "ext-call" and ev[1] == "Dataset"]
        eng_.oblige(st, label + "/the output dataset is opened for writing", z3.BoolVal(any(len(ev[2]) > 1 and ev[2][1] == "w" for ev in datasets)), kind="ensures",
                    meta={"clause": "write"}, assume_after=False)

    cmdspec.check_exit = check_exit
    try:
        recs = list(verify_execute(eng, ci, spec))
    finally:
        cmdspec.check_exit = orig_exit
        eng.nc_write_mode = False
    # lemma PMISS-MONO, induction step and base, over the definition U(0) = M(0), U(j+1) = U(j) or M(j+1):
    # (M(k) => U(k)) and (U(j) => U(j+1)); hence M(k) => U(m) for every m >= k.
    U = z3.Function("U", z3.IntSort(), z3.BoolSort())
    M = z3.Function("M", z3.IntSort(), z3.BoolSort())
    jj, kk = z3.Ints("jj kk")
    defn = z3.And(U(0) == M(0), z3.ForAll([jj], z3.Implies(jj >= 0, U(jj + 1) == z3.Or(U(jj), M(jj + 1)))))
    for nm, goal in (("a missing cell of result k is in the union up to k", z3.Implies(z3.And(kk >= 0, M(kk)), U(kk))),
                     ("the union only grows", z3.Implies(z3.And(kk >= 0, U(kk)), U(kk + 1)))):
        v = smt.check([defn], goal)
        recs.append({"name": "lemma/PMISS-MONO: " + nm, "status": v.status, "backend": v.backend, "time_s": round(v.time_s, 3), "clause": "mask",
                     "function": fi.key, "goal": str(goal), "reason": v.reason})
    return recs, [dict(fi.describe(), verified_for_class="EEMSWrite (netcdf)")]
