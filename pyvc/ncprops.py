"""C18: the parameter and array logic of the NetCDF EEMSRead.execute under contract. The netCDF4 library is abstracted to
what it delivers for one variable (an assumed contract):
    HASVAR            the dataset has a variable of that name
    FSHAPE, FDT       its shape and element kind (int / float)
    FVAL(c), FMISS(c) its values and the cells the library already masks (_FillValue)
RINT is numpy.rint (assumed: an integer within 1/2 of its argument; the identity on integers)."""
import z3

from . import smt
from . import spec as S
from .cmdspec import CommandSpec, verify_execute
from .engine import Engine
from .smt import Val, INT, FLT, Shape, Cell
from .ma import RANK
from .cmdspec import FUZZY_LO, FUZZY_HI
from .values import Sym, Ref, Obj, PyList, SeqV, ClassV, BuiltinV, Raised, Unsupported, ArrState, TupleV, DataView, MaskView, is_num, num_term

NCIO = "mpilot/libraries/eems/netcdf/io.py"
HASVAR = z3.Bool("nc_has_variable")
FSHAPE = z3.Const("nc_shape", Shape)
FDT = z3.Const("nc_dtype", smt.DT)
FVAL = z3.Function("nc_value", Cell, z3.RealSort())
FMISS = z3.Function("nc_masked", Cell, z3.BoolSort())
RINT = z3.Function("rint", z3.RealSort(), z3.RealSort())
RAWDT = z3.String("raw_DataType")

NAMES = ("Float", "Integer", "Positive Float", "Positive Integer", "Fuzzy")


def trunc(t):
    return z3.If(t >= 0, z3.ToReal(z3.ToInt(t)), -z3.ToReal(z3.ToInt(-t)))


def install(eng):
    E = Engine
    if getattr(E, "_nc_patch", False):
        return

    def bi_netCDF4_Dataset(self, st, args, kw):
        yield st, st.alloc(Obj(ClassV("NcDataset"), {"path": args[0]}))

    orig_obj_attr = E.obj_attr

    def obj_attr(self, st, ref, o, name):
        if o.cls.name == "NcDataset" and name == "variables":
            yield st, st.alloc(Obj(ClassV("NcVariables"), {}))
            return
        for r in orig_obj_attr(self, st, ref, o, name):
            yield r

    orig_contains = E.contains

    def contains(self, st, container, item):
        c = st.store.get(container.oid) if isinstance(container, Ref) else None
        if isinstance(c, Obj) and c.cls.name == "NcVariables":
            yield st, HASVAR
            return
        if isinstance(container, TupleV) and isinstance(item, Sym) and item.kind == "dt" and all(isinstance(x, ClassV) for x in container.items):
            # `data_type in (int, numpy.uint)`: the cleaned type object against a tuple of type objects
            conds = [item.t == self.dtype_of_class(x) for x in container.items if x.name in ("int", "numpy.uint", "float", "numpy.float64")]
            yield st, (z3.Or(*conds) if conds else False)
            return
        if isinstance(container, TupleV) and isinstance(item, ClassV) and all(isinstance(x, ClassV) for x in container.items):
            yield st, any(x.name == item.name for x in container.items)
            return
        for r in orig_contains(self, st, container, item):
            yield r

    orig_get_item = E.get_item

    def get_item(self, st, o, idx):
        c = st.store.get(o.oid) if isinstance(o, Ref) else None
        if isinstance(c, Obj) and c.cls.name == "NcDataset":
            yield st, st.alloc(Obj(ClassV("NcVariable"), {}))
            return
        if isinstance(c, Obj) and c.cls.name == "NcVariable":
            # variable[:] : a fresh masked array with the file's shape, element kind, values and library mask
            arr = ArrState("MA", FDT, FSHAPE, lambda cc: FVAL(cc), lambda cc: FMISS(cc))
            arr.stats = self.lx["file_stats"]
            yield st, st.alloc(arr)
            return
        for r in orig_get_item(self, st, o, idx):
            yield r

    def bi_numpy_issubdtype(self, st, args, kw):
        a, b = args
        if not (isinstance(a, Sym) and a.kind == "dt"):
            raise Unsupported("issubdtype(%r, ...)" % (a,))
        nm = b.name if isinstance(b, (ClassV, BuiltinV)) else None
        if nm in ("numpy.float64", "float", "numpy.floating"):
            yield st, Sym("bool", a.t == FLT)
        elif nm in ("numpy.integer", "int"):
            yield st, Sym("bool", a.t == INT)
        else:
            raise Unsupported("issubdtype(..., %r)" % (b,))

    def bi_numpy_rint(self, st, args, kw):
        kw = {k: v for k, v in kw.items() if k != "__node__"}
        src = args[0]
        s = self.arr_state(st, src)
        new = s.clone(val=lambda c, s=s: RINT(s.val(c)))
        out = kw.get("out")
        if out is None:
            yield st, st.alloc(new)
            return
        if not (isinstance(out, Ref) and isinstance(src, Ref) and out == src):
            raise Unsupported("rint(out=another array)")
        self.mutate(st, src, new)
        yield st, src

    def bi_numpy_ma_getmaskarray(self, st, args, kw):
        s = self.arr_state(st, args[0])
        miss = s.miss if s.kind == "MA" else (lambda c: z3.BoolVal(False))
        yield st, st.alloc(ArrState("ND", smt.BOOLDT, s.shape, lambda c, miss=miss: z3.If(miss(c), z3.RealVal(1), z3.RealVal(0)), lambda c: z3.BoolVal(False)))

    orig_binop = E.bi_arr_binop

    def bi_arr_binop(self, st, args, kw):
        opn, a, b, inplace = args
        if opn in ("BitOr", "BitAnd") and not inplace and self.is_arr(st, a) and self.is_arr(st, b):
            sa, sb = self.arr_state(st, a), self.arr_state(st, b)
            if sa.kind != "ND" or sb.kind != "ND" or sa.sel is not None or sb.sel is not None:
                raise Unsupported("| on masked arrays / selections")
            for s1, ok in self.same_shape_or_raise(st, sa.shape, sb.shape):
                if not ok:
                    yield self.raise_(s1, "ValueError", "operands could not be broadcast together")
                    continue
                comb = z3.Or if opn == "BitOr" else z3.And
                yield s1, s1.alloc(ArrState("ND", smt.BOOLDT, sa.shape, lambda c: z3.If(comb(sa.val(c) != 0, sb.val(c) != 0), z3.RealVal(1), z3.RealVal(0)),
                                            lambda c: z3.BoolVal(False)))
            return
        for r in orig_binop(self, st, args, kw):
            yield r

    E.bi_arr_binop = bi_arr_binop

    def bi_arr_soften_mask(self, st, args, kw):
        yield st, args[0]

    E.bi_arr_soften_mask = bi_arr_soften_mask
    E.bi_netCDF4_Dataset = bi_netCDF4_Dataset
    E.obj_attr = obj_attr
    E.contains = contains
    E.get_item = get_item
    E.bi_numpy_issubdtype = bi_numpy_issubdtype
    E.bi_numpy_rint = bi_numpy_rint
    E.bi_numpy_ma_getmaskarray = bi_numpy_ma_getmaskarray
    E._nc_patch = True


class GetArgumentValueContract(object):
    """Command.get_argument_value(name, default): the raw (uncleaned) value of that argument, else the default (a loop over self.arguments;
    its body is four lines and is exercised by the bounded stand-in). For DataType the raw value is the name the cleaned type was looked up from."""

    def apply(self, eng, st, f, args, kwargs):
        name = args[0]
        default = args[1] if len(args) > 1 else kwargs.get("default")
        if name != "DataType" or not isinstance(default, str):
            raise Unsupported("get_argument_value(%r)" % (name,))
        has = eng.x.present["DataType"]
        yield st, Sym("str", z3.If(has, RAWDT, z3.StringVal(default)))


class NcReadSpec(CommandSpec):
    def requires(self, x):
        dt = x.strs["DataType"]
        has = x.present["DataType"]
        raw_ok = z3.Or(*[RAWDT == z3.StringVal(n) for n in NAMES])
        is_int = z3.Or(RAWDT == z3.StringVal("Integer"), RAWDT == z3.StringVal("Positive Integer"))
        # numpy.rint at the values of the file (instances of: an integer within 1/2 of its argument, the identity on integers)
        rint_ax = lambda v: z3.And(z3.IsInt(RINT(v)), RINT(v) - v <= 0.5, v - RINT(v) <= 0.5, z3.Implies(z3.IsInt(v), RINT(v) == v))
        x.st0.assume_all_cells(lambda c: rint_ax(FVAL(c)))
        x.st0.assume_all_cells(lambda c: z3.Implies(FDT == INT, z3.IsInt(FVAL(c))))
        return [z3.Implies(has, z3.And(raw_ok, (dt == INT) == is_int)),  # the DataTypeParameter's table (valid_types)
                z3.Or(FDT == INT, FDT == FLT), RANK(FSHAPE) >= 1]

    def _kind(self, x):
        has = x.present["DataType"]
        raw = z3.If(has, RAWDT, z3.StringVal("Float"))
        dt = z3.If(has, x.strs["DataType"], FLT)
        return raw, dt

    def raises(self, x):
        raw, dt = self._kind(x)
        stats = x.eng.lx["file_stats"]
        positive = z3.Or(raw == z3.StringVal("Positive Integer"), raw == z3.StringVal("Positive Float"))
        fuzzy = raw == z3.StringVal("Fuzzy")
        # the documented tolerance: one per cent of the fuzzy range on either side, in double arithmetic as the code computes it
        pad = 0.01 * (1 - -1)
        hi, lo = smt.rv(1 + pad), smt.rv(-1 - pad)
        return [("NoSuchVariable", z3.Not(HASVAR)),
                ("InvalidPositiveData", z3.And(HASVAR, positive, stats["vmin"] < 0)),
                ("InvalidFuzzyData", z3.And(HASVAR, fuzzy, z3.Or(stats["vmax"] > hi, stats["vmin"] < lo)))]

    def result(self, x):
        raw, dt = self._kind(x)
        fuzzy = raw == z3.StringVal("Fuzzy")
        has_mv = x.present["MissingValue"]
        mv = x.nums["MissingValue"][0]
        conv = lambda v: z3.If(z3.And(dt == INT, FDT == FLT), RINT(v), v)
        clamp = lambda v: z3.If(fuzzy, z3.If(v < FUZZY_LO, FUZZY_LO, z3.If(v > FUZZY_HI, FUZZY_HI, v)), v)
        val = lambda c: clamp(conv(FVAL(c)))
        cmv = z3.If(dt == INT, trunc(mv), mv)
        return dict(shape=FSHAPE, dtype=dt, miss=lambda c: z3.Or(FMISS(c), z3.And(has_mv, val(c) == cmv)), value=val)


def verify_nc_read(repo):
    from . import registry, cmdspec

    registry.load(repo)
    contracts = dict(S.CONTRACTS)
    contracts["mpilot/commands.py::Command.get_argument_value"] = GetArgumentValueContract()
    eng = Engine(repo, contracts, dict(S.LOOPS))
    install(eng)
    eng.lx = {}
    ci = repo.modules[NCIO].classes["EEMSRead"]
    fi = repo.find_method(ci, "execute")
    spec = NcReadSpec()
    orig_build = cmdspec.build_inputs

    def build(eng_, ci_, fuzzy_pre=True):
        st, x = orig_build(eng_, ci_, fuzzy_pre)
        x.eng = eng_
        # whole-array statistics of the file's data (uninterpreted, axiomatised over the valid cells by the engine)
        probe = ArrState("MA", FDT, FSHAPE, lambda cc: FVAL(cc), lambda cc: FMISS(cc))
        eng_.ensure_stats(st, probe)
        eng_.lx["file_stats"] = probe.stats
        return st, x

    cmdspec.build_inputs = build
    try:
        recs = verify_execute(eng, ci, spec)
    finally:
        cmdspec.build_inputs = orig_build
    return list(recs), [dict(fi.describe(), verified_for_class="EEMSRead (netcdf)")]


def verify(repo):
    try:
        return verify_nc_read(repo)
    except Unsupported as e:
        return [{"name": "%s::EEMSRead.execute/supported" % NCIO, "status": "unknown", "backend": "engine", "time_s": 0, "clause": "supported",
                 "function": "%s::EEMSRead.execute" % NCIO, "reason": "unsupported construct: %s" % e}], []
