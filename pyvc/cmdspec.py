"""Harness for `Command.execute` bodies of the EEMS libraries: symbolic inputs from the extracted
`inputs` declaration, exit checks against a CommandSpec (sidecar)."""
import z3

from . import smt
from .decl import CommandDecl, ParamDecl
from .ma import FamState, RANK
from .smt import Cell, Shape, DT, INT, FLT, BOOLDT
from .spec import RecFun
from .state import State
from .values import (
    Unsupported, Sym, Ref, TupleV, Raised, PyList, SeqV, PyDict, Obj, ArrState, ClassV, ExcSym, is_num, num_term,
    isint_of, FuncV,
)

FUZZY_LO, FUZZY_HI = z3.RealVal(-1), z3.RealVal(1)


class CmdFam(object):
    """The list of input commands behind a family of arrays."""

    def __init__(self, fid, name, namefun, data=True, fuzzy=None):
        self.fid, self.name, self.namefun, self.data = fid, name, namefun, data
        # what the type check established about the producers: their declared fuzziness (any, where the parameter does not say)
        self.fuzzy = fuzzy
        self.fzfun = smt.fresh_fun("isfz_" + str(name), z3.IntSort(), z3.BoolSort())

    def elem(self, k):
        o = Obj(ClassV("InputCommand"), {"result_name": Sym("str", self.namefun(k)), "is_finished": True})
        fid, name, data = self.fid, self.name, self.data

        def hook(eng, st, ref, attr, k=k):
            if attr == "result":
                st.log.append(("touch", name, k))
                if data:
                    yield st, Ref(("fam", fid, k))
                else:
                    yield st, Sym("dyn", smt.fresh("anyresult", smt.Val))
            elif attr == "is_fuzzy":
                yield st, (bool(self.fuzzy) if self.fuzzy is not None else Sym("bool", self.fzfun(k if not isinstance(k, int) else z3.IntVal(k))))
            else:
                yield eng.raise_(st, "AttributeError", "InputCommand has no attribute " + attr)

        o.attr_hook = hook
        return o


class X(object):
    """Spec-side view of the symbolic inputs of one command execution (payload is not reachable from here)."""

    def __init__(self, eng, decl):
        self.eng = eng
        self.decl = decl
        self.single = {}  # name -> dict(X,M,P,dt,sh,ref,state)
        self.fam = {}  # name -> dict(fid,n,X,M,P,dt,sh)
        self.nums = {}  # name -> (term, isint, present)
        self.numlists = {}  # name -> dict(n, W, WI, seq)
        self.strs = {}
        self.bools = {}
        self.present = {}
        self.recfuns = {}
        self.st0 = None
        self.self_ref = None
        self.kwargs_ref = None
        self.c = None

    # ---- accessors for specs
    def n(self, name):
        return self.fam[name]["n"] if name in self.fam else self.numlists[name]["n"]

    def view(self, name, c, k=None):
        return self.single[name]["X"](c) if k is None else self.fam[name]["X"](k, c)

    def miss(self, name, c, k=None):
        return self.single[name]["M"](c) if k is None else self.fam[name]["M"](k, c)

    def dtype(self, name, k=None):
        return self.single[name]["dt"] if k is None else self.fam[name]["dt"](k)

    def shape(self, name, k=None):
        return self.single[name]["sh"] if k is None else self.fam[name]["sh"](k)

    def num(self, name):
        return self.nums[name][0]

    def num_isint(self, name):
        return self.nums[name][1]

    def has(self, name):
        return self.present.get(name, z3.BoolVal(True))

    def w(self, name, k):
        return self.numlists[name]["W"](k)

    def w_isint(self, name, k):
        return self.numlists[name]["WI"](k)

    def string(self, name):
        return self.strs[name]

    def boolean(self, name):
        return self.bools[name]

    def stat(self, name, which):
        s = self.single[name]["state"]
        return self.eng.ensure_stats(self.st0, s)[which]

    def recfun(self, key, base, step, sort=None, with_cell=True):
        rf = self.recfuns.get(key)
        if rf is None:
            rf = RecFun(key, base, step, sort, with_cell)
            self.recfuns[key] = rf
        return rf

    def facts(self):
        out = []
        for rf in list(self.recfuns.values()):
            out.extend(rf.facts())
        return out

    # ---- standard folds over a family
    def pmiss(self, name, j, c):
        rf = self.recfun("pmiss_" + name, lambda c: self.miss(name, c, z3.IntVal(0)),
                         lambda prev, k, c: z3.Or(prev, self.miss(name, c, k)), sort=z3.BoolSort())
        return rf.at(j, c)

    def psum(self, name, j, c):
        rf = self.recfun("psum_" + name, lambda c: self.view(name, c, z3.IntVal(0)),
                         lambda prev, k, c: prev + self.view(name, c, k))
        return rf.at(j, c)

    def pprod(self, name, j, c):
        rf = self.recfun("pprod_" + name, lambda c: self.view(name, c, z3.IntVal(0)),
                         lambda prev, k, c: prev * self.view(name, c, k))
        return rf.at(j, c)

    def pwsum(self, name, wname, j, c):
        rf = self.recfun("pwsum_" + name, lambda c: self.view(name, c, z3.IntVal(0)) * self.w(wname, z3.IntVal(0)),
                         lambda prev, k, c: prev + self.view(name, c, k) * self.w(wname, k))
        return rf.at(j, c)

    def pmax(self, name, j, c):
        rf = self.recfun("pmax_" + name, lambda c: self.view(name, c, z3.IntVal(0)),
                         lambda prev, k, c: z3.If(prev >= self.view(name, c, k), prev, self.view(name, c, k)))
        return rf.at(j, c)

    def pmin(self, name, j, c):
        rf = self.recfun("pmin_" + name, lambda c: self.view(name, c, z3.IntVal(0)),
                         lambda prev, k, c: z3.If(prev <= self.view(name, c, k), prev, self.view(name, c, k)))
        return rf.at(j, c)

    def pdtype(self, name, j):
        rf = self.recfun("pdt_" + name, lambda: self.dtype(name, z3.IntVal(0)),
                         lambda prev, k: z3.If(z3.Or(prev == FLT, self.dtype(name, k) == FLT), FLT, INT), sort=DT, with_cell=False)
        return rf.at(j)

    def pwdtype(self, name, wname, j):
        """dtype of sum_k a_k * w_k"""
        def term(k):
            return z3.If(z3.Or(self.dtype(name, k) == FLT, z3.Not(self.w_isint(wname, k))), FLT, INT)
        rf = self.recfun("pwdt_" + name, lambda: term(z3.IntVal(0)),
                         lambda prev, k: z3.If(z3.Or(prev == FLT, term(k) == FLT), FLT, INT), sort=DT, with_cell=False)
        return rf.at(j)

    def srt(self, name, k, c):
        """k-th smallest stored value of column c of family `name` (spec function; meaningful where no input is missing)"""
        sc, rs = self.eng.sorted_column(self.st0, self.fam[name]["fid"])
        return sc.at(k, c)

    def srt_rangesum(self, name, lo, m, c):
        sc, rs = self.eng.sorted_column(self.st0, self.fam[name]["fid"])
        return rs.at(lo, m, c)

    def numseq(self, name):
        return self.numlists[name]["seq"]

    def distinct(self, name):
        return self.eng.distinct_pred(self.numseq(name))

    def pairs(self, a, b):
        qa, qb = (self.numseq(a) if isinstance(a, str) else a), (self.numseq(b) if isinstance(b, str) else b)
        n = z3.simplify(z3.If(qb.n < qa.n, qb.n, qa.n))
        return SeqV(n, lambda k: TupleV([qa.get(k), qb.get(k)]), meta={"zipped": [qa, qb]})

    def sorted(self, a, b):
        """(P, Q, m): the control points sorted by raw value (assumed contract of sorted(zip(a, b)))"""
        new = self.eng.sorted_pairs(self.pairs(a, b))
        return new.meta["P"], new.meta["Q"], new.n, new.meta["dist"]

    def curve(self, key, P, Q, m, xv):
        """Piecewise-linear curve through the sorted control points, flat outside; defined by cases.
        Returns CV: Cell -> Real together with the defining facts (registered on the initial state)."""
        reg = self.__dict__.setdefault("_curves", {})
        c0 = z3.Const("CELL!generic", Cell)
        key = (key, P(z3.IntVal(0)).decl().name(), Q(z3.IntVal(0)).decl().name(), z3.simplify(m).sexpr(), z3.simplify(xv(c0)).sexpr())
        if key in reg:
            return reg[key]
        CV = smt.fresh_fun("curve_" + key[0], Cell, z3.RealSort())

        def seg(k, xx):
            # slope form of lin(x; P(k-1) -> Q(k-1), P(k) -> Q(k))
            slope = (Q(k) - Q(k - 1)) / (P(k) - P(k - 1))
            return slope * xx + (Q(k - 1) - slope * P(k - 1))

        def defn(c):
            xx = xv(c)

            def perk(k):
                return z3.Implies(z3.And(k >= 1, k < m, P(k - 1) < xx, xx <= P(k)), CV(c) == seg(k, xx))

            return perk

        def ends(c):
            xx = xv(c)
            return z3.And(z3.Implies(xx <= P(0), CV(c) == Q(0)), z3.Implies(xx > P(m - 1), CV(c) == Q(m - 1)))

        reg[key] = (lambda c: CV(c), [defn, ends])
        return reg[key]

    def wsum(self, wname):
        """sum of a numeric list (the value the builtin sum() is assumed to return)"""
        seq = self.numlists[wname]["seq"]
        return self.eng.seq_numsum(self.st0, seq)


def build_inputs(eng, ci, fuzzy_pre=True):
    """Create the initial state for verifying ci.execute. returns (st, x)."""
    decl = CommandDecl(eng.repo, ci)
    st = State()
    x = X(eng, decl)
    x.st0 = st
    x.c = st.add_cell("c")
    st.lazy.append(x.facts)
    eng._srt = {}

    def srt_provider(s):
        return eng.srt_facts(s)

    srt_provider.wants_state = True
    st.lazy.append(srt_provider)
    for a in ("_distinct", "_numsum", "_sorted", "_distinct_seqs", "_numsum_seqs"):
        eng.__dict__[a] = {}

    def sorted_provider(s):
        return eng.sorted_facts(s)

    sorted_provider.wants_state = True
    st.lazy.append(sorted_provider)
    st.kterms.append(z3.IntVal(0))
    entries, present = {}, {}
    for name, p in decl.inputs.items():
        if not isinstance(p, ParamDecl):
            raise Unsupported("input declaration of %s.%s is not a Parameter" % (ci.name, name))
        v = make_input(eng, st, x, name, p, fuzzy_pre)
        entries[name] = v
        if not p.required:
            b = smt.fresh("has_" + name, z3.BoolSort())
            present[name] = b
            x.present[name] = b
    x.kwargs_ref = st.alloc(PyDict(entries, present), fresh=False)
    lineno = Sym("dyn", smt.fresh("self_lineno", smt.Val))
    arglines = PyDict({}, {})
    ALINE = z3.Function("argument_line", z3.StringSort(), smt.Val)
    arglines.total = lambda key: Sym("dyn", ALINE(z3.StringVal(key) if isinstance(key, str) else key.t))
    x.argline = lambda key: ALINE(z3.StringVal(key))
    x.lineno = lineno.t
    x.self_ref = st.alloc(Obj(ClassV(ci.name, ci), {
        "lineno": lineno,
        "argument_lines": st.alloc(arglines, fresh=False),
        "result_name": Sym("str", smt.fresh("self_result_name", z3.StringSort())),
        "program": Sym("dyn", smt.fresh("self_program", smt.Val)),
    }), fresh=False)
    return st, x


def make_input(eng, st, x, name, p, fuzzy_pre):
    if p.cls == "ResultParameter":
        ot = p.output_type
        if isinstance(ot, ParamDecl) and ot.cls == "DataParameter":
            Xf = smt.fresh_fun("X_" + name, Cell, z3.RealSort())
            Mf = smt.fresh_fun("M_" + name, Cell, z3.BoolSort())
            Pf = smt.fresh_fun("P_" + name, Cell, z3.RealSort())
            dt = smt.fresh("dt_" + name, DT)
            sh = smt.fresh("sh_" + name, Shape)
            state = ArrState("MA", dt, sh, lambda c: z3.If(Mf(c), Pf(c), Xf(c)), lambda c: Mf(c))
            ref = st.alloc(state, fresh=False)
            st.assume(z3.And(z3.Or(dt == INT, dt == FLT), RANK(sh) >= 1))
            if p.is_fuzzy is True and fuzzy_pre:
                st.assume(dt == FLT)
                st.assume_all_cells(lambda c: z3.Implies(z3.Not(Mf(c)), z3.And(FUZZY_LO <= Xf(c), Xf(c) <= FUZZY_HI)))
            x.single[name] = dict(X=lambda c: Xf(c), M=lambda c: Mf(c), P=lambda c: Pf(c), dt=dt, sh=sh, ref=ref, state=state)
            cmd = Obj(ClassV("InputCommand"), {"result_name": Sym("str", smt.fresh("name_" + name, z3.StringSort())), "is_finished": True})

            fzv = bool(p.is_fuzzy) if p.is_fuzzy is not None else Sym("bool", smt.fresh("isfz_" + name, z3.BoolSort()))

            def hook(eng_, st_, r, attr, name=name, ref=ref):
                if attr == "result":
                    st_.log.append(("touch", name, None))
                    yield st_, ref
                elif attr == "is_fuzzy":
                    yield st_, fzv
                else:
                    yield eng_.raise_(st_, "AttributeError", "InputCommand has no attribute " + attr)

            cmd.attr_hook = hook
            return st.alloc(cmd, fresh=False)
        # a result of unknown kind
        cmd = Obj(ClassV("InputCommand"), {"result_name": Sym("str", smt.fresh("name_" + name, z3.StringSort())), "is_finished": True})

        fzv2 = bool(p.is_fuzzy) if p.is_fuzzy is not None else Sym("bool", smt.fresh("isfz_" + name, z3.BoolSort()))

        def hook2(eng_, st_, r, attr, name=name):
            if attr == "result":
                st_.log.append(("touch", name, None))
                yield st_, Sym("dyn", smt.fresh("anyresult", smt.Val))
            elif attr == "is_fuzzy":
                yield st_, fzv2
            else:
                yield eng_.raise_(st_, "AttributeError", "InputCommand has no attribute " + attr)

        cmd.attr_hook = hook2
        return st.alloc(cmd, fresh=False)
    if p.cls == "ListParameter":
        vt = p.value_type
        if isinstance(vt, ParamDecl) and vt.cls == "ResultParameter":
            ot = vt.output_type
            data = isinstance(ot, ParamDecl) and ot.cls == "DataParameter"
            fid = name
            n = smt.fresh("n_" + name, z3.IntSort())
            st.assume(n >= 0)
            NAME = smt.fresh_fun("name_" + name, z3.IntSort(), z3.StringSort())
            if data:
                Xf = smt.fresh_fun("X_" + name, z3.IntSort(), Cell, z3.RealSort())
                Mf = smt.fresh_fun("M_" + name, z3.IntSort(), Cell, z3.BoolSort())
                Pf = smt.fresh_fun("P_" + name, z3.IntSort(), Cell, z3.RealSort())
                dtf = smt.fresh_fun("dt_" + name, z3.IntSort(), DT)
                shf = smt.fresh_fun("sh_" + name, z3.IntSort(), Shape)
                fam = FamState(fid, n, lambda k: dtf(k), lambda k: shf(k),
                               lambda k, c: z3.If(Mf(k, c), Pf(k, c), Xf(k, c)), lambda k, c: Mf(k, c))
                st.fams[fid] = fam
                fz = vt.is_fuzzy is True and fuzzy_pre
                st.assume_all_k(lambda k: z3.Implies(z3.And(k >= 0, k < n), z3.And(
                    (dtf(k) == FLT) if fz else z3.Or(dtf(k) == INT, dtf(k) == FLT), RANK(shf(k)) >= 1)))
                if fz:
                    st.assume_all_cells(lambda c: (lambda k: z3.Implies(
                        z3.And(k >= 0, k < n, z3.Not(Mf(k, c))), z3.And(FUZZY_LO <= Xf(k, c), Xf(k, c) <= FUZZY_HI))))
                x.fam[name] = dict(fid=fid, n=n, X=lambda k, c: Xf(k, c), M=lambda k, c: Mf(k, c), P=lambda k, c: Pf(k, c),
                                   dt=lambda k: dtf(k), sh=lambda k: shf(k), fuzzy=vt.is_fuzzy)
            else:
                x.fam[name] = dict(fid=fid, n=n, data=False)
            st.fams[("cmds", fid)] = CmdFam(fid, name, lambda k: NAME(k), data=data, fuzzy=vt.is_fuzzy)
            seq = SeqV(n, lambda k: Ref(("cmdelem", fid, z3.simplify(k) if not isinstance(k, int) else z3.IntVal(k))), tag="cmds")
            return st.alloc(PyList(seq=seq), fresh=False)
        if isinstance(vt, ParamDecl) and vt.cls == "NumberParameter":
            n = smt.fresh("n_" + name, z3.IntSort())
            st.assume(n >= 0)
            W = smt.fresh_fun("w_" + name, z3.IntSort(), z3.RealSort())
            WI = smt.fresh_fun("wint_" + name, z3.IntSort(), z3.BoolSort())
            seq = SeqV(n, lambda k: Sym("num", W(k), WI(k)), tag="nums")
            x.numlists[name] = dict(n=n, W=lambda k: W(k), WI=lambda k: WI(k), seq=seq)
            return st.alloc(PyList(seq=seq), fresh=False)
        raise Unsupported("list parameter %s of %r" % (name, vt))
    if p.cls == "NumberParameter":
        t = smt.fresh("num_" + name, z3.RealSort())
        ii = smt.fresh("isint_" + name, z3.BoolSort())
        st.assume(z3.Implies(ii, z3.IsInt(t)))
        x.nums[name] = (t, ii)
        return Sym("num", t, ii)
    if p.cls in ("StringParameter", "PathParameter"):
        t = smt.fresh("str_" + name, z3.StringSort())
        x.strs[name] = t
        return Sym("str", t)
    if p.cls == "BooleanParameter":
        t = smt.fresh("bool_" + name, z3.BoolSort())
        x.bools[name] = t
        return Sym("bool", t)
    if p.cls == "TupleParameter":
        return Sym("dyn", smt.fresh("tuple_" + name, smt.Val))
    if p.cls == "DataTypeParameter":
        t = smt.fresh("dtype_" + name, DT)
        st.assume(z3.Or(t == INT, t == FLT))
        x.strs[name] = t
        return Sym("dt", t)
    raise Unsupported("parameter class %s" % p.cls)


class CommandSpec(object):
    """Sidecar specification of one command. Override the hooks."""

    uses_stats = False

    def requires(self, x):
        """extra assumptions (list of z3 Bool) - the admissible-input restrictions stated in DESIGN"""
        return []

    def raises(self, x):
        """[(exception class name, condition)] - biconditional: raised iff condition (first match wins)"""
        return []

    def result(self, x):
        """dict(shape=term, dtype=term|None, miss=c->Bool, value=c->Real|None, fuzzy=bool)"""
        raise NotImplementedError

    def admissible(self, case):
        """concrete-side admissibility (bounded checks / replay): the property's own input restriction.
        Commands that use whole-array statistics are claimed for arrays with at least two distinct valid values."""
        if not self.uses_stats:
            return True
        for inp in case["inputs"].values():
            if inp.get("kind") == "single":
                vals = set(v for v, m in zip(inp["data"], inp["mask"]) if not m)
                if len(vals) < 2:
                    return False
        return True

    def arrays_read(self, x):
        """names of the Result inputs the command must read (C01 touches-all-refs); default: all required"""
        return None


def verify_execute(eng, ci, spec, label=None):
    """Generate and discharge all obligations of ci.execute against spec. Returns list of VC records."""
    fi = eng.repo.find_method(ci, "execute")
    if fi is None or fi.cls is None or fi.cls.name == "Command":
        raise Unsupported("%s has no execute" % ci.name)
    eng.current = fi
    eng.x = None
    label = label or ("%s::%s.execute" % (ci.module.relpath, ci.name))
    st, x = build_inputs(eng, ci)
    eng.x = x
    for a in spec.requires(x):
        st.assume(a)
    start = len(eng.results)
    env = {"self": x.self_ref, "kwargs": x.kwargs_ref}
    npaths = 0
    for st1, out in eng.run_function(fi, st, env, cls=fi.cls):
        npaths += 1
        check_exit(eng, spec, x, st1, out, label)
    eng.results.append({"name": label + "/paths", "kind": "cover", "status": "unsat" if npaths > 0 else "sat",
                        "backend": "engine", "time_s": 0, "function": fi.key, "paths": npaths, "clause": "cover"})
    for r in eng.results[start:]:
        r.setdefault("command", ci.name)
        r.setdefault("verified_function", fi.key)
    return eng.results[start:]


def _cls_name(eng, st, exc):
    if isinstance(exc, ExcSym):
        return None
    return st.get(exc).cls.name


def cond_holds(st, cond):
    """goal form of a raise condition"""
    if isinstance(cond, tuple) and cond[0] == "exists_k":
        ks = st.all_kterms()
        return z3.Or(*[cond[1](k) for k in ks]) if ks else z3.BoolVal(False)
    if isinstance(cond, tuple) and cond[0] == "and_not_exists_k":
        k = st.add_k("k_sk")
        return z3.And(cond[1], z3.Not(cond[2](k)))
    return cond


def cond_fails(st, cond):
    """goal form of the negation of a raise condition"""
    if isinstance(cond, tuple) and cond[0] == "exists_k":
        k = st.add_k("k_sk")
        return z3.Not(cond[1](k))
    if isinstance(cond, tuple) and cond[0] == "and_not_exists_k":
        ks = st.all_kterms()
        return z3.Or(z3.Not(cond[1]), *[cond[2](k) for k in ks])
    return z3.Not(cond)


def check_exit(eng, spec, x, st, out, label):
    c = x.c
    clauses = spec.raises(x)
    if out[0] == "raise":
        exc = out[1]
        name = _cls_name(eng, st, exc)
        st.trail.append("raises %s" % name)
        conds = [cond for (n, cond) in clauses if n == name]
        if conds and any(cd is None for cd in conds):
            # "may raise E": allowed, condition not specified
            eng.results.append({"name": "%s/raises:%s:allowed" % (label, name), "kind": "raises", "status": "unsat",
                                "backend": "syntactic", "time_s": 0, "function": eng.current.key, "clause": "raises", "exc": name})
            return
        if not conds:
            eng.oblige(st, "%s/raises_only(%s)" % (label, name), z3.BoolVal(False), kind="raises",
                       meta={"clause": "raises_only", "exc": name})
        else:
            conds = [cond_holds(st, cd) for cd in conds]
            eng.oblige(st, "%s/raises:%s:sound" % (label, name), z3.Or(*conds) if len(conds) > 1 else conds[0], kind="raises",
                       meta={"clause": "raises", "exc": name})
        return
    # normal return
    r = out[1]
    for (n, cond) in clauses:
        if cond is None:
            continue
        eng.oblige(st, "%s/raises:%s:complete" % (label, n), cond_fails(st, cond), kind="raises", meta={"clause": "raises", "exc": n})
    want = spec.result(x)
    if want is None:
        check_frame(eng, x, st, label)
        check_touches(eng, spec, x, st, label)
        return
    if not (isinstance(r, Ref) and isinstance(st.get(r), ArrState)):
        eng.oblige(st, label + "/result:is-array", z3.BoolVal(False), kind="ensures", meta={"clause": "kind"})
        return
    s = st.get(r)
    eng.oblige(st, label + "/result:kind=MA", z3.BoolVal(s.kind == "MA"), kind="ensures", meta={"clause": "kind"})
    if s.sel is not None:
        eng.oblige(st, label + "/result:full-array", z3.BoolVal(False), kind="ensures", meta={"clause": "shape"})
        return
    eng.oblige(st, label + "/result:shape", s.shape == want["shape"], kind="ensures", meta={"clause": "shape"})
    if want.get("dtype") is not None:
        eng.oblige(st, label + "/result:dtype", s.dtype == want["dtype"], kind="ensures", meta={"clause": "dtype"})
    else:
        eng.oblige(st, label + "/result:dtype-numeric", z3.Or(s.dtype == INT, s.dtype == FLT), kind="ensures", meta={"clause": "dtype"})
    eng.oblige(st, label + "/result:mask", s.miss(c) == want["miss"](c), kind="ensures", meta={"clause": "mask"})
    if want.get("value") is not None:
        eng.oblige(st, label + "/result:value", z3.Implies(z3.Not(want["miss"](c)), s.val(c) == want["value"](c)),
                   kind="ensures", meta={"clause": "value"})
    if want.get("fuzzy"):
        eng.oblige(st, label + "/result:fuzzy-range",
                   z3.Implies(z3.Not(s.miss(c)), z3.And(FUZZY_LO <= s.val(c), s.val(c) <= FUZZY_HI)),
                   kind="ensures", meta={"clause": "fuzzy_range"}, assume_after=False)
        eng.oblige(st, label + "/result:fuzzy-dtype", s.dtype == FLT, kind="ensures", meta={"clause": "fuzzy_range"})
    check_frame(eng, x, st, label)
    check_touches(eng, spec, x, st, label)


DECLARED_ATTRS = {"is_fuzzy", "inputs", "output", "result_name", "arguments", "is_finished", "_result", "program", "lineno", "argument_lines",
                  "allow_extra_inputs", "required_inputs", "display_name", "metadata"}


def check_frame(eng, x, st, label):
    """C09: every pre-existing array is unchanged at valid cells (payload under missing cells is outside the property)."""
    c = x.c
    # ... and what the loader and the cleaners decided on stays decided: execute does not rewrite the declared attributes of a command
    stores = [ev for ev in st.log if ev[0] == "effect" and len(ev) >= 5 and ev[2] in DECLARED_ATTRS]
    if not stores:
        eng.results.append({"name": "%s/frame:declared-attributes" % label, "kind": "frame", "status": "unsat", "backend": "event-log",
                            "time_s": 0, "function": eng.current.key, "clause": "frame"})
    for ev in stores:
        nm, v = ev[2], ev[3]
        goal = None
        if nm == "is_fuzzy" and ev[4] == x.decl.name:
            want = bool(x.decl.is_fuzzy)
            if isinstance(v, bool):
                goal = z3.BoolVal(v == want)
            elif isinstance(v, Sym) and v.kind == "bool":
                goal = v.t == z3.BoolVal(want)
        if goal is None:
            eng.results.append({"name": "%s/frame:declared-attributes(.%s)" % (label, nm), "kind": "frame", "status": "unknown", "backend": "event-log", "time_s": 0,
                                "function": eng.current.key, "clause": "frame", "reason": "execute stores .%s on a %s object: not shown to keep its value" % (nm, ev[4])})
        else:
            eng.oblige(st, "%s/frame:declared-attributes(.%s)" % (label, nm), goal, kind="frame", meta={"clause": "frame"})
    for name, d in x.single.items():
        s = st.get(d["ref"])
        s0 = d["state"]
        if s is s0:
            eng.results.append({"name": "%s/frame:%s" % (label, name), "kind": "frame", "status": "unsat", "backend": "syntactic",
                                "time_s": 0, "function": eng.current.key, "clause": "frame"})
            continue
        goal = z3.And(s.dtype == s0.dtype, s.shape == s0.shape, s.miss(c) == s0.miss(c),
                      z3.Implies(z3.Not(s0.miss(c)), s.val(c) == s0.val(c)))
        eng.oblige(st, "%s/frame:%s" % (label, name), z3.And(goal, z3.BoolVal(s.kind == s0.kind)), kind="frame", meta={"clause": "frame"})
    for name, d in x.fam.items():
        if "X" not in d:
            continue
        fam = st.fams[d["fid"]]
        k = st.add_k("kf")
        n = d["n"]
        v0 = z3.If(d["M"](k, c), d["P"](k, c), d["X"](k, c))
        goal = z3.Implies(z3.And(k >= 0, k < n), z3.And(
            fam.dtype_f(k) == d["dt"](k), fam.shape_f(k) == d["sh"](k), fam.miss_f(k, c) == d["M"](k, c),
            z3.Implies(z3.Not(d["M"](k, c)), fam.val_f(k, c) == v0)))
        eng.oblige(st, "%s/frame:%s[k]" % (label, name), goal, kind="frame", meta={"clause": "frame"})


def check_touches(eng, spec, x, st, label):
    """C01 (touches-all-refs): on a normally returning path `.result` was read on every referenced command."""
    names = spec.arrays_read(x)
    if names is None:
        names = [n for n, p in x.decl.inputs.items()
                 if (p.cls == "ResultParameter" or (p.cls == "ListParameter" and isinstance(p.value_type, ParamDecl)
                                                     and p.value_type.cls == "ResultParameter")) and p.required]
    for name in names:
        ok = False
        for ev in st.log:
            if ev[0] == "touch" and ev[1] == name and ev[2] is None:
                ok = True
            if ev[0] == "forall" and ev[1] == "touch" and ev[2] == name:
                ok = True
        if not ok and name in x.fam:
            # an empty list has nothing to read
            v = smt.check(st.hyps(), x.fam[name]["n"] == 0)
            ok = v.status == "unsat"
        eng.results.append({"name": "%s/touches:%s" % (label, name), "kind": "touches", "status": "unsat" if ok else "sat",
                            "backend": "syntactic-log", "time_s": 0, "function": eng.current.key, "clause": "touches",
                            "trail": list(st.trail)[-8:]})


# =========================================================================== modular use of a command spec (super().execute)
class XActual(X):
    """The X accessors over *actual* argument values at a call site."""

    def __init__(self, eng, st, decl):
        X.__init__(self, eng, decl)
        self.st0 = st


def build_actual(eng, st, ci, kwargs):
    decl = CommandDecl(eng.repo, ci)
    xa = XActual(eng, st, decl)
    xa.c = st.cells[0]
    outer = getattr(eng, "x", None)
    if outer is not None:
        xa.recfuns = outer.recfuns  # share definitional facts provider
        xa.__dict__["_curves"] = outer.__dict__.setdefault("_curves", {})
    states = [st]
    for name, p in decl.inputs.items():
        if name not in kwargs:
            if p.required:
                raise Unsupported("call of %s.execute without required %s" % (ci.name, name))
            xa.present[name] = z3.BoolVal(False)
            # placeholders for absent optionals
            if p.cls == "NumberParameter":
                xa.nums[name] = (z3.RealVal(0), True)
            elif p.cls in ("StringParameter", "PathParameter"):
                xa.strs[name] = z3.StringVal("")
            continue
        v = kwargs[name]
        xa.present[name] = z3.BoolVal(True)
        if p.cls == "ResultParameter" and isinstance(p.output_type, ParamDecl) and p.output_type.cls == "DataParameter":
            outs = list(eng.get_attr(st, v, "result"))
            if len(outs) != 1 or isinstance(outs[0][1], Raised):
                raise Unsupported("callee input .result forks")
            ref = outs[0][1]
            s = eng.arr_state(st, ref)
            if s.kind != "MA":
                raise Unsupported("callee input is not a masked array")
            view = s.val
            if outer is not None:
                for od in outer.single.values():
                    if od["state"] is s:
                        view = od["X"]  # an untouched input of the caller: the callee sees the same valid view
            xa.single[name] = dict(X=view, M=s.miss, P=None, dt=s.dtype, sh=s.shape, ref=ref, state=s)
        elif p.cls == "NumberParameter":
            if not is_num(v):
                raise Unsupported("callee number argument %r" % (v,))
            xa.nums[name] = (num_term(v), isint_of(v))
        elif p.cls == "ListParameter" and isinstance(p.value_type, ParamDecl) and p.value_type.cls == "NumberParameter":
            o = st.get(v) if isinstance(v, Ref) else None
            if not isinstance(o, PyList):
                raise Unsupported("callee list argument")
            seq = eng.list_seq(o)
            xa.numlists[name] = dict(n=seq.n, W=lambda k, seq=seq: num_term(seq.get(k)),
                                     WI=lambda k, seq=seq: isint_of(seq.get(k)), seq=seq)
        elif p.cls in ("StringParameter", "PathParameter"):
            xa.strs[name] = eng.str_term(v)
        elif p.cls == "BooleanParameter":
            xa.bools[name] = v if not isinstance(v, Sym) else v.t
            if isinstance(v, bool):
                xa.bools[name] = z3.BoolVal(v)
        elif p.cls == "TupleParameter":
            pass
        else:
            raise Unsupported("callee parameter kind %s" % p.cls)
    return xa


class SpecContract(object):
    """Contract of `K.execute` derived from K's CommandSpec, for modular calls (super().execute(**kwargs))."""

    def __init__(self, ci, spec):
        self.ci, self.spec = ci, spec

    def apply(self, eng, st, f, args, kwargs):
        if args:
            raise Unsupported("positional arguments to execute")
        xa = build_actual(eng, st, self.ci, kwargs)
        xa.self_ref = f.self_val
        label = "%s->%s.execute" % (eng.current.key if eng.current else "?", self.ci.name)
        if self.spec.uses_stats:
            for name, d in xa.single.items():
                eng.ensure_stats(st, d["state"])
        for i, a in enumerate(self.spec.requires(xa)):
            eng.oblige(st, "%s/requires[%d]" % (label, i), a, kind="callsite-requires", meta={"clause": "callsite"})
        clauses = self.spec.raises(xa)
        rest = st
        for (name, cond) in clauses:
            if isinstance(cond, tuple):
                raise Unsupported("position-quantified raise clause in a modular call")
            sr = rest.fork()
            if cond is None:
                # "may raise": both outcomes possible, no condition known
                exc = sr.alloc(Obj(eng.lookup_class(name), {"lineno": Sym("dyn", smt.fresh("exc_lineno", smt.Val))}))
                sr.trail.append("callee may raise %s" % name)
                yield sr, Raised(exc)
                continue
            sr.assume(cond)
            if eng.feasible(sr):
                cv = eng.lookup_class(name)
                # the exception object: class is what matters to callers; fields are unspecified
                exc = sr.alloc(Obj(cv, {"lineno": Sym("dyn", smt.fresh("exc_lineno", smt.Val))}))
                sr.trail.append("callee raises %s" % name)
                yield sr, Raised(exc)
            rest = rest.fork()
            rest.assume(z3.Not(cond))
        if not eng.feasible(rest):
            return
        want = self.spec.result(xa)
        junk = eng.fresh_valfun("callee_payload")
        miss, value = want["miss"], want.get("value")
        if value is None:
            value = eng.fresh_valfun("callee_unspecified_value")
        dt = want.get("dtype")
        if dt is None:
            dt = smt.fresh("callee_dt", DT)
            rest.assume(z3.Or(dt == INT, dt == FLT))
        new = ArrState("MA", dt, want["shape"], lambda c: z3.If(miss(c), junk(c), value(c)), miss)
        yield rest, rest.alloc(new)
