"""C10 / C11 (lexer part): the token rules of mpilot/parser/parser.py as data, their PLY priority, and the
regular-language lemmas about them (each lemma is an emptiness query on regular expressions translated mechanically
from the rule strings; DESIGN section 6, C10 item 3)."""
import ast

import z3

from . import rx

PARSER = "mpilot/parser/parser.py"


class Rule(object):
    def __init__(self, name, pattern, kind, lineno, func=None):
        self.name, self.pattern, self.kind, self.lineno, self.func = name, pattern, kind, lineno, func
        self.re = rx.to_z3(pattern)
        self.discard = name.startswith("ignore_")


def extract_rules(repo):
    """the Lexer's rules in PLY's matching order: function rules in definition order, then string rules by decreasing
    regex length (ply.lex: `strsym.sort(key=lambda x: len(x[1]), reverse=True)`)."""
    mod = repo.modules[PARSER]
    ci = mod.classes["Lexer"]
    funcs, strs = [], []
    ignore = ""
    for node in ci.node.body:
        if isinstance(node, ast.Assign) and len(node.targets) == 1 and isinstance(node.targets[0], ast.Name):
            n = node.targets[0].id
            if n == "t_ignore" and isinstance(node.value, ast.Constant):
                ignore = node.value.value
            elif n.startswith("t_") and isinstance(node.value, ast.Constant) and isinstance(node.value.value, str):
                strs.append(Rule(n[2:], node.value.value, "string", node.lineno))
        elif isinstance(node, ast.FunctionDef) and node.name.startswith("t_") and node.name != "t_error":
            pat = None
            for d in node.decorator_list:
                if isinstance(d, ast.Call) and ast.unparse(d.func) == "TOKEN" and d.args and isinstance(d.args[0], ast.Constant):
                    pat = d.args[0].value
            if pat is None:
                doc = ast.get_docstring(node)
                pat = doc
            if pat is None:
                raise ValueError("token function %s has no regex" % node.name)
            funcs.append(Rule(node.name[2:], pat, "function", node.lineno, func=node))
    funcs.sort(key=lambda r: r.lineno)
    strs.sort(key=lambda r: -len(r.pattern))
    return funcs + strs, ignore


ANY = z3.Star(rx.ANYCHAR)
DIG = rx.rng(48, 57)
SIGN = z3.Option(rx.chars("+-"))
S_INT = z3.Concat(SIGN, z3.Plus(DIG))
EXP = z3.Option(z3.Concat(rx.chars("eE"), z3.Option(rx.chars("+-")), z3.Plus(DIG)))
S_FLOAT = z3.Concat(SIGN, z3.Union(z3.Concat(z3.Plus(DIG), rx.lit("."), z3.Star(DIG)), z3.Concat(rx.lit("."), z3.Plus(DIG))), EXP)
LETTER_ = z3.Union(rx.rng(65, 90), rx.rng(97, 122), rx.lit("_"))
S_ID = z3.Concat(LETTER_, z3.Star(z3.Union(LETTER_, DIG)))
BREAK = rx.chars("\r\n")


def not_chars(s):
    return z3.Intersect(rx.ANYCHAR, z3.Complement(rx.chars(s)))


def quoted(q):
    esc = z3.Concat(rx.lit("\\"), z3.Intersect(rx.ANYCHAR, z3.Complement(rx.lit("\n"))))
    plain = not_chars(q + "\\")
    return z3.Concat(rx.lit(q), z3.Star(z3.Union(esc, plain)), rx.lit(q))


S_STRING = z3.Union(quoted('"'), quoted("'"))
PUNCT = {"COLON": ":", "COMMA": ",", "EQUAL": "=", "LBRACK": "[", "LPAREN": "(", "RBRACK": "]", "RPAREN": ")"}


def lemmas(repo):
    """returns list of records {name, status, witness, ...}"""
    rules, ignore = extract_rules(repo)
    by = {r.name: r for r in rules}
    order = [r.name for r in rules]
    recs = []

    def empty(name, regex, clause="lexeme", expect_empty=True):
        st, w = rx.nonempty(regex)
        status = {"unsat": "unsat", "sat": "sat"}.get(st, "unknown")
        recs.append({"name": PARSER + "::Lexer/" + name, "status": status, "backend": "z3(seq)", "time_s": 0, "function": PARSER + "::Lexer",
                     "clause": clause, "witness": w, "goal": name})

    def need(*names):
        missing = [n for n in names if n not in by]
        if missing:
            recs.append({"name": PARSER + "::Lexer/rules-present(%s)" % ",".join(missing), "status": "unknown", "backend": "extractor", "time_s": 0,
                         "function": PARSER + "::Lexer", "clause": "lexeme", "reason": "token rule(s) %s not found" % missing})
            return False
        return True

    def earlier(name):
        return [by[n] for n in order[: order.index(name)]]

    # ---- the number, identifier and string rules describe exactly the documented lexemes
    for nm, spec in (("INT", S_INT), ("FLOAT", S_FLOAT), ("ID", S_ID), ("STRING", S_STRING)):
        if need(nm):
            empty("L-EQ:%s accepts every documented lexeme" % nm, z3.Intersect(spec, z3.Complement(by[nm].re)))
            empty("L-EQ:%s accepts nothing else" % nm, z3.Intersect(by[nm].re, z3.Complement(spec)))
    # ---- a lexeme has one kind
    if need("INT", "FLOAT", "ID", "STRING"):
        empty("L-DISJ:INT/FLOAT", z3.Intersect(by["INT"].re, by["FLOAT"].re))
        empty("L-DISJ:ID/numbers", z3.Intersect(by["ID"].re, z3.Union(by["INT"].re, by["FLOAT"].re)))
        empty("L-DISJ:STRING/others", z3.Intersect(by["STRING"].re, z3.Union(by["INT"].re, by["FLOAT"].re, by["ID"].re)))
    # ---- priority: no rule tried earlier matches a prefix of the lexeme followed by what may follow it
    follow = {
        "FLOAT": z3.Union(rx.lit(""), z3.Concat(not_chars("0123456789eE.+-"), ANY)),
        "INT": z3.Union(rx.lit(""), z3.Concat(not_chars("0123456789.eE"), ANY)),
        "ID": z3.Union(rx.lit(""), z3.Concat(z3.Intersect(rx.ANYCHAR, z3.Complement(z3.Union(LETTER_, DIG))), ANY)),
        "STRING": ANY,
    }
    specs = {"FLOAT": S_FLOAT, "INT": S_INT, "ID": S_ID, "STRING": S_STRING}
    for nm in ("ID", "FLOAT", "INT", "STRING"):
        if not need(nm):
            continue
        text = z3.Concat(specs[nm], follow[nm])
        for e in earlier(nm):
            empty("L-PRI:%s is not pre-empted by %s" % (nm, e.name), z3.Intersect(z3.Concat(e.re, ANY), text))
        # maximal munch: the rule cannot run past the lexeme into what follows
        if nm != "STRING":
            tail = {"FLOAT": z3.Concat(not_chars("0123456789eE.+-"), ANY), "INT": z3.Concat(not_chars("0123456789.eE"), ANY),
                    "ID": z3.Concat(z3.Intersect(rx.ANYCHAR, z3.Complement(z3.Union(LETTER_, DIG))), ANY)}[nm]
            empty("L-MAX:%s stops at the end of the lexeme" % nm, z3.Intersect(by[nm].re, z3.Concat(specs[nm], tail)))
    for nm, c in PUNCT.items():
        if not need(nm):
            continue
        empty("L-EQ:%s is exactly %r" % (nm, c), z3.Union(z3.Intersect(by[nm].re, z3.Complement(rx.lit(c))), z3.Intersect(rx.lit(c), z3.Complement(by[nm].re))))
        for e in earlier(nm):
            empty("L-PRI:%s is not pre-empted by %s" % (nm, e.name), z3.Intersect(z3.Concat(e.re, ANY), z3.Concat(rx.lit(c), ANY)))
    # ---- quoted strings end at the first unescaped quote: the language is prefix-free
    if need("STRING"):
        empty("L-MAX:STRING is prefix-free", z3.Intersect(by["STRING"].re, z3.Concat(by["STRING"].re, z3.Plus(rx.ANYCHAR))))
    # ---- layout
    if need("newline"):
        empty("L-IGN:newline rule is exactly runs of line-break characters",
              z3.Union(z3.Intersect(by["newline"].re, z3.Complement(z3.Plus(BREAK))), z3.Intersect(z3.Plus(BREAK), z3.Complement(by["newline"].re))))
    com = [r for r in rules if r.discard]
    recs.append({"name": PARSER + "::Lexer/L-IGN:comment rule present and discarded", "status": "unsat" if com else "unknown", "backend": "extractor",
                 "time_s": 0, "function": PARSER + "::Lexer", "clause": "lexeme", "reason": None if com else "no t_ignore_* rule"})
    for r in com:
        empty("L-IGN:%s covers '#' to the end of the line" % r.name,
              z3.Intersect(z3.Concat(rx.lit("#"), z3.Star(not_chars("\r\n"))), z3.Complement(r.re)))
        # ... and nothing beyond it: a comment ends at the first line break of either kind (LF or CR), it never swallows the next line
        empty("L-IGN:%s stops at the end of the line (LF or CR)" % r.name,
              z3.Intersect(r.re, z3.Complement(z3.Concat(rx.lit("#"), z3.Star(not_chars("\r\n"))))))
        for e in earlier(r.name):
            empty("L-PRI:comment is not pre-empted by %s" % e.name, z3.Intersect(z3.Concat(e.re, ANY), z3.Concat(rx.lit("#"), ANY)))
    recs.append({"name": PARSER + "::Lexer/L-IGN:blanks and tabs are skipped", "status": "unsat" if set(ignore) == set(" \t") else "sat",
                 "backend": "extractor", "time_s": 0, "function": PARSER + "::Lexer", "clause": "lexeme", "goal": "t_ignore = %r" % ignore})
    # ---- C11: only rules that adjust the line counter may consume a line break
    counts_lines = set()
    for r in rules:
        if r.func is not None and any(isinstance(n, ast.Attribute) and n.attr == "lineno" and isinstance(n.ctx, ast.Store) for n in ast.walk(r.func)):
            counts_lines.add(r.name)
    has_break = z3.Concat(ANY, BREAK, ANY)
    for r in rules:
        if r.name in counts_lines:
            continue
        empty("L-NL:%s never consumes a line break" % r.name, z3.Intersect(r.re, has_break), clause="lineno")
    info = {"order": order, "ignore": ignore, "counts_lines": sorted(counts_lines)}
    return recs, info
