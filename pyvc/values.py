"""Symbolic value domain of the executor."""
import z3

from . import smt


class Unsupported(Exception):
    """Construct outside the modelled subset: the obligation becomes undecided, never a pass."""


class Sym(object):
    """Scalar symbolic value. kind in {'num','bool','str','dyn','dt','shape'}."""

    __slots__ = ("kind", "t", "isint")

    def __init__(self, kind, t, isint=None):
        self.kind = kind
        self.t = t
        self.isint = isint  # for 'num': python bool or z3 Bool

    def __repr__(self):
        return "Sym(%s,%s)" % (self.kind, self.t)


class Ref(object):
    """Handle to a mutable object in State.store (lists, dicts, arrays, objects)."""

    __slots__ = ("oid",)

    def __init__(self, oid):
        self.oid = oid

    def __repr__(self):
        return "Ref(%r)" % (self.oid,)

    def __eq__(self, o):
        return isinstance(o, Ref) and o.oid == self.oid

    def __hash__(self):
        return hash(("Ref", self.oid))


class TupleV(object):
    __slots__ = ("items",)

    def __init__(self, items):
        self.items = tuple(items)

    def __repr__(self):
        return "TupleV%r" % (self.items,)


class FuncV(object):
    def __init__(self, info, self_val=None, env=None, cls=None):
        self.info = info  # extract.FuncInfo
        self.self_val = self_val
        self.env = env  # captured env for nested defs
        self.cls = cls  # class through which it was looked up (for super())


class LambdaV(object):
    def __init__(self, node, env, fi):
        self.node = node
        self.env = env
        self.fi = fi


class BuiltinV(object):
    def __init__(self, name, self_val=None):
        self.name = name
        self.self_val = self_val

    def __repr__(self):
        return "BuiltinV(%s)" % self.name


class ClassV(object):
    def __init__(self, name, info=None):
        self.name = name  # short name
        self.info = info  # extract.ClassInfo or None (builtin / external)

    def __repr__(self):
        return "ClassV(%s)" % self.name


class ModuleV(object):
    def __init__(self, name):
        self.name = name

    def __repr__(self):
        return "ModuleV(%s)" % self.name


class SuperV(object):
    def __init__(self, cls, self_val):
        self.cls = cls
        self.self_val = self_val


class Raised(object):
    """Exceptional outcome carrying the exception value (Ref to an Obj or an ExcSym)."""

    __slots__ = ("exc",)

    def __init__(self, exc):
        self.exc = exc


class ExcSym(object):
    """A symbolic exception of an unknown class below `base`; `is_a[name]` are z3 Bools."""

    def __init__(self, base, is_a=None, fields=None):
        self.base = base
        self.is_a = dict(is_a or {})
        self.fields = dict(fields or {})


# ------------------------------------------------------------------ store contents
class PyList(object):
    def __init__(self, items=None, seq=None):
        self.items = items  # concrete python list of values, or None
        self.seq = seq  # SeqV when symbolic length


class SeqV(object):
    """Immutable sequence of symbolic length n (z3 Int); get(k_term) -> value."""

    def __init__(self, n, get, tag=None, meta=None):
        self.n = n
        self.get = get
        self.tag = tag
        self.meta = meta or {}


class PyDict(object):
    def __init__(self, entries=None, present=None):
        self.entries = dict(entries or {})  # key(str) -> value
        self.present = dict(present or {})  # key -> z3 Bool (symbolic presence); absent => definitely present


class Bag(object):
    """A freshly created local container (list/dict/set) whose content is not tracked: reads give unconstrained
    values, writes are forgotten (A-LOCALS: operations on such containers with hashable keys raise nothing)."""

    def __init__(self, what="container"):
        self.what = what


class Obj(object):
    def __init__(self, cls, fields=None):
        self.cls = cls  # ClassV
        self.fields = dict(fields or {})


class ArrState(object):
    """Immutable snapshot of an array: kind, dtype, shape, val(c), miss(c).  sel(c) for selections."""

    _n = [0]

    def __init__(self, kind, dtype, shape, val, miss, sel=None, selkey=None, space=None):
        self.kind = kind  # 'MA' | 'ND'
        self.dtype = dtype  # z3 DT term
        self.shape = shape  # z3 Shape term
        self.val = val
        self.miss = miss
        self.sel = sel
        self.selkey = selkey
        self.space = space  # None = the cell space of the inputs; otherwise a tag
        ArrState._n[0] += 1
        self.sid = ArrState._n[0]
        self.stats = {}

    def clone(self, **kw):
        d = dict(kind=self.kind, dtype=self.dtype, shape=self.shape, val=self.val, miss=self.miss, sel=self.sel,
                 selkey=self.selkey, space=self.space)
        d.update(kw)
        return ArrState(**d)


class DataView(object):
    """`arr.data`: an ND alias of the payload of the array behind `base` (a Ref)."""

    def __init__(self, base):
        self.base = base


class MaskView(object):
    """`arr.mask` read: the mask of the array behind `base` as an ND bool array (A-NOMASK: `nomask` = all False)."""

    def __init__(self, base):
        self.base = base


class Idx(object):
    """Index tuple from numpy.where(cond) / boolean ND index: cond(c) -> z3 Bool."""

    _n = [0]

    def __init__(self, cond, shape):
        self.cond = cond
        self.shape = shape
        Idx._n[0] += 1
        self.key = Idx._n[0]


class StackState(object):
    """vstack/stack of n layers over the inputs' cell space."""

    def __init__(self, n, shape, layer, miss, kind="ND", sorted_=False, ok=True, origin=None, lo=None, hi=None, is_mask=False):
        self.origin = origin  # ('fam', fid) when layer k is the stored column of input family fid
        self.lo, self.hi = lo, hi  # slice bounds (z3 Int) when this is stack[lo:hi]
        self.is_mask = is_mask
        self.n = n
        self.shape = shape
        self.layer = layer  # (k, c) -> Real
        self.miss = miss  # c -> Bool (broadcast mask), or None
        self.kind = kind
        self.sorted = sorted_
        self.ok = ok


class Slice(object):
    def __init__(self, lo, hi, step=None):
        self.lo, self.hi, self.step = lo, hi, step


def is_concrete(v):
    return v is None or isinstance(v, (bool, int, float, str))


def num_term(v):
    """value -> z3 Real term (numbers only)."""
    if isinstance(v, bool):
        return z3.RealVal(1 if v else 0)
    if isinstance(v, (int, float)):
        return smt.rv(v)
    if isinstance(v, Sym) and v.kind == "num":
        return v.t
    if isinstance(v, Sym) and v.kind == "bool":
        return z3.If(v.t, z3.RealVal(1), z3.RealVal(0))
    raise Unsupported("not a number: %r" % (v,))


def isint_of(v):
    if isinstance(v, bool) or isinstance(v, int):
        return True
    if isinstance(v, float):
        return False
    if isinstance(v, Sym) and v.kind == "num":
        return v.isint if v.isint is not None else False
    if isinstance(v, Sym) and v.kind == "bool":
        return True
    raise Unsupported("not a number: %r" % (v,))


def is_num(v):
    return isinstance(v, (bool, int, float)) or (isinstance(v, Sym) and v.kind in ("num",))


def bool_term(b):
    if isinstance(b, bool):
        return z3.BoolVal(b)
    return b


def zand(*xs):
    xs = [bool_term(x) for x in xs]
    return z3.simplify(z3.And(*xs)) if xs else z3.BoolVal(True)


def zor(*xs):
    xs = [bool_term(x) for x in xs]
    return z3.simplify(z3.Or(*xs)) if xs else z3.BoolVal(False)


def znot(x):
    return z3.simplify(z3.Not(bool_term(x)))
