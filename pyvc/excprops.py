"""Exception classes under contract (C13, C11): every MPilotError subclass can be constructed from its declared
arguments without raising, `__str__` is total (returns a string, raises nothing), and a `lineno` argument is what the
object later reports as `.lineno`."""
import ast

import z3

from . import smt
from .dyn import Val, dyn
from .engine import Engine
from .state import State
from .values import Unsupported, Sym, Ref, PyList, SeqV, Obj, ClassV, Raised, ExcSym, TupleV, FuncV

# kinds of constructor arguments that are not "any value" (from the type comments in the sources and the call sites)
ARG_KINDS = {
    ("MissingParameters", "parameters"): "strs",
    ("MixedArrayShapes", "shape_a"): "shape",
    ("MixedArrayShapes", "shape_b"): "shape",
    ("InvalidDataFile", "problem"): "str",
    ("InvalidDataFile", "solution"): "optstr",
    ("ProgramError", "message"): "optstr",
    ("MissingParameters", "command"): "str_or_cmd",
    ("NoSuchParameter", "command"): "str_or_cmd",
}


def exception_classes(repo):
    out = []
    for ci in repo.all_classes():
        if repo.is_subclass(ci, "MPilotError"):
            out.append(ci)
    return sorted(out, key=lambda c: (c.module.relpath, c.node.lineno))


def make_arg(st, ci, name):
    kind = ARG_KINDS.get((ci.name, name), "any")
    if name == "lineno":
        return Sym("dyn", smt.fresh("lineno", Val))
    if kind == "strs":
        n = smt.fresh("n_strs", z3.IntSort())
        st.assume(n >= 0)
        f = smt.fresh_fun("str_item", z3.IntSort(), z3.StringSort())
        return st.alloc(PyList(seq=SeqV(n, lambda k: Sym("str", f(k)))), fresh=False)
    if kind == "shape":
        sh = smt.fresh("shape", smt.Shape)
        from .ma import RANK

        st.assume(RANK(sh) >= 1)
        return Sym("shape", sh)
    if kind == "str":
        return Sym("str", smt.fresh("s_" + name, z3.StringSort()))
    if kind == "optstr":
        v = smt.fresh("opt_" + name, Val)
        st.assume(z3.Or(Val.is_N(v), Val.is_S(v)))
        return Sym("dyn", v)
    if kind == "str_or_cmd":
        v = smt.fresh("cmd_" + name, Val)
        from .dyn import IS_COMMAND, FLD

        st.assume(z3.Or(Val.is_S(v), z3.And(Val.is_O(v))))
        return Sym("dyn", v)
    return Sym("dyn", smt.fresh("arg_" + name, Val))


def verify_exception_class(eng, ci):
    repo = eng.repo
    label = "%s::%s" % (ci.module.relpath, ci.name)
    init = repo.find_method(ci, "__init__")
    strm = repo.find_method(ci, "__str__")
    eng.current = strm or init
    recs_start = len(eng.results)
    st = State()
    st.add_cell("c")
    args, lineno_arg = [], None
    kwargs = {}
    if init is not None:
        a = init.node.args
        names = [x.arg for x in a.args][1:]
        for n in names:
            v = make_arg(st, ci, n)
            if n == "lineno":
                lineno_arg = v
            kwargs[n] = v
    cv = ClassV(ci.name, ci)
    eng.frames.append(strm or init or _Fake(ci))
    built = []
    try:
        for s1, r in eng.instantiate(cv, st, args, kwargs):
            if isinstance(r, Raised):
                nm = "<sym>" if isinstance(r.exc, ExcSym) else s1.get(r.exc).cls.name
                eng.oblige(s1, label + "/constructs-without-raising(%s)" % nm, z3.BoolVal(False), kind="ensures", meta={"clause": "str"}, assume_after=False)
            else:
                built.append((s1, r))
    except Unsupported as e:
        eng.results.append({"name": label + "/constructs-without-raising", "status": "unknown", "kind": "ensures", "backend": "engine", "time_s": 0,
                            "function": (init or strm).key if (init or strm) else label, "clause": "str", "reason": "unsupported: %s" % e})
    finally:
        eng.frames.pop()
    eng.results.append({"name": label + "/constructs", "status": "unsat" if built else "sat", "kind": "cover", "backend": "engine", "time_s": 0,
                        "function": (init or strm).key if (init or strm) else label, "clause": "cover"})
    for s1, ref in built:
        o = s1.get(ref)
        if lineno_arg is not None and repo.is_subclass(ci, "ProgramError"):
            ln = o.fields.get("lineno")
            same = ln is lineno_arg
            eng.results.append({"name": label + "/lineno-is-the-line-given", "status": "unsat" if same else "sat", "kind": "ensures", "backend": "syntactic",
                                "time_s": 0, "function": init.key, "clause": "lineno"})
        if strm is None:
            continue
        try:
            n_out = 0
            for s2, r in eng.call_func(s1, FuncV(strm, self_val=ref, cls=strm.cls), [], {}):
                n_out += 1
                if isinstance(r, Raised):
                    nm = "<sym>" if isinstance(r.exc, ExcSym) else s2.get(r.exc).cls.name
                    eng.oblige(s2, label + ".__str__/raises-nothing(%s)" % nm, z3.BoolVal(False), kind="ensures", meta={"clause": "str"}, assume_after=False)
                else:
                    if isinstance(r, Sym) and r.kind == "dyn":
                        eng.oblige(s2, label + ".__str__/returns-a-string", Val.is_S(r.t), kind="ensures", meta={"clause": "str"}, assume_after=False)
                        continue
                    ok = isinstance(r, str) or (isinstance(r, Sym) and r.kind == "str")
                    eng.results.append({"name": label + ".__str__/returns-a-string", "status": "unsat" if ok else "sat", "kind": "ensures",
                                        "backend": "engine", "time_s": 0, "function": strm.key, "clause": "str"})
        except Unsupported as e:
            eng.results.append({"name": label + ".__str__/raises-nothing", "status": "unknown", "kind": "ensures", "backend": "engine", "time_s": 0,
                                "function": strm.key, "clause": "str", "reason": "unsupported: %s" % e})
    return eng.results[recs_start:]


class _Fake(object):
    def __init__(self, ci):
        self.module = ci.module
        self.key = ci.key
        self.node = ci.node
        self.qualname = ci.name
        self.cls = ci
