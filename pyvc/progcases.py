"""Bounded program-level cases over the counting stub library (runner/run_program.py): graphs, orders, re-runs."""
import itertools
import json
import os
import subprocess
import tempfile

from . import replay

RUNNER = os.path.join(replay.HERE, "runner", "run_program.py")


def run_real(cases, repo_root="/repo", timeout=900):
    d = replay.workdir()
    fin = tempfile.NamedTemporaryFile("w", suffix=".pin.json", dir=d, delete=False)
    json.dump(cases, fin)
    fin.close()
    fout = fin.name.replace(".pin.json", ".pout.json")
    try:
        p = subprocess.run([replay.VENV_PY, RUNNER, fin.name, fout, repo_root], capture_output=True, text=True, timeout=timeout)
        if p.returncode != 0 or not os.path.exists(fout):
            raise RuntimeError("runner failed: %s %s" % (p.stdout[-500:], p.stderr[-1500:]))
        return json.load(open(fout))
    finally:
        for f in (fin.name, fout):
            try:
                os.unlink(f)
            except OSError:
                pass


def has_cycle(n, edges):
    adj = {i: [b for a, b in edges if a == i] for i in range(n)}
    color = {}

    def dfs(u):
        color[u] = 1
        for v in adj[u]:
            if color.get(v) == 1:
                return True
            if v not in color and dfs(v):
                return True
        color[u] = 2
        return False

    return any(dfs(i) for i in range(n) if i not in color)


def graph_cases(max_nodes, tier, seed=0):
    """every digraph on <= max_nodes nodes (self-loops included), edges realised through the four reference styles,
    a few textual orders, via the API and via source text; actions run, run, result of the first command."""
    import random

    rnd = random.Random(4242 + seed)
    cases = []
    names = ["N0", "N1", "N2", "N3", "N4"]
    styles = ["A", "L", "NL", "mixed"]
    for n in range(1, max_nodes + 1):
        pairs = [(a, b) for a in range(n) for b in range(n)]
        all_sets = list(itertools.chain.from_iterable(itertools.combinations(pairs, r) for r in range(0, min(len(pairs), 4) + 1)))
        if len(all_sets) > (400 if tier == "quick" else 3000):
            all_sets = rnd.sample(all_sets, 400 if tier == "quick" else 3000)
        for edges in all_sets:
            style = styles[(len(edges) + n + len(cases)) % len(styles)]
            cmds = []
            for i in range(n):
                outs = [b for a, b in edges if a == i]
                args = {}
                if outs:
                    if style == "A" and len(outs) <= 2:
                        for key, b in zip(("A", "B"), outs):
                            args[key] = {"ref": names[b]}
                    elif style == "L":
                        args["L"] = {"list": [{"ref": names[b]} for b in outs]}
                    elif style == "NL":
                        args["NL"] = {"list": [{"list": [{"ref": names[b]} for b in outs]}]}
                    else:
                        args["A"] = {"ref": names[outs[0]]}
                        if len(outs) > 1:
                            args["L"] = {"list": [{"ref": names[b]} for b in outs[1:]] + [{"ref": names[outs[0]]}]}
                cmds.append({"name": names[i], "cls": "Node" if outs else "Leaf", "args": args})
            order = list(range(n))
            rnd.shuffle(order)
            cmds = [cmds[i] for i in order]
            mode = "source" if (len(cases) % 2 == 0) else "api"
            cases.append({"mode": mode, "commands": cmds, "actions": ["run", "run", "result:%s" % cmds[0]["name"]],
                          "meta": {"n": n, "edges": list(edges), "cyclic": has_cycle(n, edges), "style": style}})
    return cases


def judge_graph(case, out):
    """violated clauses for C01 / C14 on one graph case"""
    bad = []
    if "harness_error" in out:
        return [("harness-error", out["harness_error"][-300:])]
    if out["load"]["outcome"] != "ok":
        return [("load", "the stub program did not load: %s" % out["load"])]
    names = [c["name"] for c in case["commands"]]
    steps = out["steps"]
    first = steps[0]
    if case["meta"]["cyclic"]:
        if first["outcome"] == "return":
            unfinished = [n for n, f in first["finished"].items() if not f]
            bad.append(("all-finished", "cyclic model: run() returned normally with un-executed commands %s" % unfinished))
        elif first.get("exc_class") != "RecursiveModelStructure":
            bad.append(("reentrancy", "cyclic model rejected with %s (wrapped: %s) instead of RecursiveModelStructure"
                        % (first.get("exc_class"), first.get("wrapped"))))
        if first.get("wrapped") == "RecursionError" or first.get("exc_class") == "RecursionError":
            bad.append(("reentrancy", "the interpreter stack was exhausted"))
        return bad
    if first["outcome"] != "return":
        bad.append(("raises_only", "acyclic model failed: %s %s" % (first.get("exc_class"), first.get("msg", "")[:100])))
        return bad
    ex = first["executions"]
    for n in names:
        if ex.count(n) != 1:
            bad.append(("once", "%s executed %d times in the first run" % (n, ex.count(n))))
    if not all(first["finished"].values()):
        bad.append(("all-finished", "run() returned with unfinished commands"))
    if first["fed_unfinished"]:
        bad.append(("finished", "a command was fed an unfinished dependency: %s" % first["fed_unfinished"][:1]))
    for s in steps[1:]:
        if s["outcome"] != "return" or len(s["executions"]) != len(ex):
            bad.append(("memo", "%s executed something again (%d executions, was %d)" % (s["action"], len(s["executions"]), len(ex))))
    return bad
