"""Bounded program-level cases over the counting stub library (runner/run_program.py): graphs, orders, re-runs."""
import itertools
import json
import os
import subprocess
import tempfile

from . import replay

RUNNER = os.path.join(replay.HERE, "runner", "run_program.py")


def run_real(cases, repo_root="/repo", timeout=900):
    d = replay.workdir()
    fin = tempfile.NamedTemporaryFile("w", suffix=".pin.json", dir=d, delete=False)
    json.dump(cases, fin)
    fin.close()
    fout = fin.name.replace(".pin.json", ".pout.json")
    try:
        p = subprocess.run([replay.VENV_PY, RUNNER, fin.name, fout, repo_root], capture_output=True, text=True, timeout=timeout)
        if p.returncode != 0 or not os.path.exists(fout):
            raise RuntimeError("runner failed: %s %s" % (p.stdout[-500:], p.stderr[-1500:]))
        return json.load(open(fout))
    finally:
        for f in (fin.name, fout):
            try:
                os.unlink(f)
            except OSError:
                pass


def has_cycle(n, edges):
    adj = {i: [b for a, b in edges if a == i] for i in range(n)}
    color = {}

    def dfs(u):
        color[u] = 1
        for v in adj[u]:
            if color.get(v) == 1:
                return True
            if v not in color and dfs(v):
                return True
        color[u] = 2
        return False

    return any(dfs(i) for i in range(n) if i not in color)


def graph_cases(max_nodes, tier, seed=0):
    """every digraph on <= max_nodes nodes (self-loops included), edges realised through the four reference styles,
    a few textual orders, via the API and via source text; actions run, run, result of the first command."""
    import random

    rnd = random.Random(4242 + seed)
    cases = []
    names = ["N0", "N1", "N2", "N3", "N4"]
    styles = ["A", "L", "NL", "mixed"]
    for n in range(1, max_nodes + 1):
        pairs = [(a, b) for a in range(n) for b in range(n)]
        all_sets = list(itertools.chain.from_iterable(itertools.combinations(pairs, r) for r in range(0, min(len(pairs), 4) + 1)))
        if len(all_sets) > (400 if tier == "quick" else 3000):
            all_sets = rnd.sample(all_sets, 400 if tier == "quick" else 3000)
        for edges in all_sets:
            style = styles[(len(edges) + n + len(cases)) % len(styles)]
            cmds = []
            for i in range(n):
                outs = [b for a, b in edges if a == i]
                args = {}
                if outs:
                    if style == "A" and len(outs) <= 2:
                        for key, b in zip(("A", "B"), outs):
                            args[key] = {"ref": names[b]}
                    elif style == "L":
                        args["L"] = {"list": [{"ref": names[b]} for b in outs]}
                    elif style == "NL":
                        args["NL"] = {"list": [{"list": [{"ref": names[b]} for b in outs]}]}
                    else:
                        args["A"] = {"ref": names[outs[0]]}
                        if len(outs) > 1:
                            args["L"] = {"list": [{"ref": names[b]} for b in outs[1:]] + [{"ref": names[outs[0]]}]}
                cmds.append({"name": names[i], "cls": "Node" if outs else "Leaf", "args": args})
            order = list(range(n))
            rnd.shuffle(order)
            cmds = [cmds[i] for i in order]
            mode = "source" if (len(cases) % 2 == 0) else "api"
            cases.append({"mode": mode, "commands": cmds, "actions": ["run", "run", "result:%s" % cmds[0]["name"]],
                          "meta": {"n": n, "edges": list(edges), "cyclic": has_cycle(n, edges), "style": style}})
    cases += history_cases()
    return cases


def history_cases():
    """multi-step histories: a run that fails part-way and is repeated after the fault is gone; a rejected cyclic model used again"""
    ref = lambda n: {"ref": n}
    cases = []
    chain = [{"name": "L0", "cls": "Leaf", "args": {}}, {"name": "F1", "cls": "Flaky", "args": {"A": ref("L0")}},
             {"name": "N2", "cls": "Node", "args": {"A": ref("F1"), "B": ref("L0")}}, {"name": "N3", "cls": "Node", "args": {"L": {"list": [ref("N2"), ref("F1")]}}}]
    for order in ([0, 1, 2, 3], [3, 2, 1, 0], [2, 0, 3, 1]):
        for mode in ("source", "api"):
            cases.append({"mode": mode, "commands": [chain[i] for i in order], "actions": ["run", "result:N2", "heal", "run", "run", "result:N3"],
                          "meta": {"n": 4, "edges": [], "cyclic": False, "style": "failure-history", "history": "fail-then-retry"}})
    cyc = [{"name": "A", "cls": "Node", "args": {"A": ref("B")}}, {"name": "B", "cls": "Node", "args": {"L": {"list": [ref("A")]}}},
           {"name": "T", "cls": "Node", "args": {"A": ref("A")}}, {"name": "S", "cls": "Leaf", "args": {}}]
    for order in ([0, 1, 2, 3], [3, 2, 1, 0], [2, 3, 0, 1]):
        for mode in ("source", "api"):
            cases.append({"mode": mode, "commands": [cyc[i] for i in order], "actions": ["run", "result:A", "run", "result:T"],
                          "meta": {"n": 4, "edges": [], "cyclic": True, "style": "rejection-history", "history": "rejected-then-reused"}})
    # a program that has run is extended through the interface and run again: the new commands execute (once), the old ones do not execute again
    base = [{"name": "L0", "cls": "Leaf", "args": {}}, {"name": "N1", "cls": "Node", "args": {"A": ref("L0")}}]
    extra = [{"name": "N8", "cls": "Node", "args": {"A": ref("N1"), "B": ref("L0")}}, {"name": "L9", "cls": "Leaf", "args": {}}]
    for mode in ("source", "api"):
        cases.append({"mode": mode, "commands": base, "actions": ["run", "add:" + json.dumps(extra[0]), "add:" + json.dumps(extra[1]), "run", "result:N8", "run"],
                      "meta": {"n": 4, "edges": [], "cyclic": False, "style": "extension-history", "history": "run-extend-run"}})
    return cases


def judge_history(case, out):
    bad = []
    steps = out["steps"]
    names = [c["name"] for c in case["commands"]]
    if case["meta"]["history"] == "run-extend-run":
        if any(s["outcome"] != "return" for s in steps):
            s = [s for s in steps if s["outcome"] != "return"][0]
            return [("raises_only", "step %s of run / extend / run ended with %s: %s" % (s["action"][:12], s.get("exc_class"), s.get("msg", "")[:100]))]
        s3, s5 = steps[3], steps[5]
        for n in ("N8", "L9"):
            if not s3["finished"].get(n):
                bad.append(("all-finished", "run() returned with the command %s added after the first run not executed" % n))
        for s in (s3, s5):
            for n in ("L0", "N1", "N8", "L9"):
                if s["executions"].count(n) > 1:
                    bad.append(("once", "%s executed %d times over run, extend, run" % (n, s["executions"].count(n))))
        if not bad and sorted(s5["executions"]) != ["L0", "L9", "N1", "N8"]:
            bad.append(("once", "executions over the whole history: %s" % s5["executions"]))
        return bad
    if case["meta"]["history"] == "fail-then-retry":
        s0, s1, s2, s3, s4, s5 = steps
        if s0["outcome"] != "raise" or not s0.get("is_mpilot"):
            bad.append(("raises_only", "the run with the transient fault ended with %s" % (s0.get("exc_class") or "a normal return")))
        for n in ("F1", "N2", "N3"):
            if s0["finished"].get(n):
                bad.append(("finished", "%s is marked finished although its execution failed (result %r)" % (n, s0["results"].get(n))))
        if s1["outcome"] != "raise":
            bad.append(("memo", "reading the result of a command downstream of the failure returned %r" % (s1["results"].get("N2"),)))
        if s3["outcome"] != "return":
            bad.append(("once", "after the fault was gone run() ended with %s: %s" % (s3.get("exc_class"), s3.get("msg", "")[:100])))
        else:
            if not all(s3["finished"].values()):
                bad.append(("all-finished", "run() returned with unfinished commands %s" % [n for n, f in s3["finished"].items() if not f]))
            want = {"L0": 1, "F1": 11, "N2": 13, "N3": 25}
            for n, v in want.items():
                if s3["results"].get(n) != v:
                    bad.append(("memo", "%s holds %r after the successful run, the graph evaluates to %r" % (n, s3["results"].get(n), v)))
            ex = s3["executions"]
            if ex.count("L0") != 1:
                bad.append(("once", "L0 executed %d times over the failed and the successful run" % ex.count("L0")))
            for n in ("N2", "N3"):
                if ex.count(n) > 1 + (1 if n in s0["executions"] else 0):
                    bad.append(("once", "%s executed %d times" % (n, ex.count(n))))
            if len(s4["executions"]) != len(ex) or len(s5["executions"]) != len(ex) or s4["outcome"] != "return" or s5["outcome"] != "return":
                bad.append(("memo", "a further run / result access executed something again"))
        return bad
    # a rejected cyclic model used again: every use is rejected the same way, nothing on the cycle ever counts as finished
    for i, s in enumerate(steps):
        if s["outcome"] == "return":
            bad.append(("all-finished" if s["action"] == "run" else "reentrancy", "step %d (%s) of a cyclic model returned normally (results %s)" % (i, s["action"], s["results"])))
        elif s.get("exc_class") != "RecursiveModelStructure":
            bad.append(("reentrancy", "step %d (%s) was rejected with %s instead of RecursiveModelStructure" % (i, s["action"], s.get("exc_class"))))
        for n in ("A", "B", "T"):
            if s["finished"].get(n):
                bad.append(("reentrancy", "after step %d the cycle member / dependent %s counts as finished" % (i, n)))
    return bad


def judge_graph(case, out):
    """violated clauses for C01 / C14 on one graph case"""
    bad = []
    if "harness_error" in out:
        return [("harness-error", out["harness_error"][-300:])]
    if out["load"]["outcome"] != "ok":
        return [("load", "the stub program did not load: %s" % out["load"])]
    if case["meta"].get("history"):
        return judge_history(case, out)
    names = [c["name"] for c in case["commands"]]
    steps = out["steps"]
    first = steps[0]
    if case["meta"]["cyclic"]:
        if first["outcome"] == "return":
            unfinished = [n for n, f in first["finished"].items() if not f]
            bad.append(("all-finished", "cyclic model: run() returned normally with un-executed commands %s" % unfinished))
        elif first.get("exc_class") != "RecursiveModelStructure":
            bad.append(("reentrancy", "cyclic model rejected with %s (wrapped: %s) instead of RecursiveModelStructure"
                        % (first.get("exc_class"), first.get("wrapped"))))
        if first.get("wrapped") == "RecursionError" or first.get("exc_class") == "RecursionError":
            bad.append(("reentrancy", "the interpreter stack was exhausted"))
        return bad
    if first["outcome"] != "return":
        bad.append(("raises_only", "acyclic model failed: %s %s" % (first.get("exc_class"), first.get("msg", "")[:100])))
        return bad
    ex = first["executions"]
    for n in names:
        if ex.count(n) != 1:
            bad.append(("once", "%s executed %d times in the first run" % (n, ex.count(n))))
    if not all(first["finished"].values()):
        bad.append(("all-finished", "run() returned with unfinished commands"))
    if first["fed_unfinished"]:
        bad.append(("finished", "a command was fed an unfinished dependency: %s" % first["fed_unfinished"][:1]))
    for s in steps[1:]:
        if s["outcome"] != "return" or len(s["executions"]) != len(ex):
            bad.append(("memo", "%s executed something again (%d executions, was %d)" % (s["action"], len(s["executions"]), len(ex))))
    return bad
