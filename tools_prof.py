import sys, time, json
sys.path.insert(0, '/verif')
from pyvc.extract import Repo
from pyvc.engine import Engine
from pyvc import spec as S, cmdspec, registry, smt
repo = Repo()
SPECS, classes = registry.load(repo)
n = sys.argv[1]
eng = Engine(repo, S.CONTRACTS, S.LOOPS)
t0=time.time()
res = cmdspec.verify_execute(eng, classes[n], SPECS[n])
print(time.time()-t0, smt.STATS)
for r in sorted(res, key=lambda r: -r["time_s"])[:8]:
    print(r["time_s"], r["status"], r["name"])
