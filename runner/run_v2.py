"""Real-code side for C16: loads a v2 text and its v3 transcription and dumps the program structure of both."""
import json
import sys

root = sys.argv[3] if len(sys.argv) > 3 else "/repo"
sys.path.insert(0, root)


def dump(src):
    from mpilot.program import Program
    from mpilot.arguments import ListArgument

    try:
        p = Program.from_source(src)
    except Exception as e:
        return {"outcome": "raise", "exc_class": type(e).__name__, "msg": str(e)[:200]}

    def val(v):
        if isinstance(v, list):
            return [val(x) for x in v]
        if isinstance(v, ListArgument):
            return val(v.value)
        return repr(v)

    return {"outcome": "ok", "commands": [{"result": n, "cls": type(c).__name__, "module": type(c).__module__,
                                          "args": [[a.name, val(a.value)] for a in c.arguments]} for n, c in p.commands.items()]}


def main():
    cases = json.load(open(sys.argv[1]))
    outs = []
    for c in cases:
        # earlier loads in the same process (other library selections): whatever they do, they are over before the case starts
        for h in c.get("history", []):
            try:
                from mpilot.program import Program

                Program.from_source(h["src"], libraries=tuple(h["libraries"]))
            except Exception:
                pass
        outs.append({"v2": dump(c["v2"]), "v3": dump(c["v3"])})
    json.dump(outs, open(sys.argv[2], "w"))


if __name__ == "__main__":
    main()
