"""Real-code side for C19: histories of class definitions and Program constructions over generated packages.

run_registry.py cases.json out.json [repo_root]
case: {"packages": {"plug": {"mods": {"__init__": ["Alpha"], "sub": ["Beta"]}}, "plugx": {...}},
       "history": [["program", ["plugx"]], ["define", "plugx.late", "Gamma"], ["program", ["plug"]]],
       "final": ["plug"]}
Every class <Name> defined in module M gets the attribute origin = M, so the implementation a name resolves to is observable.
The outcome of the *final* Program construction is reported twice: after the history, and in a fresh interpreter state
(sub-process) without any history."""
import importlib
import json
import os
import shutil
import subprocess
import sys
import tempfile
import traceback

root = sys.argv[3] if len(sys.argv) > 3 else "/repo"


def write_packages(base, packages):
    for pkg, spec in packages.items():
        d = os.path.join(base, *pkg.split("."))
        os.makedirs(d, exist_ok=True)
        for mod, classes in spec["mods"].items():
            path = os.path.join(d, "__init__.py" if mod == "__init__" else mod + ".py")
            with open(path, "w") as f:
                f.write("from mpilot.commands import Command\nfrom mpilot import params\n")
                for c in classes:
                    nm, _, alias = c.partition(":")
                    f.write("\nclass %s(Command):\n    origin = __name__\n%s    output = params.NumberParameter()\n"
                            "    def execute(self, **kwargs):\n        return 1\n" % (nm, ("    name = %r\n" % alias) if alias else ""))
        if not os.path.exists(os.path.join(d, "__init__.py")):
            open(os.path.join(d, "__init__.py"), "w").close()


def construct(libs):
    from mpilot.program import Program
    from mpilot.exceptions import MPilotError

    try:
        p = Program(libraries=tuple(libs))
        resolved = {}
        for n in PROBES:
            try:
                c = p.find_command_class(n)
                resolved[n] = None if c is None else getattr(c, "origin", c.__module__)
            except Exception as e:
                resolved[n] = "<raised %s>" % type(e).__name__
        return {"outcome": "ok", "library": {n: getattr(c, "origin", c.__module__) for n, c in sorted(p.command_library.items())}, "resolved": resolved}
    except Exception as e:
        return {"outcome": "raise", "exc_class": type(e).__name__, "is_mpilot": isinstance(e, MPilotError), "msg": str(e)[:200]}


PROBES = []


def run_case(case, base):
    out = {"history": []}
    names = set()
    for spec in case.get("packages", {}).values():
        for classes in spec["mods"].values():
            for c in classes:
                nm, _, alias = c.partition(":")
                names.add(alias or nm)
    names.update(s[2] for s in case["history"] if s[0] == "define")
    PROBES[:] = sorted(names | {n.lower() for n in names} | {n.upper() for n in names})
    for step in case["history"]:
        if step[0] == "program":
            out["history"].append(construct(step[1]))
        elif step[0] == "define":
            # a class definition at run time in a (possibly new) module name
            from mpilot.commands import Command
            ns = {"__module__": step[1], "origin": step[1], "execute": lambda self, **kw: 1}
            type(Command)(step[2], (Command,), ns)
            out["history"].append({"outcome": "defined"})
        elif step[0] == "import":
            importlib.import_module(step[1])
            out["history"].append({"outcome": "imported"})
    out["final"] = construct(case["final"])
    return out


def main():
    if sys.argv[1] == "--one":
        # child mode: one case, its own interpreter
        case = json.loads(sys.argv[2])
        base = sys.argv[4]
        sys.path.insert(0, root)
        sys.path.insert(0, base)
        print(json.dumps(run_case(case, base)))
        return
    cases = json.load(open(sys.argv[1]))
    from concurrent.futures import ThreadPoolExecutor

    with ThreadPoolExecutor(max_workers=12) as ex:
        outs = list(ex.map(one_case, cases))
    json.dump(outs, open(sys.argv[2], "w"))


def one_case(case):
    outs = []
    for case in [case]:
        base = tempfile.mkdtemp(prefix="vreg")
        try:
            write_packages(base, case["packages"])
            res = {}
            for label, hist in (("with_history", case["history"]), ("fresh", [])):
                c = dict(case, history=hist)
                p = subprocess.run([sys.executable, os.path.abspath(__file__), "--one", json.dumps(c), root, base],
                                   capture_output=True, text=True, timeout=120)
                if p.returncode != 0:
                    res[label] = {"harness_error": (p.stderr or p.stdout)[-800:]}
                else:
                    res[label] = json.loads(p.stdout.strip().splitlines()[-1])
            outs.append(res)
        except Exception:
            outs.append({"harness_error": traceback.format_exc()[-800:]})
        finally:
            shutil.rmtree(base, ignore_errors=True)
    return outs[0]


if __name__ == "__main__":
    main()
