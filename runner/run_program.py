"""Real-code side for program-level bounded checks (C01, C14, C12, C13): builds a Program over the counting
stub library (or from source text), runs it and reports executions, finished flags and the outcome.

run_program.py cases.json out.json [repo_root]
case: {"mode": "api"|"source", "commands": [{"name","cls","args":{...}}], "order":[...], "source": str,
       "libraries": [...], "actions": ["run","run","result:X",...]}
arg encodings: {"ref": name} {"list":[enc..]} {"num": x} {"str": s} {"raw": any json}"""
import json
import os
import sys
import traceback

root = sys.argv[3] if len(sys.argv) > 3 else "/repo"
sys.path.insert(0, root)
sys.path.insert(0, os.path.join(os.path.dirname(os.path.abspath(__file__)), "stubs"))
sys.setrecursionlimit(400)


def dec(e):
    (k, v), = e.items()
    if k == "ref":
        return v
    if k == "list":
        return [dec(x) for x in v]
    return v


def src_val(e):
    (k, v), = e.items()
    if k == "ref":
        return v
    if k == "list":
        return "[" + ", ".join(src_val(x) for x in v) + "]"
    if k == "str":
        return '"%s"' % v
    return repr(v)


def to_source(cmds):
    out = []
    for c in cmds:
        args = ",\n    ".join("%s = %s" % (k, src_val(v)) for k, v in c["args"].items())
        out.append("%s = %s(\n    %s\n)" % (c["name"], c["cls"], args))
    return "\n".join(out)


def run_case(case):
    import verif_stubs
    from mpilot.program import Program
    from mpilot.exceptions import MPilotError
    from mpilot.arguments import Argument, ListArgument

    del verif_stubs.EXEC_LOG[:]
    verif_stubs.FLAKY["fail"] = True
    libs = tuple(case.get("libraries", ["verif_stubs"]))
    out = {"steps": []}
    try:
        if case.get("mode") == "source":
            src = case.get("source") or to_source(case["commands"])
            out["source"] = src
            prog = Program.from_source(src, libraries=libs, working_dir=case.get("working_dir"))
        else:
            prog = Program(libraries=libs, working_dir=case.get("working_dir"))
            for c in case["commands"]:
                cls = prog.find_command_class(c["cls"])
                args = {}
                for k, v in c["args"].items():
                    val = dec(v)
                    args[k] = ListArgument(k, val, 1) if isinstance(val, list) else Argument(k, val, 1)
                prog.add_command(cls, c["name"], args, lineno=c.get("lineno", 1))
    except Exception as e:
        out["load"] = {"outcome": "raise", "exc_class": type(e).__name__, "is_mpilot": isinstance(e, MPilotError),
                       "is_syntax": isinstance(e, SyntaxError), "lineno": getattr(e, "lineno", None), "msg": _msg(e)}
        out["executions"] = [n for n, _ in verif_stubs.EXEC_LOG]
        return out
    out["load"] = {"outcome": "ok", "names": list(prog.commands.keys())}
    for act in case.get("actions", ["run"]):
        step = {"action": act}
        try:
            if act == "run":
                prog.run()
            elif act == "heal":
                verif_stubs.FLAKY["fail"] = False
            elif act.startswith("add:"):
                c = json.loads(act[4:])
                cls = prog.find_command_class(c["cls"])
                args = {}
                for k, v in c["args"].items():
                    val = dec(v)
                    args[k] = ListArgument(k, val, 1) if isinstance(val, list) else Argument(k, val, 1)
                prog.add_command(cls, c["name"], args, lineno=c.get("lineno", 1))
            elif act.startswith("result:"):
                prog.commands[act.split(":", 1)[1]].result
            step["outcome"] = "return"
        except BaseException as e:  # RecursionError is an Exception; keep BaseException for the record
            step["outcome"] = "raise"
            step["exc_class"] = type(e).__name__
            step["is_mpilot"] = isinstance(e, MPilotError)
            step["lineno"] = getattr(e, "lineno", None)
            step["msg"] = _msg(e)
            inner = getattr(e, "exc", None)
            if inner is not None:
                step["wrapped"] = type(inner).__name__
        step["executions"] = [n for n, _ in verif_stubs.EXEC_LOG]
        step["finished"] = {n: bool(c.is_finished) for n, c in prog.commands.items()}
        step["results"] = {n: (c._result if isinstance(getattr(c, "_result", None), (int, float, type(None))) else repr(getattr(c, "_result", None))[:40])
                           for n, c in prog.commands.items()}
        step["fed_unfinished"] = [(n, seen) for n, seen in verif_stubs.EXEC_LOG if any(not f for _, f in seen)]
        out["steps"].append(step)
    return out


def _msg(e):
    try:
        return str(e)[:300]
    except Exception as e2:
        return "<__str__ raised %s>" % type(e2).__name__


def main():
    cases = json.load(open(sys.argv[1]))
    outs = []
    for c in cases:
        try:
            outs.append(run_case(c))
        except Exception:
            outs.append({"harness_error": traceback.format_exc()[-1500:]})
    json.dump(outs, open(sys.argv[2], "w"), default=str)


if __name__ == "__main__":
    main()
