"""Stub library for the serialisation round-trip checks: one command with a parameter of every kind."""
from mpilot import params
from mpilot.commands import Command


class Src(Command):
    inputs = {"Value": params.NumberParameter(required=False)}
    output = params.NumberParameter()

    def execute(self, **kwargs):
        return kwargs.get("Value", 1)


class Every(Command):
    inputs = {
        "S": params.StringParameter(required=False),
        "N": params.NumberParameter(required=False),
        "B": params.BooleanParameter(required=False),
        "P": params.PathParameter(must_exist=False, required=False),
        "R": params.ResultParameter(required=False),
        "LS": params.ListParameter(params.StringParameter(), required=False),
        "LN": params.ListParameter(params.NumberParameter(), required=False),
        "LR": params.ListParameter(params.ResultParameter(), required=False),
        "LL": params.ListParameter(params.ListParameter(params.NumberParameter()), required=False),
    }
    output = params.NumberParameter()

    def execute(self, **kwargs):
        return 1
