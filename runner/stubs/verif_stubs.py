"""Counting stub commands for the bounded program-level checks (run under /venv/bin/python).

Imported as the library "verif_stubs" by Program(libraries=("verif_stubs",))."""
from mpilot import params
from mpilot.commands import Command

EXEC_LOG = []  # (result_name, [names of the finished-state of every referenced command at entry])


def _flat(x):
    if isinstance(x, (list, tuple)):
        for i in x:
            for j in _flat(i):
                yield j
    else:
        yield x


class Leaf(Command):
    """no references"""

    inputs = {"Value": params.NumberParameter(required=False)}
    output = params.NumberParameter()

    def execute(self, **kwargs):
        EXEC_LOG.append((self.result_name, []))
        return kwargs.get("Value", 1)


class Node(Command):
    """references through a direct parameter, a second direct parameter, a list and a nested list"""

    inputs = {
        "A": params.ResultParameter(required=False),
        "B": params.ResultParameter(required=False),
        "L": params.ListParameter(params.ResultParameter(), required=False),
        "NL": params.ListParameter(params.ListParameter(params.ResultParameter()), required=False),
    }
    output = params.NumberParameter()

    def execute(self, **kwargs):
        refs = []
        for k in ("A", "B"):
            if k in kwargs:
                refs.append(kwargs[k])
        refs.extend(_flat(kwargs.get("L", [])))
        refs.extend(_flat(kwargs.get("NL", [])))
        total = 1
        seen = []
        for c in refs:
            total += c.result  # pull the dependency
            seen.append((c.result_name, c.is_finished))
        EXEC_LOG.append((self.result_name, seen))
        return total


class Boom(Command):
    """fails inside execute with a plain Python error"""

    inputs = {"A": params.ResultParameter(required=False)}
    output = params.NumberParameter()

    def execute(self, **kwargs):
        EXEC_LOG.append((self.result_name, []))
        raise ZeroDivisionError("boom")


FLAKY = {"fail": True}  # while set, Flaky.execute raises (a transient fault: missing file, bad column ...); the runner's "heal" action clears it


class Flaky(Command):
    """fails inside execute until healed, then returns 10 + its dependency"""

    inputs = {"A": params.ResultParameter(required=False)}
    output = params.NumberParameter()

    def execute(self, **kwargs):
        seen = []
        total = 10
        if "A" in kwargs:
            total += kwargs["A"].result
            seen.append((kwargs["A"].result_name, kwargs["A"].is_finished))
        EXEC_LOG.append((self.result_name, seen))
        if FLAKY["fail"]:
            raise ZeroDivisionError("transient")
        return total
