"""Real-code side for the exception classes (C13 / C11): every MPilotError subclass of mpilot.exceptions and the EEMS library is
constructed with plausible arguments of every kind and rendered.

run_exceptions.py out.json [repo_root]"""
import inspect
import itertools
import json
import sys
import traceback

root = sys.argv[2] if len(sys.argv) > 2 else "/repo"
sys.path.insert(0, root)

TEXTS = ["name", "", "R\u00e9sultat \u4e2d", "with \"quotes\" and {braces}"]
ANY = TEXTS[:3] + [5, 2.5, None, True, ["a", "b"], ("a",), {"k": "v"}]


def candidates(pname):
    """values of the kinds the callers in mpilot pass for a parameter of this name"""
    n = pname.lower()
    if n == "lineno":
        return [None, 1, 37]
    if "shape" in n:
        return [(3,), (2, 2), (1, 2, 3), ()]
    if n in ("value", "exc", "exception", "default"):
        return ANY  # raw argument values of every kind reach the errors raised by the cleaners
    if n in ("parameters", "params", "names", "duplicates"):
        return [["a", "b"], set(["p", "q"]), ("a",), []]
    if n in ("count", "expected", "received", "length", "raw_len", "normal_len") or n.endswith(("_len", "_count", "_length")) or n.startswith(("num_", "n_", "len_")):
        return [0, 1, 7]
    return TEXTS


def main():
    import mpilot.exceptions as E1
    try:
        import mpilot.libraries.eems.exceptions as E2
        mods = [E1, E2]
    except Exception:
        mods = [E1]
    try:
        import mpilot.libraries.eems.netcdf.exceptions as E3
        mods.append(E3)
    except Exception:
        pass
    from mpilot.exceptions import MPilotError
    from mpilot.commands import Command

    class Dummy(Command):
        name = "DummyForErrors"

        def execute(self, **kw):
            return 1

    out = []
    seen = set()
    for m in mods:
        for nm, cls in sorted(vars(m).items()):
            if not (isinstance(cls, type) and issubclass(cls, MPilotError)) or cls in seen:
                continue
            seen.add(cls)
            try:
                sig = inspect.signature(cls.__init__)
                params = [p for p in list(sig.parameters.values())[1:] if p.kind in (p.POSITIONAL_OR_KEYWORD, p.KEYWORD_ONLY)]
            except (TypeError, ValueError):
                params = []
            lists = []
            for p in params:
                c = list(candidates(p.name))
                if p.name in ("command", "command_cls"):
                    c = c + [Dummy]
                lists.append(c)
            rec = {"cls": nm, "module": m.__name__, "params": [p.name for p in params], "cases": 0, "failures": []}
            # one value varied at a time around a plain baseline, plus a few all-odd combinations (keeps the count small)
            base = [c[0] if p.name != "lineno" else 37 for p, c in zip(params, lists)]
            combos = [tuple(base)]
            for i, c in enumerate(lists):
                for v in c:
                    t = list(base)
                    t[i] = v
                    combos.append(tuple(t))
            for combo in combos:
                rec["cases"] += 1
                kwargs = {p.name: v for p, v in zip(params, combo)}
                try:
                    e = cls(**kwargs)
                except Exception as ex:
                    # rejecting an argument kind at construction is the caller's problem only for kinds the code itself passes
                    if True:
                        rec["failures"].append({"stage": "construct", "args": repr(kwargs)[:200], "exc": "%s: %s" % (type(ex).__name__, ex)})
                    continue
                try:
                    s = str(e)
                    if not isinstance(s, str):
                        rec["failures"].append({"stage": "str", "args": repr(kwargs)[:200], "exc": "__str__ returned %s" % type(s).__name__})
                except Exception as ex:
                    rec["failures"].append({"stage": "str", "args": repr(kwargs)[:200], "exc": "%s: %s" % (type(ex).__name__, ex)})
                from mpilot.exceptions import ProgramError
                if "lineno" in kwargs and isinstance(e, ProgramError) and getattr(e, "lineno", "missing") != kwargs["lineno"]:
                    rec["failures"].append({"stage": "lineno", "args": repr(kwargs)[:200], "exc": "carries line %r" % (getattr(e, "lineno", "missing"),)})
            out.append(rec)
    json.dump(out, open(sys.argv[1], "w"), default=str)


if __name__ == "__main__":
    try:
        main()
    except Exception:
        json.dump({"harness_error": traceback.format_exc()[-1500:]}, open(sys.argv[1], "w"))
