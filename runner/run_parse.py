"""Real-code side for the parser checks (C10, C11, C13): parses source texts with the real PLY parser.

run_parse.py cases.json out.json [repo_root]
case: {"sources": [text, ...], "same_parser": bool}  - the texts are parsed in order, on one Parser object when same_parser.
output per case: list of {"outcome": "ok", "tree": ...} | {"outcome": "raise", "exc_class", "msg"}"""
import json
import sys
import traceback

root = sys.argv[3] if len(sys.argv) > 3 else "/repo"
sys.path.insert(0, root)


def dump(node):
    from mpilot.parser.parser import ProgramNode, CommandNode, ArgumentNode, ExpressionNode

    if isinstance(node, ProgramNode):
        return {"t": "program", "version": node.version, "commands": [dump(c) for c in node.commands]}
    if isinstance(node, CommandNode):
        return {"t": "command", "result_name": node.result_name, "command": node.command, "lineno": node.lineno,
                "arguments": [dump(a) for a in node.arguments]}
    if isinstance(node, ArgumentNode):
        return {"t": "argument", "name": node.name, "lineno": node.lineno, "value": dump(node.value)}
    if isinstance(node, ExpressionNode):
        return {"t": "expr", "lineno": node.lineno, "value": dump(node.value)}
    if isinstance(node, list):
        return {"t": "list", "items": [dump(x) for x in node]}
    if isinstance(node, dict):
        return {"t": "dict", "items": [[k, dump(v)] for k, v in node.items()]}
    if isinstance(node, bool):
        return {"t": "bool", "v": node}
    if isinstance(node, int):
        return {"t": "int", "v": node}
    if isinstance(node, float):
        return {"t": "float", "v": repr(node)}
    if isinstance(node, str):
        return {"t": "str", "v": node}
    if node is None:
        return {"t": "none"}
    return {"t": "other", "repr": repr(node)[:100]}


def main():
    from mpilot.parser.parser import Parser

    cases = json.load(open(sys.argv[1]))
    outs = []
    for case in cases:
        res = []
        parser = Parser() if case.get("same_parser") else None
        for src in case["sources"]:
            p = parser or Parser()
            try:
                tree = p.parse(src)
                res.append({"outcome": "ok", "tree": dump(tree)})
            except BaseException as e:  # noqa
                try:
                    msg = str(e)[:200]
                except Exception:
                    msg = "<unprintable>"
                res.append({"outcome": "raise", "exc_class": type(e).__name__, "is_syntax": isinstance(e, SyntaxError), "msg": msg})
        outs.append(res)
    json.dump(outs, open(sys.argv[2], "w"))


if __name__ == "__main__":
    main()
