"""Real-code side of replay / bounded checks: runs mpilot command `execute` on concrete inputs.

Run under /venv/bin/python (has numpy, mpilot). Input: JSON file with a list of cases; output: JSON list of outcomes.
"""
import importlib
import json
import sys
import traceback

import numpy

sys.path.insert(0, sys.argv[3] if len(sys.argv) > 3 else "/repo")


class StubCommand(object):
    """stands for a finished producer command: what a consumer's cleaned kwargs contain"""

    def __init__(self, name, arr, fuzzy=False):
        self.result_name = name
        self._arr = arr
        self.is_finished = True
        self.is_fuzzy = fuzzy
        self.reads = 0

    @property
    def result(self):
        self.reads += 1
        return self._arr


def mk_array(spec, shape):
    dt = {"int": numpy.int64, "float": numpy.float64}[spec["dtype"]]
    data = numpy.array(spec["data"], dtype=dt).reshape(shape)
    if spec.get("layout") == "F" and len(shape) >= 2:
        data = numpy.asfortranarray(data)  # same cells, column-major memory (not C-contiguous): what a transposed view or a NetCDF slice looks like
    if spec.get("kind", "MA") == "ND":
        return data
    mask = numpy.array(spec["mask"], dtype=bool).reshape(shape)
    if spec.get("layout") == "F" and len(shape) >= 2:
        mask = numpy.asfortranarray(mask)
    if spec.get("nomask") and not mask.any():
        return numpy.ma.array(data)
    return numpy.ma.array(data, mask=mask)


def dump_array(a):
    if isinstance(a, numpy.ma.MaskedArray):
        kind = "MA"
        mask = numpy.ma.getmaskarray(a).reshape(-1).tolist()
        data = numpy.asarray(a.data).reshape(-1)
    elif isinstance(a, numpy.ndarray):
        kind = "ND"
        data = a.reshape(-1)
        mask = [False] * data.size
    else:
        return {"kind": "other", "repr": repr(a)[:200], "type": type(a).__name__}
    if data.dtype.kind in "iu":
        dtype = "int"
    elif data.dtype.kind == "f":
        dtype = "float"
    elif data.dtype.kind == "b":
        dtype = "bool"
    else:
        dtype = str(data.dtype)
    vals = []
    for v in data.tolist():
        if isinstance(v, float) and (v != v or v in (float("inf"), float("-inf"))):
            vals.append(repr(v))
        else:
            vals.append(v)
    return {"kind": kind, "dtype": dtype, "shape": list(a.shape), "data": vals, "mask": mask}


def run_case(case):
    mod = importlib.import_module(case["module"])
    cls = getattr(mod, case["class"])
    shape = tuple(case["shape"])
    kwargs = {}
    stubs = {}
    originals = {}
    for name, spec in case["inputs"].items():
        if spec["kind"] == "single":
            arr = mk_array(spec, tuple(spec.get("shape", shape)))
            st = StubCommand(spec.get("name", name), arr, spec.get("fuzzy", False))
            kwargs[name] = st
            stubs[name] = [st]
            originals[name] = [dump_array(arr)]
        else:
            items = []
            for i, it in enumerate(spec["items"]):
                arr = mk_array(it, tuple(it.get("shape", shape)))
                items.append(StubCommand(it.get("name", "%s_%d" % (name, i)), arr, it.get("fuzzy", False)))
            kwargs[name] = items
            stubs[name] = items
            originals[name] = [dump_array(s._arr) for s in items]
    for name, v in case.get("params", {}).items():
        kwargs[name] = v
    cmd = cls("r", [], program=None, lineno=case.get("lineno", 7))
    out = {}
    res = None
    import warnings

    with warnings.catch_warnings():
        warnings.simplefilter("ignore")
        try:
            res = cmd.execute(**kwargs)
            out["outcome"] = "return"
            out["result"] = dump_array(res) if isinstance(res, numpy.ndarray) else {"kind": "other", "repr": repr(res)[:200], "type": type(res).__name__}
        except Exception as e:  # noqa
            out["outcome"] = "raise"
            out["exc_class"] = type(e).__name__
            out["exc_mro"] = [c.__name__ for c in type(e).__mro__]
            try:
                out["exc_msg"] = str(e)[:300]
            except Exception as e2:  # the message itself cannot be rendered (reported by the C13 obligations)
                out["exc_msg"] = "<__str__ raised %s: %s>" % (type(e2).__name__, e2)
                out["exc_str_error"] = type(e2).__name__
            out["exc_lineno"] = getattr(e, "lineno", None)
            out["traceback"] = traceback.format_exc()[-1500:]
    if case.get("then") and out.get("outcome") == "return" and isinstance(res, numpy.ndarray):
        # C09: the result just produced is consumed by further commands, one after the other; it must stay exactly as it was
        import os
        import tempfile

        snap0 = dump_array(res)
        chain = []
        producer = StubCommand("P", res, bool(getattr(cls, "is_fuzzy", False)))
        tmpd = tempfile.mkdtemp(prefix="vimm")
        for step in case["then"]:
            cmod = importlib.import_module(step["module"])
            ccls = getattr(cmod, step["class"])
            kw = dict(step.get("params", {}))
            for pn in step.get("single", []):
                kw[pn] = producer
            for pn in step.get("lists", []):
                if step.get("double"):
                    # a second, different input: constant, valid everywhere, inside the fuzzy range
                    other = StubCommand("Q", numpy.ma.array(numpy.full(res.shape, -0.5), mask=numpy.zeros(res.shape, dtype=bool)), producer.is_fuzzy)
                    kw[pn] = [producer, other]
                else:
                    kw[pn] = [producer]
            for pn in step.get("paths", []):
                kw[pn] = os.path.join(tmpd, "%s_%d.csv" % (step["class"], len(chain)))
            rec = {"consumer": step["class"]}
            with warnings.catch_warnings():
                warnings.simplefilter("ignore")
                try:
                    ccls("c%d" % len(chain), [], program=None, lineno=9).execute(**kw)
                    rec["outcome"] = "return"
                except Exception as e:  # a consumer may reject the input; the producer's result must still be untouched
                    rec["outcome"] = "raise:" + type(e).__name__
            rec["after"] = dump_array(producer._arr)
            chain.append(rec)
        out["then"] = {"snapshot": snap0, "chain": chain}
        import shutil

        shutil.rmtree(tmpd, ignore_errors=True)
    if case.get("reorder") and out.get("outcome") == "return":
        # C06 / C07: the same command over the *same* input objects listed in another order (weights moved along with their layers)
        perm = case["reorder"]
        kw2 = dict(kwargs)
        for name, v in kwargs.items():
            if isinstance(v, list) and len(v) == len(perm) and (name in stubs or name == "Weights"):
                kw2[name] = [v[j] for j in perm]
        rec = {}
        with warnings.catch_warnings():
            warnings.simplefilter("ignore")
            try:
                r2 = cls("r2", [], program=None, lineno=case.get("lineno", 7)).execute(**kw2)
                rec["outcome"] = "return"
                rec["result"] = dump_array(r2) if isinstance(r2, numpy.ndarray) else {"kind": "other", "repr": repr(r2)[:200], "type": type(r2).__name__}
            except Exception as e:  # noqa
                rec["outcome"] = "raise"
                rec["exc_class"] = type(e).__name__
                rec["exc_msg"] = str(e)[:300]
        out["reordered"] = rec
        out["result_after_reorder"] = dump_array(res) if isinstance(res, numpy.ndarray) else None
    out["inputs_after"] = {n: [dump_array(s._arr) for s in ss] for n, ss in stubs.items()}
    out["inputs_before"] = originals
    out["reads"] = {n: [s.reads for s in ss] for n, ss in stubs.items()}
    return out


def main():
    cases = json.load(open(sys.argv[1]))
    outs = []
    for c in cases:
        try:
            outs.append(run_case(c))
        except Exception as e:  # harness problem, not a verdict
            outs.append({"outcome": "harness-error", "error": traceback.format_exc()[-1500:]})
    json.dump(outs, open(sys.argv[2], "w"))


if __name__ == "__main__":
    main()
