"""Real-code side for C15: builds a program (from source or through the API), serialises it, loads the text back and
compares structure and cleaned values.

run_roundtrip.py cases.json out.json [repo_root]
case: {"mode": "source"|"api", "source": str, "commands": [{"name","cls","args": {k: ENC}}], "libraries": [...]}
ENC: {"num": x} {"str": s} {"bool": b} {"ref": name} {"cmd": name} (a Command object, API only) {"list": [ENC]} {"dict": {k: v}}"""
import json
import os
import sys
import traceback

root = sys.argv[3] if len(sys.argv) > 3 else "/repo"
sys.path.insert(0, root)
sys.path.insert(0, os.path.join(os.path.dirname(os.path.abspath(__file__)), "stubs"))


def describe(program):
    """structure + cleaned values of a program (what the property compares)"""
    from mpilot.commands import Command
    from mpilot.arguments import Argument

    def norm(v):
        if isinstance(v, Command):
            return {"cmd": v.result_name}
        if isinstance(v, Argument):
            return norm(v.value)
        if isinstance(v, (list, tuple)):
            return [norm(x) for x in v]
        if isinstance(v, dict):
            return {str(k): norm(x) for k, x in v.items()}
        if isinstance(v, bool):
            return {"bool": v}
        if isinstance(v, float):
            return {"float": repr(v)}
        if isinstance(v, int):
            return {"int": v}
        return {"other": repr(v)}

    out = []
    for name, c in program.commands.items():
        args = []
        for a in c.arguments:
            entry = {"name": a.name}
            try:
                if a.name in c.inputs:
                    entry["clean"] = norm(c.inputs[a.name].clean(a.value, program, a.lineno))
                else:
                    entry["clean"] = norm(a.value)
            except Exception as e:
                entry["clean_error"] = type(e).__name__
            args.append(entry)
        out.append({"result": name, "cls": type(c).__name__, "args": args})
    return out


def build(case):
    from mpilot.program import Program
    from mpilot.arguments import Argument, ListArgument

    libs = tuple(case.get("libraries", ["verif_rt"]))
    if case["mode"] == "source":
        return Program.from_source(case["source"], libraries=libs)
    prog = Program(libraries=libs)

    def dec(e):
        (k, v), = e.items()
        if k == "list":
            return [dec(x) for x in v]
        if k == "dict":
            return dict(v)
        if k == "cmd":
            return prog.commands[v]
        return v

    for c in case["commands"]:
        cls = prog.find_command_class(c["cls"])
        args = {}
        for k, v in c["args"].items():
            val = dec(v)
            if c.get("plain_values"):
                args[k] = val  # raw values: add_command wraps them into Argument objects itself
            else:
                args[k] = ListArgument(k, val, 1) if isinstance(val, list) else Argument(k, val, 1)
        prog.add_command(cls, c["name"], args, lineno=1)
    return prog


def run_case(case):
    from mpilot.program import Program

    out = {}
    if case.get("preload"):
        # history: another model (e.g. an EEMS 2.0 file) was loaded in this process before
        try:
            Program.from_source(case["preload"], libraries=("mpilot.libraries.eems.csv", "mpilot.libraries.eems.basic", "mpilot.libraries.eems.fuzzy"))
        except Exception as e:
            out["preload_error"] = "%s: %s" % (type(e).__name__, str(e)[:120])
    try:
        p1 = build(case)
    except Exception as e:
        return {"build_error": "%s: %s" % (type(e).__name__, str(e)[:200])}
    try:
        d1 = describe(p1)
    except Exception as e:
        return {"describe_error": "%s: %s" % (type(e).__name__, e)}
    out["before"] = d1
    try:
        text = p1.to_string()
        out["text"] = text
    except Exception as e:
        out["to_string_error"] = "%s: %s" % (type(e).__name__, str(e)[:200])
        return out
    # to_file writes that text, to a file object and to a path alike (read back without newline translation)
    try:
        import io
        import tempfile

        buf = io.StringIO()
        p1.to_file(buf)
        got = [buf.getvalue()]
        d = tempfile.mkdtemp(prefix="vrt")
        path = os.path.join(d, "model.mpt")
        p1.to_file(path)
        import gc

        gc.collect()
        with io.open(path, "r", newline="", encoding=None) as f:
            got.append(f.read())
        import shutil

        shutil.rmtree(d, ignore_errors=True)
        out["to_file_same"] = [g == text for g in got]
        if not all(out["to_file_same"]):
            out["to_file_text"] = [g for g in got if g != text][0][:400]
    except UnicodeError as e:
        out["to_file_same"] = None  # the platform's default encoding cannot hold the text: outside the property
    except Exception as e:
        out["to_file_error"] = "%s: %s" % (type(e).__name__, str(e)[:200])
    try:
        p2 = Program.from_source(text, libraries=tuple(case.get("libraries", ["verif_rt"])))
        out["after"] = describe(p2)
    except Exception as e:
        out["reload_error"] = "%s: %s" % (type(e).__name__, str(e)[:200])
    return out


def main():
    cases = json.load(open(sys.argv[1]))
    outs = []
    for c in cases:
        try:
            outs.append(run_case(c))
        except Exception:
            outs.append({"harness_error": traceback.format_exc()[-1200:]})
    json.dump(outs, open(sys.argv[2], "w"), default=str)


if __name__ == "__main__":
    main()
