"""Real-code side for C12 / C13 (and the CLI part of C11): loads and runs whole models in a scratch directory and
records what escaped, what executed and what was written.

run_load.py cases.json out.json [repo_root]
case: {"source": text, "files": {name: content}, "library": "eems-csv", "libraries": [...]|null, "mode": "api"|"cli"}
api result: {"stage": "ok"|"load"|"run", "exc": {...}|null, "executed": [result names], "files": [new files], "results": {...}}
cli result: {"exit": code, "stderr": text, "stdout": text, "files": [...]}"""
import json
import os
import shutil
import subprocess
import sys
import tempfile
import traceback

root = sys.argv[3] if len(sys.argv) > 3 else "/repo"
sys.path.insert(0, root)
HERE = os.path.dirname(os.path.abspath(__file__))
sys.path.insert(0, os.path.join(HERE, "stubs"))


def exc_info(e):
    from mpilot.exceptions import MPilotError, ProgramError

    try:
        msg = str(e)
    except Exception as e2:  # a message that cannot be rendered is itself a finding
        msg = "<__str__ raised %s: %s>" % (type(e2).__name__, e2)
    attrs = {}
    for k, v in list(getattr(e, "__dict__", {}).items()):
        try:
            attrs[k] = v if isinstance(v, (int, float, str, bool, type(None))) else repr(v)[:120]
        except Exception:
            attrs[k] = "<unprintable>"
    return {"cls": type(e).__name__, "mro": [c.__name__ for c in type(e).__mro__], "is_mpilot": isinstance(e, MPilotError),
            "is_program_error": isinstance(e, ProgramError), "is_syntax": isinstance(e, SyntaxError), "msg": msg[:600],
            "lineno": getattr(e, "lineno", None), "attrs": attrs, "tb": traceback.format_exc()[-500:]}


def dump_array(a):
    import numpy

    if isinstance(a, numpy.ma.MaskedArray):
        kind, mask = "MA", numpy.ma.getmaskarray(a).reshape(-1).tolist()
        data = numpy.asarray(a.data).reshape(-1)
    elif isinstance(a, numpy.ndarray):
        kind, data = "ND", a.reshape(-1)
        mask = [False] * data.size
    else:
        return {"kind": "other", "repr": repr(a)[:100]}
    dt = "int" if data.dtype.kind in "iu" else ("float" if data.dtype.kind == "f" else str(data.dtype))
    vals = [(float(v) if dt == "float" else (int(v) if dt == "int" else str(v))) for v in data.tolist()]
    vals = [(v if (dt != "float" or v == v and abs(v) != float("inf")) else str(v)) for v in vals]
    return {"kind": kind, "dtype": dt, "shape": list(a.shape), "data": vals, "mask": mask}


def run_api(case, tmp):
    from mpilot.program import Program, EEMS_CSV_LIBRARIES, EEMS_NETCDF_LIBRARIES

    libs = case.get("libraries")
    if libs is None:
        libs = EEMS_CSV_LIBRARIES if case.get("library", "eems-csv") == "eems-csv" else EEMS_NETCDF_LIBRARIES
    executed = []
    patched = []
    out = {"stage": "ok", "exc": None, "executed": executed}
    before = set(os.listdir(tmp))
    try:
        try:
            program = Program.from_source(case["source"], libraries=tuple(libs), working_dir=tmp)
        except BaseException as e:
            out["stage"], out["exc"] = "load", exc_info(e)
            return out
        seen = {type(cmd) for cmd in program.commands.values()}
        for cls in seen:
            for k in cls.__mro__:
                if "execute" in k.__dict__ and k not in [p[0] for p in patched]:
                    orig = k.__dict__["execute"]

                    def wrap(orig):
                        def execute(self, **kw):
                            if not executed or executed[-1] != self.result_name:
                                executed.append(self.result_name)
                            return orig(self, **kw)

                        return execute

                    patched.append((k, orig))
                    setattr(k, "execute", wrap(orig))
        out["commands"] = {n: type(c).__name__ for n, c in program.commands.items()}
        try:
            program.run()
        except BaseException as e:
            out["stage"], out["exc"] = "run", exc_info(e)
            return out
        out["finished"] = {n: bool(c.is_finished) for n, c in program.commands.items()}
        if case.get("dump_results"):
            out["results"] = {n: dump_array(c.result) for n, c in program.commands.items()}
            out["executed_after_dump"] = list(executed)
        return out
    finally:
        for k, orig in patched:
            setattr(k, "execute", orig)
        out["files"] = sorted(set(os.listdir(tmp)) - before)


def run_cli(case, tmp):
    path = os.path.join(tmp, case.get("file", "model.mpt"))
    if not case.get("no_file"):
        with open(path, "w", newline="") as f:
            f.write(case["source"])
    before = set(os.listdir(tmp))
    code = "import sys; sys.path.insert(0, %r); from mpilot.cli.mpilot import main; main()" % root
    args = [sys.executable, "-c", code, case.get("library", "eems-csv"), path] + list(case.get("extra_args", []))
    p = subprocess.run(args, cwd=tmp, stdout=subprocess.PIPE, stderr=subprocess.PIPE, timeout=300)
    return {"exit": p.returncode, "stderr": p.stderr.decode("utf-8", "replace")[-3000:], "stdout": p.stdout.decode("utf-8", "replace")[-500:],
            "files": sorted(set(os.listdir(tmp)) - before)}


def main():
    cases = json.load(open(sys.argv[1]))
    outs = []
    import warnings

    warnings.simplefilter("ignore")
    cwd = os.getcwd()
    for c in cases:
        tmp = tempfile.mkdtemp(prefix="vload")
        try:
            for name, content in c.get("files", {}).items():
                with open(os.path.join(tmp, name), "w", newline="") as f:
                    f.write(content)
            os.chdir(tmp)
            outs.append(run_cli(c, tmp) if c.get("mode") == "cli" else run_api(c, tmp))
        except Exception:
            outs.append({"harness_error": traceback.format_exc()[-1500:]})
        finally:
            os.chdir(cwd)
            shutil.rmtree(tmp, ignore_errors=True)
    json.dump(outs, open(sys.argv[2], "w"), default=str)


if __name__ == "__main__":
    main()
